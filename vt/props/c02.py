"""C02 -- Each injected argument comes from its one declared source.

Decided:
  R02.a  keyword identity in generated code: every call emitted by build_chain_str and by the request-core
         template passes NAME=NAME built from one element, never a positional argument -- so a value bound
         to name n can only reach a parameter called n, for every request and every hash seed (the order in
         which sets are joined into parameter lists cannot matter);
  R02.b  declared-only: emitted names iterate the callee's own signature filtered by the in-scope set;
         inject() filters by fb.get_arg_names() unless the callee takes **kwargs; the signature is that of the callable at hand
         (get_fb leaves nothing on the callables it inspects and keys a memo, if any, by the callable itself); the sources in
         scope are those of the route's own configuration (merging a route's middlewares never changes the application's list);
  R02.c  precedence of layers: a parameter's default is below every source; execute(): built-ins <
         bound resources < call-time parameters; dispatch(): serving application's resources < built-ins <
         URL parameters; bind time: application resources < route resources; each built-in name is bound
         to the object it names; the URL source of the bind-time check is the table the matcher binds from (every name the
         matcher can bind is a name binding offers, and vice versa: a default is never used for a name the URL supplies);
  R02.d  identity: on dispatch -> execute -> inject the values are only moved between dicts, never passed
         through a call (copy/str/...);
  R02.e  phase isolation: endpoint-phase provides never enter the render-phase availability (R01.d); whatever sources the chain
         builder does let meet in one phase (request provides and the preprovided names reach the other phases) are compared
         with each other by the conflict check: they share a provider map instance of check_middlewares; the parameters of a generated
         ``next(...)`` are the provides of its middleware in the order declared -- the positional interface through which a
         middleware hands values on: make_chain / compile_chain pass the tuples on unsorted (order-preserving copies only).
Declined: values third-party middlewares hand to next(); URL conversion values (C05).
"""
from . import chain


def check_url_params_fresh(rep, rule):
    """The URL parameters of a request are converted for that request: match_path builds a fresh mapping in this
    activation, every value in it is the result of a converter call on this path's groups, and nothing is stored on
    the (shared) route object -- so no request can receive a value converted (or mutated) by another one."""
    import ast
    from ..core import norm, short
    from .. import effects
    from .common import fkey, returns_of, stmts_of, walk_body
    repo = rep.repo
    route = repo.mod('clastic.route')
    mp = route.func('BoundRoute.match_path')
    rets = [r for r in returns_of(mp) if not (isinstance(r.value, ast.Constant) and r.value.value is None)]

    def is_fresh_map(e):
        return (isinstance(e, ast.Dict) and not any(k is None for k in e.keys)) or isinstance(e, ast.DictComp) or \
            (isinstance(e, ast.Call) and norm(e.func) == 'dict')
    # the returned mapping: a display / comprehension / dict(...) built in this call, directly or through one local
    fresh, values = bool(rets), []

    def values_of_map(e):
        if isinstance(e, ast.DictComp):
            return [e.value]
        if isinstance(e, ast.Dict):
            return list(e.values)
        if e.args or e.keywords:
            a0 = e.args[0] if e.args else None
            if isinstance(a0, (ast.ListComp, ast.GeneratorExp)) and isinstance(a0.elt, ast.Tuple) and len(a0.elt.elts) == 2:
                return [a0.elt.elts[1]]
            return [e]      # dict(something): values of unknown provenance
        return []
    for r in rets:
        e = r.value
        if isinstance(e, ast.Name):
            # every binding of the local is a mapping built here (``ret = {}`` .. ``ret = {k: conv(..) for ..}``)
            init = [s for s in stmts_of(mp.node) if isinstance(s, ast.Assign) and norm(s.targets[0]) == e.id]
            if not init or not all(is_fresh_map(s.value) for s in init):
                fresh = False
                continue
            for s in init:
                values.extend(values_of_map(s.value))
            # what is stored under a key: the expression, or the one a single-assignment local stands for
            values.extend(chain._deref(mp, s.value) for s in stmts_of(mp.node) if isinstance(s, ast.Assign) and
                          isinstance(s.targets[0], ast.Subscript) and norm(s.targets[0].value) == e.id)
            continue
        if not is_fresh_map(e):
            fresh = False
            continue
        values.extend(values_of_map(e))
    rep.check(rule, fkey(mp, 'fresh mapping'), fresh, 'match_path returns a mapping created in this call' if fresh else
              'match_path does not return a mapping freshly created in this call', route, mp.node)
    ok = bool(values) and all(isinstance(v, ast.Call) and not (isinstance(v.func, ast.Name) and v.func.id == 'dict') for v in values)
    rep.check(rule, fkey(mp, 'values are conversions'), ok, 'every URL parameter value is the result of a converter call made in this call' if ok else
              'a URL parameter value is not a converter call result', route, values[0] if values else mp.node)
    shared = [e for e in effects.effects_in(mp.node) if e.root in ('self', 'cls') or e.root in mp.mod.assigns]
    reads_cache = [n for n in walk_body(mp.node) if isinstance(n, ast.Attribute) and isinstance(n.value, ast.Name) and n.value.id == 'self'
                   and n.attr not in ('regex', 'converters')]
    rep.check(rule, fkey(mp, 'no memo on the route'), not shared and not reads_cache,
              'match_path neither writes the route object nor reads anything but its regex and converters' if not shared and not reads_cache else
              'match_path keeps per-path state on the shared route object (%s): converted values (e.g. the list of a multi-segment binding) are '
              'shared between requests' % ([short(e.node) for e in shared] or [norm(n) for n in reads_cache]), route,
              (shared[0].node if shared else (reads_cache[0] if reads_cache else mp.node)))


def run(rep):
    rep.decide('R02.a keyword identity; R02.b declared-only; R02.c layer precedence and built-in bindings; '
               'R02.d identity not copies; R02.e phase isolation')
    rep.decline('the value a user middleware hands to next(); URL conversion values')
    rep.assume('Python keyword-argument passing binds name to same-named parameter')
    rep.rule('R02.a', 'generated calls are keyword-only NAME=NAME from one element')
    rep.rule('R02.b', 'only declared, in-scope names are passed')
    rep.rule('R02.c', 'dict-merge layer order (later wins) is a linear extension of the required precedence')
    rep.rule('R02.d', 'layer sources are plain names/attributes/literals: values are moved, not copied')
    rep.rule('R02.e', 'availability sets per phase (truth tables)')
    g = rep.guard
    g(chain.check_generated_level, rep, 'R02.a', 'R02.b', 'R02.a', 'R02.a', 'R02.b')
    g(chain.check_request_core, rep, 'R02.a', rule_kw='R02.a')
    g(chain.check_inject, rep, 'R02.b', 'R02.c')
    g(chain.check_accessors, rep, 'R02.b', kinds=False)
    g(chain.check_merge_fresh, rep, 'R02.b')
    g(chain.check_request_layers, rep, 'R02.c', 'R02.d')
    g(chain.check_url_source_agreement, rep, 'R02.c')
    g(chain.check_phase_sets, rep, 'R02.e', rule_pair='R02.e', rule_core_env='R02.e')
    g(chain.check_conflict_namespaces, rep, 'R02.e')
    g(chain.check_make_chain, rep, 'R02.e', 'R02.e')
    g(check_url_params_fresh, rep, 'R02.d')
    if not rep.gaps:
        rep.floor('R02.a', 8)
        rep.floor('R02.b', 8)
        rep.floor('R02.c', 7)
        rep.floor('R02.d', 4)
        rep.floor('R02.e', 10)
