"""C11 -- Binding is non-destructive, applications are isolated, add() is atomic.

Decided:
  R11.a  binding writes only to the new object: in BoundRoute.__init__ every store / mutating call targets
         ``self`` or a fresh local; the parameters ``route`` and ``app`` (and aliases of them) are never
         written through; mutable containers taken from them are copied before being kept; attributes that
         remain aliases (methods) are not mutated by anything in the package after construction; the same
         for Route.__init__ (copies caller-supplied containers), SubApplication.bind_all (fresh list, never
         writes self.app) and merge_middlewares (only mutates its own fresh list); the same through the analysed
         functions these call (``Provenance``): whatever a callee updates in place -- one of its parameters, through
         local aliases, ``p or {}``, or by handing it on -- is at that call an object the binding allocated, and a
         container a callee hands back is judged as what its returns hand out, its parameters read as the arguments
         of the call (a helper that merges *into* the mapping it is handed writes the application's resources into
         the route, whoever used to own the copy); and at request time: no heap
         effect reachable from Application.__call__ has a Route / BoundRoute / Application (or a local alias of one
         of their containers) as receiver, and an object instantiated per request (DispatchState, the exception
         family) that updates one of its fields in place only lets containers of its own flow into that field --
         a value handed in is followed to what the callers pass (route.methods is the *same* set in the unbound
         Route, in every BoundRoute made from it and in every application those were embedded into);
  R11.b  add() is atomic: every call that can fail at bind time (cast_to_route_factory, bind, bind_all)
         strictly precedes the first mutation of self.routes on every path; after the first insertion only
         insertions and index arithmetic follow;
  R11.c  who may write a routing table (= R06.a; private helpers a permitted writer was split into count as that
         writer), and the requested index is honoured: the first new route goes to ``index`` when one was given (0
         included) and to len(self.routes) otherwise, whichever way the position is carried; the block keeps its own
         order: front to back with a position advancing by one per route, or back to front at a fixed position that
         exists in the table (``list.insert`` appends for a position past the end, which reverses the block);
  R11.d  process-wide state inventory: every write to a module-level object anywhere in the package is in
         the frozen table (request-id counter advanced in _dispatch_wsgi; converter tables written by
         _register_converter, called at import only; ERROR_CODE_MAP/__all__ by _module_init, import only;
         linecache.cache in compile_code keyed by content hash);
  R11.e  re-binding composes: what bindings accumulate on a bound route -- pattern, chain of applications, resources,
         middlewares, slash mode, error renderer -- is computed in BoundRoute.__init__ from the route *being re-bound*
         (``route.X``) and the binding application, never from the original unbound route (which only supplies what
         no binding changes: endpoint, render argument, methods): an application that was itself built by embedding
         is served under a further prefix exactly as it serves on its own, however often it is embedded; reads made
         by analysed functions the constructor hands the route / application to count as reads of the constructor;
         where such an attribute is *chosen* (the application's value or the route's: slash mode, error renderer) the
         choice on the re-bind path is a function of this binding's own arguments -- it does not vary with a test of what
         the previous binding left on ``route`` (constant where every bound route carries a value), and the application's
         value can be chosen at all when ``route`` is a bound route;
  R11.f  what binding declares, serving offers: every attribute of the bound route from which BoundRoute.__init__ computes
         the names it declares as provided to the bind-time dependency checks (make_middleware_chain's preprovided,
         check_render_error's resources) is offered at request time -- produced by match_path (path parameters) or merged
         into the injectables execute / execute_error hand to inject -- and the two request-time entry points merge the
         same stored mappings: a bound route is self-contained, it does not rely on the dispatching application to
         repeat what it was bound with (resources on a Route, an application embedded under one without its resources).
Declined: behavioural equality of responses before/after (needs running); state inside third-party objects.

Values are judged where they flow (``effects.Flow``: reaching definitions, path conditions), not by the name of the local
that carries them: "self.resources is a copy" looks at every value that can reach the attribute, "writes only fresh
objects" at the definitions reaching the write, and helpers a function was split into are followed (inlined by the
front-end, or accepted as part of the function when nothing else refers to them).
"""
import ast

from ..core import AnalysisError, norm, short
from .. import effects
from ..effects import Flow, slot_key
from .common import (cfg_of, fkey, conds, has_cond, stmts_of, walk_body, call_tail, call_name, returns_of, stmt_of)
from .c06 import routes_writers

APP, ROUTE, CORE, SINTER = 'clastic.application', 'clastic.route', 'clastic.middleware.core', 'clastic.sinter'

# (module, function qualname or '<module>', global object) -> reason
GLOBAL_WRITERS = {
    ('clastic.route', '_register_converter', 'TYPE_CONV_MAP'): 'converter table, filled at import',
    ('clastic.route', '_register_converter', 'TYPE_PATT_MAP'): 'converter table, filled at import',
    ('clastic.errors', '_module_init', 'ERROR_CODE_MAP'): 'status-code table, built at import',
    ('clastic.errors', '_module_init', '__all__'): 'export list, built at import',
    ('clastic.sinter', 'compile_code', 'linecache'): 'source cache for tracebacks, keyed by content hash (idempotent)',
    ('clastic.server', 'restart_with_reloader.consume_lines', 'to_mon'): 'development reloader (not part of serving an Application)',
}
IMPORT_ONLY = {('clastic.route', '_register_converter'), ('clastic.errors', '_module_init')}
COPY_CALLS = {'dict', 'list', 'tuple', 'set', 'frozenset', 'sorted', 'copy', 'deepcopy'}
ALIASED_MUTABLE_ATTRS = {'methods', 'bound_apps', 'resources', 'middlewares', 'converters', 'path_args', 'endpoint_args'}


def fresh_container(fl, fi, leaf, repo=None, _depth=0):
    """The value is a container allocated here: constructor / copy call, display, comprehension, concatenation, or the
    fresh result of an analysed helper.  A value handed out by an analysed helper that could not be followed is an
    analysis gap, not a judgement."""
    v = leaf.value
    if leaf.opaque and isinstance(leaf.stmt, ast.AugAssign) and slot_key(leaf.stmt.target) is not None and _depth < 3:
        # x += more: in place on whatever x held before -- still this activation's object if that was
        before = fl.leaves(leaf.stmt.target, leaf.stmt)
        return bool(before) and all(b.stmt is not leaf.stmt and fresh_container(fl, fi, b, repo, _depth + 1) for b in before)
    if leaf.opaque or (isinstance(v, ast.Call) and repo is not None and effects.callee_of(repo, fi, v) is not None):
        call = v if isinstance(v, ast.Call) else None
        callee = effects.callee_of(repo, fi, call) if (call is not None and repo is not None) else None
        if callee is not None:
            if not leaf.opaque and effects.returns_fresh(repo, callee):
                return True
            raise AnalysisError('%s: value computed by %s could not be followed' % (fi.qualname, callee.qualname))
        return False
    if isinstance(v, ast.Call) and (call_name(v) in COPY_CALLS or (call_tail(v) in ('copy', 'deepcopy') and not v.args or
                                                                  call_name(v) in ('copy.copy', 'copy.deepcopy'))):
        return True
    return isinstance(v, (ast.BinOp, ast.Dict, ast.List, ast.Set, ast.ListComp, ast.DictComp, ast.SetComp))


class Origin(object):
    """Where an object comes from, seen from one activation: kind 'fresh' (allocated in this activation, or immutable),
    'param' (the object parameter ``name`` held on entry -- ``via``: something reached from it through attributes /
    items / elements), 'global' (a module-level object ``name``), 'library' (handed out by a call of an imported / builtin
    callable: state inside third-party objects is declined) or 'unknown' (``why``)."""
    __slots__ = ('kind', 'name', 'via', 'node', 'why')

    def __init__(self, kind, node, name=None, via=False, why=''):
        self.kind, self.node, self.name, self.via, self.why = kind, node, name, via, why

    def text(self):
        if self.kind == 'param':
            return 'an object reached from parameter %s' % self.name if self.via else 'the object passed as parameter %s' % self.name
        if self.kind == 'global':
            return 'module-level object %s' % self.name
        return short(self.node, 40)

    def __repr__(self):
        return '<Origin %s %s%s %s>' % (self.kind, self.name or '', '~' if self.via else '', self.why or short(self.node, 30))


FRESH_DISPLAYS = (ast.BinOp, ast.Dict, ast.List, ast.Set, ast.Tuple, ast.ListComp, ast.DictComp, ast.SetComp, ast.GeneratorExp, ast.JoinedStr,
                  ast.Compare, ast.Lambda, ast.UnaryOp)
ELEMENT_TAILS = {'get', 'pop', 'setdefault', 'popitem', 'popleft', '__getitem__'}


class Provenance(object):
    """Which pre-existing objects a value can denote, through the analysed helpers a function calls.

    ``origins(fi, expr, at)``: every object ``expr`` can denote at statement ``at`` of ``fi`` as an ``Origin`` -- reaching
    definitions (``Flow.leaves``), both operands of ``a or b``, attribute / item / getattr chains (a part of the base),
    the elements a loop / an unpacking binds (a part of the iterated value), and the result of a call of an analysed
    function: what its ``return`` statements hand out, with its parameters replaced by the arguments of this call.
    ``mutated_params(callee)``: the parameters whose object (or something reached from it) the callee may update in place
    -- stores, deletes, mutating calls, in-place augmented assignment on a local that can hold it, and handing it on to
    a further analysed function that does."""

    def __init__(self, repo, max_depth=4):
        self.repo = repo
        self.max_depth = max_depth
        self._flows = {}
        self._mut = {}

    def flow(self, fi):
        if fi.key not in self._flows:
            self._flows[fi.key] = Flow(fi)
        return self._flows[fi.key]

    def callee(self, fi, call):
        """The analysed function a call names: module-level function, method through self / cls, ``module.function``."""
        c = effects.callee_of(self.repo, fi, call)
        f = call.func if isinstance(call, ast.Call) else None
        if c is None and isinstance(f, ast.Attribute) and isinstance(f.value, ast.Name) and f.value.id not in fi.params():
            try:
                kind, m, _ = self.repo.resolve(fi.mod, f.value.id)
                if kind == 'module' and m is not None and not m.external:
                    k2, m2, obj = self.repo.resolve(m, f.attr)
                    if k2 == 'func' and m2 is not None and not m2.external:
                        c = obj
            except Exception:
                return None
        return c

    # -- arguments ------------------------------------------------------------------------------------------------------
    def bind_args(self, callee, call):
        """{parameter: argument expression} of a call of ``callee`` (``self`` of a method call: the receiver); None when
        the correspondence cannot be read (star arguments)."""
        a = callee.node.args
        pos = [x.arg for x in a.posonlyargs + a.args]
        if any(isinstance(x, ast.Starred) for x in call.args):
            return None
        out = {}
        static = any(isinstance(d, ast.Name) and d.id == 'staticmethod' for d in callee.node.decorator_list)
        if callee.cls is not None and not static and isinstance(call.func, ast.Attribute) and pos:       # receiver.method(...)
            out[pos[0]] = call.func.value
            pos = pos[1:]
        for p, x in zip(pos, call.args):
            out[p] = x
        if len(call.args) > len(pos) and a.vararg is None:
            return None
        for k in call.keywords:
            if k.arg is None:
                if a.kwarg is None:
                    return None
                continue
            out[k.arg] = k.value
        return out

    def default_of(self, callee, name):
        a = callee.node.args
        pos = a.posonlyargs + a.args
        d = dict(zip([x.arg for x in pos[len(pos) - len(a.defaults):]], a.defaults))
        d.update((x.arg, v) for x, v in zip(a.kwonlyargs, a.kw_defaults) if v is not None)
        return d.get(name)

    # -- origins ----------------------------------------------------------------------------------------------------------
    def origins(self, fi, expr, at, depth=0, seen=frozenset(), via=False):
        if depth > self.max_depth:
            return [Origin('unknown', expr, why='value followed through more than %d functions' % self.max_depth)]
        fl = self.flow(fi)
        out = []
        for lf in fl.leaves(expr, at):
            st = lf.stmt if isinstance(lf.stmt, ast.AST) else at
            k = ('leaf', id(lf.value), id(lf.stmt))
            if k in seen:
                continue            # x = x.next in a loop: already being followed
            for o in self._leaf(fi, fl, lf, st, depth, seen | {k}):
                if via and o.kind == 'param':
                    o.via = True
                out.append(o)
        return out

    def _part_of(self, fi, base, st, depth, seen):
        out = []
        for o in self.origins(fi, base, st, depth, seen, via=True):
            out.append(o)
        return out

    def _leaf(self, fi, fl, lf, st, depth, seen):
        v = lf.value
        a = fi.node.args
        if lf.opaque:
            s = lf.stmt
            if isinstance(s, ast.AugAssign) and slot_key(s.target) is not None and (id(s), 'aug') not in seen:
                before = [b for b in fl.leaves(s.target, s) if b.stmt is not s]
                out = []
                for b in before:
                    out.extend(self._leaf(fi, fl, b, b.stmt if isinstance(b.stmt, ast.AST) else st, depth, seen | {(id(s), 'aug')}))
                if out:
                    return out
            if isinstance(s, (ast.For, ast.AsyncFor)) and (id(s), 'iter') not in seen:
                return self.origins(fi, s.iter, s, depth, seen | {(id(s), 'iter')}, via=True)       # an element of what is iterated
            if isinstance(s, ast.Assign) and v is s.value and (id(s), 'unpack') not in seen:
                return self.origins(fi, v, s, depth, seen | {(id(s), 'unpack')}, via=True)           # an element of what is unpacked
            return [Origin('unknown', v, why='%s is bound by %s' % (short(v, 30), short(s, 40) if isinstance(s, ast.AST) else 'an unknown definition'))]
        if isinstance(v, ast.Constant):
            return [Origin('fresh', v)]
        if isinstance(v, ast.BoolOp):
            out = []
            for o in v.values:
                out.extend(self.origins(fi, o, st, depth, seen))
            return out
        if isinstance(v, ast.NamedExpr):
            return self.origins(fi, v.value, st, depth, seen)
        if isinstance(v, ast.Starred):
            return self.origins(fi, v.value, st, depth, seen, via=True)
        if isinstance(v, ast.Name):
            if a.kwarg is not None and a.kwarg.arg == v.id or a.vararg is not None and a.vararg.arg == v.id:
                return [Origin('fresh', v)]             # *args / **kwargs are built per call
            if v.id in fi.params():
                return [Origin('param', v, v.id)]
            kind = self.repo.resolve(fi.mod, v.id)[0]
            if kind in ('class', 'func', 'external', 'module'):
                return [Origin('fresh', v)]             # not a container of a route / an application
            if v.id in fi.mod.assigns or v.id in fi.mod.imports:
                return [Origin('global', v, v.id)]
            return [Origin('unknown', v, why='free name %s' % v.id)]
        if isinstance(v, (ast.Attribute, ast.Subscript)):
            return self._part_of(fi, v.value, st, depth, seen)
        if isinstance(v, ast.Call):
            f = v.func
            if call_name(v) == 'getattr' and len(v.args) in (2, 3) and not v.keywords:
                out = self._part_of(fi, v.args[0], st, depth, seen)
                if len(v.args) == 3:
                    out = out + self.origins(fi, v.args[2], st, depth, seen)
                return out
            callee = self.callee(fi, v)
            if callee is not None:
                return self._result_of(fi, v, callee, st, depth, seen)
            if isinstance(f, ast.Name):
                if f.id in COPY_CALLS or f.id in effects.FRESH_CALLS or f.id in effects.IMMUTABLE_CALLS or \
                        self.repo.resolve(fi.mod, f.id)[0] == 'class':
                    return [Origin('fresh', v)]
                return [Origin('library' if self._library(fi, fl, f) else 'unknown', v, why='result of %s' % short(v, 40))]
            if call_name(v) in ('copy.copy', 'copy.deepcopy'):
                return [Origin('fresh', v)]
            if isinstance(f, ast.Attribute):
                if f.attr in COPYING_TAILS or f.attr in effects.COPY_METHODS or f.attr in effects.IMMUTABLE_METHODS:
                    return [Origin('fresh', v)]
                if f.attr in ELEMENT_TAILS:
                    out = self._part_of(fi, f.value, st, depth, seen)
                    for x in v.args[1:]:
                        out = out + self.origins(fi, x, st, depth, seen)     # the default handed back / stored
                    return out
            return [Origin('library' if self._library(fi, fl, f) else 'unknown', v, why='result of %s' % short(v, 40))]
        if isinstance(v, FRESH_DISPLAYS):
            return [Origin('fresh', v)]
        return [Origin('unknown', v, why='value %s' % short(v, 40))]

    def _library(self, fi, fl, f):
        """The callable is named through an import (a function, class or module that is not part of the analysed package,
        or a builtin): what it hands out is that library's business ('library' -- not a parameter of ours, not provably a
        new object either)."""
        base = f
        while isinstance(base, ast.Attribute):
            base = base.value
        if not isinstance(base, ast.Name) or base.id in fl.defs or base.id in fi.params() or base.id in ('self', 'cls'):
            return False
        kind, m, _ = self.repo.resolve(fi.mod, base.id)
        if kind == 'external' or (kind == 'module' and (m is None or m.external)):
            return True
        if kind in ('func', 'class'):
            return m is not None and m.external
        import builtins
        return kind == 'unknown' and base.id not in fi.mod.assigns and hasattr(builtins, base.id)

    def _result_of(self, fi, call, callee, st, depth, seen):
        """What an analysed function hands out, in terms of the caller's values."""
        if effects.returns_fresh(self.repo, callee):
            return [Origin('fresh', call)]
        if (callee.key, 'ret') in seen:
            return []
        rets = [r for r in returns_of(callee) if r.value is not None]
        if not rets or any(isinstance(n, (ast.Yield, ast.YieldFrom)) for n in walk_body(callee.node)) or isinstance(callee.node, ast.Lambda):
            return [Origin('unknown', call, why='result of %s could not be followed' % callee.qualname)]
        bound = self.bind_args(callee, call)
        out = []
        for r in rets:
            for o in self.origins(callee, r.value, r, depth + 1, seen | {(callee.key, 'ret')}):
                out.extend(self._to_caller(fi, call, callee, bound, o, st, depth, seen))
        return out

    def _to_caller(self, fi, call, callee, bound, o, st, depth, seen):
        """An origin established inside ``callee``, restated for the activation that made ``call``."""
        if o.kind in ('fresh', 'global', 'library'):
            return [o]
        if o.kind == 'unknown':
            return [Origin('unknown', call, why='%s: %s' % (callee.qualname, o.why))]
        if bound is None:
            return [Origin('unknown', call, why='arguments of %s could not be matched with its parameters' % short(call, 40))]
        if o.name not in bound:
            d = self.default_of(callee, o.name)
            if d is None:
                return [Origin('unknown', call, why='parameter %s of %s is not passed' % (o.name, callee.qualname))]
            if isinstance(d, ast.Constant):
                return [Origin('fresh', d)]
            # a default is evaluated once: the same object in every call
            return [Origin('global', d, 'default %s of %s(%s)' % (short(d, 20), callee.qualname, o.name))]
        return self.origins(fi, bound[o.name], st, depth, seen, via=o.via)

    # -- what a function updates in place ---------------------------------------------------------------------------------
    def mutated_params(self, callee, depth=0):
        """{parameter: (node of the first update, text)}; key None: an update whose receiver could not be established."""
        if callee.key in self._mut:
            return self._mut[callee.key]
        self._mut[callee.key] = {}          # recursion guard
        out = {}
        if isinstance(callee.node, ast.Lambda) or not hasattr(callee, 'params'):
            self._mut[callee.key] = out
            return out
        sites = []
        for e in effects.effects_in(callee.node):
            if e.kind == 'mutcall' or e.method in ('setattr', 'delattr'):
                obj = e.target
            elif isinstance(e.target, (ast.Attribute, ast.Subscript)):
                obj = e.target.value
            else:
                continue
            sites.append((obj, e.node))
        for e in effects.aug_name_effects(callee.node):
            if effects.aug_in_place(e.node) and not effects.aug_rebinds(e.node) and not effects.known_immutable(callee, e.node.value):
                sites.append((e.target, e.node))
        for obj, node in sites:
            st = stmt_of(callee.mod, node)
            if isinstance(node, ast.AugAssign) and isinstance(obj, ast.Name):
                obj = ast.copy_location(ast.Name(id=obj.id, ctx=ast.Load()), obj)
            for o in self.origins(callee, obj, st, depth):
                if o.kind == 'param':
                    out.setdefault(o.name, (node, short(node, 50)))
                elif o.kind == 'unknown':
                    out.setdefault(None, (node, '%s (%s)' % (short(node, 50), o.why)))
        if depth < self.max_depth:
            for c in walk_body(callee.node):
                if not isinstance(c, ast.Call):
                    continue
                sub = self.callee(callee, c)
                if sub is None or sub is callee:
                    continue
                ms = self.mutated_params(sub, depth + 1)
                if not ms:
                    continue
                bound = self.bind_args(sub, c)
                st = stmt_of(callee.mod, c)
                for p, (node, text) in ms.items():
                    if p is None:
                        continue
                    if bound is None:
                        out.setdefault(None, (c, '%s (arguments not matched)' % short(c, 50)))
                        continue
                    if p not in bound:
                        continue
                    for o in self.origins(callee, bound[p], st, depth):
                        if o.kind == 'param':
                            out.setdefault(o.name, (c, '%s -> %s' % (short(c, 40), text)))
        self._mut[callee.key] = out
        return out


class HelperClosure(object):
    """``closure(roots)``: the root functions plus the private functions / methods of the package that are referred to
    (by name: call, attribute load, string) only from inside functions already in the set -- the helpers a function was
    split into.  A helper nothing refers to any more (the front-end dissolved its calls into the callers) is dead code
    and counts as part of whatever root is asked about."""

    def __init__(self, repo):
        self.repo = repo
        self.refs = {}
        self.funcs = []
        for m in repo.all_internal_modules():
            self.funcs.extend(m.functions.values())
            for n in ast.walk(m.tree):
                name = None
                if isinstance(n, ast.Name) and isinstance(n.ctx, ast.Load):
                    name = n.id
                elif isinstance(n, ast.Attribute) and isinstance(n.ctx, ast.Load):
                    name = n.attr
                elif isinstance(n, ast.Constant) and isinstance(n.value, str) and n.value.isidentifier():
                    name = n.value
                if name is None or not name.startswith('_') or name.startswith('__'):
                    continue
                keys = []
                cur = m.enclosing_function(n)
                while cur is not None:
                    f2 = m.func_of_node(cur)
                    if f2 is not None:
                        keys.append(f2.key)
                    cur = m.enclosing_function(cur)
                self.refs.setdefault(name, []).append(keys or ['%s::<module>' % m.name])

    def closure(self, roots, same_module=True):
        acc = set(roots)
        mods = set(k.split('::')[0] for k in roots)
        changed = True
        while changed:
            changed = False
            for fi in self.funcs:
                if fi.key in acc or not fi.name.startswith('_') or fi.name.startswith('__'):
                    continue
                if same_module and fi.mod.name not in mods:
                    continue
                if all(any(k in acc for k in keys) for keys in self.refs.get(fi.name, [])):
                    acc.add(fi.key)
                    changed = True
        return acc

    def referred_from(self, fi, key):
        return any(key in keys for keys in self.refs.get(fi.name, []))


COPYING_TAILS = {'copy', 'union', 'intersection', 'difference', 'symmetric_difference', 'keys', 'values', 'items'}
FAMILY = ((ROUTE, 'Route'), (ROUTE, 'BoundRoute'), (APP, 'Application'), (APP, 'SubApplication'))


class Verdict(object):
    """Who owns an object a value can denote: kind 'fresh' (allocated in this activation / immutable), 'request-local'
    (belongs to the request being served), 'owned' (part of something that outlives the request: ``owner`` is its class
    when known, 'module' for process-wide objects) or 'unknown' (could not be established)."""
    __slots__ = ('kind', 'why', 'owner', 'fi', 'node')

    def __init__(self, kind, why, fi, node, owner=None):
        self.kind, self.why, self.fi, self.node, self.owner = kind, why, fi, node, owner

    def __repr__(self):
        return '<%s %s>' % (self.kind, self.why)


class Ownership(object):
    """Ownership of values on the request path, on top of the non-interference view (``noninterf.RequestPath``: the
    functions reachable from Application.__call__, the classes instantiated per request, ``classify`` /
    ``shared_aliases`` / ``param_role`` and the call graph).  Adds what C11 needs: the *owner* of a long-lived receiver
    (a Route / BoundRoute / Application, by class of ``self``, by receiver role, through aliases), values followed
    through named temporaries, helper results and -- for parameters -- to what the callers hand over."""

    def __init__(self, repo):
        from .noninterf import RequestPath
        self.repo = repo
        self.rp = RequestPath(repo)
        self.family = []
        for modname, cname in FAMILY:
            m = repo.try_mod(modname)
            if m is not None and cname in m.classes:
                self.family.append(m.classes[cname])
        if len(self.family) != len(FAMILY):
            raise AnalysisError('Route / BoundRoute / Application / SubApplication classes not found')
        self._flows = {}

    # -- small helpers ---------------------------------------------------------------------------------------------
    def flow(self, fi):
        if fi.key not in self._flows:
            self._flows[fi.key] = Flow(fi)
        return self._flows[fi.key]

    def in_family(self, ci):
        return ci is not None and not isinstance(ci, str) and any(ci is f or f in self.repo.mro(ci) for f in self.family)

    def long_role(self, names):
        """(name, class) of the first name whose receiver role is a class that outlives a request."""
        for nm in names:
            for rc in self.rp.cg._role_classes(nm):
                if not self.rp.is_per_request_class(rc):
                    return nm, rc
        return None

    def per_request_classes(self):
        rp = self.rp
        return rp.per_request + [c for c in rp.cg.classes if c not in rp.per_request and any(pr in self.repo.mro(c) for pr in rp.per_request)]

    def top_of(self, ci):
        for pr in self.rp.per_request:
            if ci is pr or pr in self.repo.mro(ci):
                return pr
        return ci

    def recv_class(self, fi, fl, name, st):
        """Per-request class of the receiver ``name`` (self of such a class, a receiver role, a local built here)."""
        rp = self.rp
        if name in ('self', 'cls'):
            ci = rp.cg.enclosing_class(fi)
            return ci if rp.is_per_request_class(ci) else None
        roles = rp.cg._role_classes(name)
        if roles:
            return roles[0] if all(rp.is_per_request_class(c) for c in roles) else None
        d = fl.single_def(name, st) if st is not None else None
        if d is not None and isinstance(d.value, ast.Call) and isinstance(d.value.func, ast.Name):
            kind, m, obj = self.repo.resolve(fi.mod, d.value.func.id)
            if kind == 'class' and rp.is_per_request_class(obj):
                return obj
        return None

    # -- provenance of a value -------------------------------------------------------------------------------------
    def judge(self, fi, expr, at, depth=0, seen=frozenset()):
        """[Verdict] for every object ``expr`` (evaluated at statement ``at`` of ``fi``) can denote."""
        if depth > 5:
            return [Verdict('unknown', 'value followed through more than 5 functions', fi, expr)]
        if isinstance(fi.node, ast.Lambda) or not hasattr(fi, 'params'):
            return [Verdict('unknown', 'value computed in a lambda', fi, expr)]
        fl = self.flow(fi)
        out = []
        for lf in fl.leaves(expr, at):
            st = lf.stmt if isinstance(lf.stmt, ast.AST) else (at if isinstance(at, ast.AST) else None)
            out.extend(self._leaf(fi, fl, lf, st, depth, seen))
        return out

    def _returns(self, callee, depth, seen, via):
        rets = [r for r in returns_of(callee) if r.value is not None]
        if not rets or any(isinstance(n, (ast.Yield, ast.YieldFrom)) for n in walk_body(callee.node)):
            return [Verdict('unknown', 'result of %s could not be followed' % callee.qualname, callee, via)]
        out = []
        for r in rets:
            out.extend(self.judge(callee, r.value, r, depth + 1, seen))
        return out

    def _leaf(self, fi, fl, lf, st, depth, seen):
        v = lf.value
        params = set(fi.params())
        a = fi.node.args
        if lf.opaque and isinstance(lf.stmt, ast.AugAssign) and slot_key(lf.stmt.target) is not None and (id(lf.stmt), 'aug') not in seen:
            # x op= more: still the object x held before (updated in place), or a new immutable
            before = [b for b in fl.leaves(lf.stmt.target, lf.stmt) if b.stmt is not lf.stmt]
            out = []
            for b in before:
                out.extend(self._leaf(fi, fl, b, b.stmt if isinstance(b.stmt, ast.AST) else st, depth, seen | {(id(lf.stmt), 'aug')}))
            if out:
                return out
        if lf.opaque:
            return [self._classify(fi, v, st, depth, seen)]
        if isinstance(v, ast.Constant):
            return [Verdict('fresh', 'immutable constant %s' % short(v, 20), fi, v)]
        if isinstance(v, ast.BoolOp):
            out = []
            for o in v.values:
                out.extend(self.judge(fi, o, st, depth, seen))
            return out
        if isinstance(v, ast.Name) and (v.id in params or (a.vararg and a.vararg.arg == v.id) or (a.kwarg and a.kwarg.arg == v.id)) \
                and v.id not in ('self', 'cls'):
            return self._param(fi, v.id, v, depth, seen)
        callee = None
        try:
            if fresh_container(fl, fi, lf, self.repo):
                return [Verdict('fresh', 'allocated here: %s' % short(v, 40), fi, v)]
        except AnalysisError:
            callee = effects.callee_of(self.repo, fi, v) if isinstance(v, ast.Call) else None
        if isinstance(v, ast.Call):
            f = v.func
            if isinstance(f, ast.Attribute) and f.attr in COPYING_TAILS:
                return [Verdict('fresh', 'a new container: %s' % short(v, 40), fi, v)]
            targets = [callee] if callee is not None else []
            kind = 'call'
            if not targets:
                tg, kind = self.rp.cg._resolve_expr(fi, f)
                targets = [t for t in tg if hasattr(t, 'params') and not t.mod.external]
            if kind == 'new':
                return [Verdict('fresh', 'object constructed here: %s' % short(v, 40), fi, v)]
            if targets and kind in ('call', 'self', 'role', 'classattr', 'super'):
                out = []
                for t in targets:
                    if (t.key, 'ret') in seen:
                        continue
                    out.extend(self._returns(t, depth, seen | {(t.key, 'ret')}, v))
                return out
            base = f
            while isinstance(base, (ast.Attribute, ast.Subscript)):
                base = base.value
            if isinstance(f, ast.Name) or (isinstance(base, ast.Name) and self.repo.resolve(fi.mod, base.id)[0] in ('module', 'external')
                                           and base.id not in params and base.id not in fl.defs):
                return [Verdict('request-local', 'value produced by a call in this activation: %s' % short(v, 40), fi, v)]
            # a method of some object hands out (part of) that object unless known otherwise: judged as the receiver
        return [self._classify(fi, v, st, depth, seen)]

    def _param(self, fi, name, node, depth, seen):
        """A parameter is what the callers hand over."""
        rp = self.rp
        a = fi.node.args
        if a.kwarg and a.kwarg.arg == name:
            return [Verdict('fresh', '**%s is built per call' % name, fi, node)]
        if a.vararg and a.vararg.arg == name:
            return [Verdict('fresh', '*%s is built per call' % name, fi, node)]
        lr = self.long_role([name])
        if lr:
            return [Verdict('owned', 'parameter %s is a %s' % (name, lr[1].name), fi, node, lr[1])]
        from .noninterf import REQUEST_LOCAL_NAMES
        if name in REQUEST_LOCAL_NAMES:
            return [Verdict('request-local', 'role of %s' % name, fi, node)]
        why = rp.param_role(fi, name)
        if why:
            return [Verdict('request-local', why, fi, node)]
        edges = rp.cg.callers(fi)
        if not edges:
            return [Verdict('unknown', 'parameter %s of %s: no call of the function found' % (name, fi.qualname), fi, node)]
        if any(e.kind == 'ref' for e in edges) or any(fi is f for f, _ in rp.dynamic_roots):
            return [Verdict('unknown', 'parameter %s of %s: the function is passed around as a value, its callers cannot be listed'
                            % (name, fi.qualname), fi, node)]
        pos = [x.arg for x in a.posonlyargs + a.args]
        defaults = dict(zip(pos[len(pos) - len(a.defaults):], a.defaults))
        defaults.update((k.arg, d) for k, d in zip(a.kwonlyargs, a.kw_defaults) if d is not None)
        static = any(isinstance(d, ast.Name) and d.id == 'staticmethod' for d in fi.node.decorator_list)
        out = []
        for e in edges:
            call, caller = e.node, e.caller
            if not isinstance(call, ast.Call) or any(isinstance(x, ast.Starred) for x in call.args) or any(k.arg is None for k in call.keywords) \
                    or not hasattr(caller, 'params') or isinstance(caller.node, ast.Lambda):
                out.append(Verdict('unknown', 'parameter %s of %s: argument of a call in %s could not be identified' %
                                   (name, fi.qualname, getattr(caller, 'qualname', '?')), fi, node))
                continue
            idx = pos.index(name) if name in pos and name not in [k.arg for k in a.kwonlyargs] else None
            if idx is not None and fi.cls is not None and not static and e.kind != 'classattr':
                idx -= 1                    # bound call / construction: self is implicit
            from ..astutil import argn
            arg = argn(call, name, idx if idx is None or idx >= 0 else None)
            if arg is None and name in defaults:
                dflt = defaults[name]
                if isinstance(dflt, ast.Constant):
                    out.append(Verdict('fresh', 'default %s' % short(dflt, 20), fi, dflt))
                else:       # evaluated once, at definition time: the same object in every call
                    out.append(Verdict('owned', 'default value %s of parameter %s is created once and shared by every call' %
                                       (short(dflt, 30), name), fi, dflt, 'module'))
                continue
            if arg is None:
                out.append(Verdict('unknown', 'parameter %s of %s: not passed by %s' % (name, fi.qualname, caller.qualname), fi, node))
                continue
            if (caller.key, id(arg)) in seen:
                continue
            sub = self.judge(caller, arg, stmt_of(caller.mod, call), depth + 1, seen | {(caller.key, id(arg))})
            for s in sub:
                if s.kind in ('owned', 'unknown'):
                    s.why = '%s -- handed to %s(%s) by %s as %s' % (s.why, fi.qualname, name, caller.qualname, short(arg, 40)) \
                        if 'handed to' not in s.why else s.why
                out.append(s)
        return out

    def _classify(self, fi, v, st, depth=0, seen=frozenset()):
        """Verdict for an attribute / item / call chain by its receiver: the request-path classification, refined by
        the *owner* when the receiver is long-lived."""
        rp = self.rp
        ch = effects.chain_of(v)
        if not ch:
            return Verdict('unknown', 'value %s is not rooted in a name' % short(v, 40), fi, v)
        root = ch[0]
        cls, why = rp.classify(fi, effects.Effect('mutcall', v, st if st is not None else v), effects.fresh_locals(self.repo, fi))
        lr = self.long_role([x for x in ch[1:] if x not in ('[]', '()')])
        if lr and cls != 'fresh':
            return Verdict('owned', '%s is reached through .%s, a %s' % (short(v, 40), lr[0], lr[1].name), fi, v, lr[1])
        if cls != 'shared':
            return Verdict(cls, why, fi, v)
        ci = rp.cg.enclosing_class(fi)
        if root in ('self', 'cls'):
            return Verdict('owned', '%s belongs to the %s it is a method of' % (short(v, 40), ci.name if ci else 'object'), fi, v, ci)
        al = rp.shared_aliases(fi)
        if root in al:
            base = al[root].split('.')[0].split('[')[0]
            owner = ci if base in ('self', 'cls') else (self.long_role([base]) or (None, None))[1]
            return Verdict('owned', 'local %s is an alias of %s (no copy)' % (root, al[root]), fi, v, owner)
        lr = self.long_role([root])
        if lr:
            return Verdict('owned', '%s is (part of) a %s' % (short(v, 40), lr[1].name), fi, v, lr[1])
        a = fi.node.args
        if root in fi.params() and len(ch) > 1:
            sub = self._param(fi, root, v, depth, seen)
            bad = [s for s in sub if s.kind in ('owned', 'unknown')]
            if bad:
                return Verdict(bad[0].kind, bad[0].why, fi, v, bad[0].owner)
            if sub:
                return Verdict('request-local', 'every caller passes an object of its own request for %s' % root, fi, v)
        if root in fi.mod.assigns or root in fi.mod.imports:
            return Verdict('owned', 'module-level object %s' % root, fi, v, 'module')
        return Verdict('unknown', why, fi, v)

    # -- fields of per-request objects -----------------------------------------------------------------------------
    def field_sites(self):
        """{(per-request class, field): {'mut': [(fi, node, text)], 'asg': [(fi, stmt, value or None)]}} over the methods
        of the classes instantiated per request and every function on the request path; receivers are ``self`` of such
        a class, receiver roles (dispatch_state, _error, ...) and locals built here, looked at through local aliases.
        In place: mutating calls, stores into an item / attribute of the field, ``del``, augmented assignment."""
        rp = self.rp
        funcs, seen_f = [], set()
        for ci in self.per_request_classes():
            for m in ci.methods.values():
                if m.key not in seen_f:
                    seen_f.add(m.key)
                    funcs.append(m)
        for fi in sorted(rp.reach, key=lambda f: f.key):
            if not fi.mod.external and fi.key not in seen_f and hasattr(fi, 'params') and not isinstance(fi.node, ast.Lambda):
                seen_f.add(fi.key)
                funcs.append(fi)
        sites = {}
        for fi in funcs:
            if isinstance(fi.node, ast.Lambda):
                continue
            fl = self.flow(fi)
            for e in effects.effects_in(fi.node) + effects.aug_name_effects(fi.node):
                st = stmt_of(fi.mod, e.node)
                tgt = e.target
                set_value = None
                if e.method == 'setattr' and isinstance(e.node, ast.Call) and len(e.node.args) == 3 and not e.node.keywords and \
                        isinstance(e.node.args[1], ast.Constant) and isinstance(e.node.args[1].value, str):
                    # setattr(obj, 'field', value) is obj.field = value
                    tgt = ast.copy_location(ast.Attribute(value=e.node.args[0], attr=e.node.args[1].value, ctx=ast.Store()), e.node)
                    set_value = e.node.args[2]
                try:
                    rt = fl.resolve(tgt, st) if st is not None else tgt
                except Exception:
                    rt = tgt
                ch = effects.chain_of(rt)
                if not ch:
                    continue
                ci = self.recv_class(fi, fl, ch[0], st)
                aug = isinstance(e.node, ast.AugAssign)
                if ci is None and ch[0] in fl.defs and st is not None and (e.kind in ('mutcall', 'delete') or len(ch) > 1 and e.kind == 'store'
                                                                             or aug and effects.aug_in_place(e.node)):
                    # a local that *may* stand for a field (either arm of a conditional): the update may hit the field
                    for lf in fl.leaves(ast.Name(id=ch[0], ctx=ast.Load()), st):
                        lch = effects.chain_of(lf.value) if not lf.opaque and isinstance(lf.value, (ast.Attribute, ast.Subscript)) else None
                        if lch and len(lch) >= 2 and lch[1] not in ('[]', '()') and lf.stmt is not e.node:
                            ci2 = self.recv_class(fi, fl, lch[0], lf.stmt if isinstance(lf.stmt, ast.AST) else st)
                            if ci2 is not None:
                                sites.setdefault((self.top_of(ci2), lch[1]), {'mut': [], 'asg': []})['mut'].append((fi, e.node, short(e.node, 60)))
                if ci is None or len(ch) < 2 or ch[1] in ('[]', '()'):
                    continue
                rec = sites.setdefault((self.top_of(ci), ch[1]), {'mut': [], 'asg': []})
                if e.kind in ('mutcall', 'delete') or len(ch) > 2 and e.kind != 'aug' or (aug and effects.aug_in_place(e.node)):
                    if e.kind == 'delete' and len(ch) == 2:
                        continue
                    rec['mut'].append((fi, e.node, short(e.node, 60)))
                elif e.kind == 'store' and len(ch) == 2 and not aug:
                    value = None
                    if isinstance(e.node, ast.Assign) and any(t is tgt for t in e.node.targets):
                        value = e.node.value
                    elif isinstance(e.node, ast.AnnAssign):
                        value = e.node.value
                    elif isinstance(e.node, ast.Assign):
                        for d in fl.defs.get(slot_key(tgt) or '', []):
                            if d.stmt is e.node:
                                value = fl.unpacked(d)[0]
                    elif set_value is not None:
                        value = set_value
                    elif isinstance(e.node, ast.Call):
                        continue            # setattr with a computed name / delattr: not a store into a known field
                    rec['asg'].append((fi, e.node, value))
        # whatever the shared view reports as a per-request field assignment is judged too
        for ci, m, field, st_, fresh in rp.field_freshness():
            rec = sites.setdefault((self.top_of(ci), field), {'mut': [], 'asg': []})
            if not rec['mut']:
                rec['mut'].append((m, st_, 'mutated in place by %s' % ci.name))
            if not any(s is st_ for _, s, _ in rec['asg']):
                rec['asg'].append((m, st_, st_.value))
        return sites


# attributes of a bound route that every binding builds on (the previous value is that of the route being re-bound)
ACCUMULATED_ATTRS = ('pattern', 'bound_apps', 'resources', 'middlewares', 'slash_mode', 'render_error')


def contributions(fl, fi, slot, stop=()):
    """Every expression that can influence what ``slot`` holds at the end of ``fi``, flow-insensitively: the values
    assigned to it (``x op= v``: v), the arguments of mutating calls on it, and -- transitively -- the same for every
    local / self-attribute those expressions mention (slots in ``stop`` are recorded but not looked into).
    -> (expressions, slots followed)"""
    seen, exprs, todo = set(), [], [slot]
    muts = [e for e in effects.effects_in(fi.node) if e.kind == 'mutcall']
    while todo:
        k = todo.pop()
        if k in seen:
            continue
        seen.add(k)
        if k in stop and k != slot:
            continue
        vals = []
        for d in fl.defs.get(k, []):
            if d.kind == 'aug':
                vals.append(d.stmt.value)
            elif d.value is not None and d.kind in ('assign', 'iter', 'with'):
                vals.append(d.value)
        for e in muts:
            if slot_key(e.target) == k:
                vals.extend(list(e.node.args) + [kw.value for kw in e.node.keywords])
        for v in vals:
            exprs.append(v)
            for n in ast.walk(v):
                if isinstance(n, (ast.Name, ast.Attribute)) and isinstance(getattr(n, 'ctx', None), ast.Load):
                    kk = slot_key(n)
                    if kk is not None and kk in fl.defs and kk not in seen:
                        todo.append(kk)
    return exprs, seen


class _ReadCtx(object):
    """One activation R11.e reads attribute loads in: the function, its value flow, and whose object each parameter is
    ('route': the route being re-bound, 'app': the binding application, 'original': the unbound route, 'other')."""

    def __init__(self, fi, fl, env):
        self.fi, self.fl, self.env = fi, fl, env


def _owner_kinds(r, ctx, depth=0):
    """Whose attribute is read: 'route' (the route being re-bound), 'app' (the binding application or something it
    owns), 'original' (the unbound route), 'other'."""
    fl = ctx.fl
    if depth > 6:
        return {'other'}
    if isinstance(r, ast.IfExp):
        return _owner_kinds(r.body, ctx, depth + 1) | _owner_kinds(r.orelse, ctx, depth + 1)
    if isinstance(r, ast.BoolOp):
        return set().union(*[_owner_kinds(v, ctx, depth + 1) for v in r.values])
    if isinstance(r, ast.Call) and call_name(r) == 'getattr' and len(r.args) in (2, 3) and isinstance(r.args[1], ast.Constant):
        if r.args[1].value == 'unbound_route':
            dflt = r.args[2] if len(r.args) == 3 else None
            # getattr(route, 'unbound_route', route): the route itself only when it *is* the unbound one
            extra = set()
            if dflt is not None and not isinstance(dflt, ast.Constant) and _owner_kinds(dflt, ctx, depth + 1) != {'route'}:
                extra = _owner_kinds(dflt, ctx, depth + 1)
            return {'original'} | extra
        r = r.args[0]
        return {'app'} if _owner_kinds(r, ctx, depth + 1) == {'app'} else {'other'}
    if isinstance(r, ast.Attribute):
        if r.attr == 'unbound_route':
            return {'original'}
        k = slot_key(r)
        if k is not None and k in fl.defs:
            out = set()
            for d in fl.defs[k]:
                out |= _owner_kinds(d.value, ctx, depth + 1) if d.kind == 'assign' and d.idx is None and d.value is not None else {'other'}
            return out
        inner = _owner_kinds(r.value, ctx, depth + 1)
        if 'original' in inner:
            return {'original'}
        return {'app'} if inner == {'app'} else {'other'}
    if isinstance(r, ast.Name):
        if r.id in ctx.env:
            return set(ctx.env[r.id])
        if r.id in fl.defs:
            out = set()
            for d in fl.defs[r.id]:
                out |= _owner_kinds(d.value, ctx, depth + 1) if d.kind == 'assign' and d.idx is None and d.value is not None else {'other'}
            return out
    return {'other'}


def _attr_reads(repo, ctx, exprs, attr, skip_slot=None, depth=0, seen=frozenset()):
    """-> (reads [(owner kinds, node)], calls of analysed functions that could not be followed): every load of ``.attr``
    (``x.attr`` / ``getattr(x, 'attr'[, d])``) among the expressions, and -- through calls of analysed functions -- among
    everything that can influence what those functions return, their parameters standing for this call's arguments."""
    reads, unfollowed = [], []
    prov = Provenance(repo)
    for e in exprs:
        for n in ast.walk(e):
            if isinstance(n, ast.Attribute) and n.attr == attr and isinstance(n.ctx, ast.Load) and (skip_slot is None or slot_key(n) != skip_slot):
                reads.append((_owner_kinds(n.value, ctx), n))
            elif isinstance(n, ast.Call) and call_name(n) == 'getattr' and len(n.args) in (2, 3) and \
                    isinstance(n.args[1], ast.Constant) and n.args[1].value == attr:
                reads.append((_owner_kinds(n.args[0], ctx), n))
            elif isinstance(n, ast.Call):
                callee = effects.callee_of(repo, ctx.fi, n)
                if callee is None or isinstance(callee.node, ast.Lambda):
                    continue
                bound = prov.bind_args(callee, n)
                rets = [r.value for r in returns_of(callee) if r.value is not None]
                if bound is None or depth >= 3 or callee.key in seen or not rets:
                    unfollowed.append(n)
                    continue
                env = dict((p_, _owner_kinds(x, ctx)) for p_, x in bound.items())
                cfl = Flow(callee)
                sub = _ReadCtx(callee, cfl, env)
                inner = list(rets)
                for rv in rets:
                    for m in ast.walk(rv):
                        if isinstance(m, (ast.Name, ast.Attribute)) and isinstance(getattr(m, 'ctx', None), ast.Load):
                            kk = slot_key(m)
                            if kk is not None:
                                inner.extend(contributions(cfl, callee, kk)[0])
                r2, u2 = _attr_reads(repo, sub, inner, attr, None, depth + 1, seen | {callee.key})
                reads.extend(r2)
                unfollowed.extend(u2)
    return reads, unfollowed


def check_rebinding_composes(rep, repo, route, bi):
    """R11.e: see the module docstring."""
    fl = Flow(bi)
    ps = bi.params()
    if len(ps) < 3:
        raise AnalysisError('BoundRoute.__init__: parameters (route, app) not found')
    rp, ap = ps[1], ps[2]
    ctx = _ReadCtx(bi, fl, {rp: {'route'}, ap: {'app'}})

    for attr in ACCUMULATED_ATTRS:
        slot = 'self.%s' % attr
        if not fl.defs.get(slot):
            raise AnalysisError('BoundRoute.__init__: self.%s is not assigned here' % attr)
        exprs, _ = contributions(fl, bi, slot)
        reads, unfollowed = _attr_reads(repo, ctx, exprs, attr, slot)
        original = [(r, n) for r, n in reads if 'original' in r]
        from_route = [(r, n) for r, n in reads if 'route' in r]
        key = fkey(bi, 'self.%s builds on route.%s' % (attr, attr))
        if original:
            n = original[0][1]
            rep.fail('R11.e', key, 'self.%s of a re-bound route is computed from %s, the %s of the original unbound route: what the bindings so far '
                     'accumulated (the prefixes / resources / middlewares / applications of the inner embeddings) is lost when an application '
                     'that was itself built by embedding is embedded again, so it no longer serves what it serves on its own' %
                     (attr, short(n, 50), attr), route, n)
            continue
        if not from_route:
            if unfollowed:
                raise AnalysisError('BoundRoute.__init__: self.%s is computed by %s, which could not be followed' % (attr, short(unfollowed[0], 40)))
            rep.fail('R11.e', key, 'self.%s does not build on %s.%s (the route being re-bound): re-binding drops what earlier bindings accumulated' %
                     (attr, rp, attr), route, fl.defs[slot][0].stmt)
            continue
        rep.ok('R11.e', key, 'self.%s is built on %s.%s, the value of the route being re-bound' % (attr, rp, attr), route, from_route[0][1])


def check_rebinding_choice(rep, repo, route, bi):
    """R11.e, for the accumulated attributes that are *chosen* (the binding application's value or the one the route being
    bound carries -- slash mode, error renderer) rather than combined: the constructor serves the first bind (``route`` is an
    unbound Route) and every re-bind (``route`` is a BoundRoute, which this very constructor filled in).  On the re-bind
    path the choice is a function of this binding's own arguments (the bind keywords, the application): it does not vary
    with what the previous binding left on the route -- a test of ``route.X`` is a test of the earlier binding's outcome,
    and where every bound route carries the value it is constant -- and the application's value can be chosen at all
    (tests that tell a bound route from an unbound one are read as 'bound')."""
    import re as _re
    from .c10 import Prop, Flags, Unknown, _class_sets_attr
    fl = Flow(bi)
    ps = bi.params()
    rp, ap = ps[1], ps[2]
    ctx = _ReadCtx(bi, fl, {rp: {'route'}, ap: {'app'}})
    pr = Prop(fl, Flags(fl, bi))
    mentions_route = _re.compile(r'(?<![\w.])%s(?![\w])' % _re.escape(rp))

    def side(lf):
        v = lf.value
        if lf.opaque:
            return None
        if isinstance(v, ast.Attribute):
            ks = _owner_kinds(v.value, ctx)
        elif isinstance(v, ast.Call) and call_name(v) == 'getattr' and len(v.args) in (2, 3):
            ks = _owner_kinds(v.args[0], ctx)
        else:
            return None
        return 'app' if ks == {'app'} else 'route' if ks == {'route'} else None

    def on_rebind(atom):
        """value of a test that tells the two kinds of ``route`` apart, when ``route`` is a bound route; None: not such a test"""
        m = _re.match(r"^hasattr\(%s, '(\w+)'\)$" % _re.escape(rp), atom)
        if m:
            return _class_sets_attr(repo, bi.cls, m.group(1))
        m = _re.match(r"^isinstance\(%s, (\w+)\)$" % _re.escape(rp), atom)
        if m and bi.cls is not None:
            kind, _, obj = repo.resolve(bi.mod, m.group(1))
            if kind == 'class' and (obj is bi.cls or obj in repo.mro(bi.cls)):
                return True
        return None

    for attr in ACCUMULATED_ATTRS:
        slot = 'self.%s' % attr
        if not fl.defs.get(slot):
            continue
        lv = fl.leaves(ast.parse(slot, mode='eval').body, 'exit')
        sides = [side(l) for l in lv]
        if not lv or None in sides or 'app' not in sides or 'route' not in sides:
            continue            # not a choice between the two (combined attributes: judged above)
        try:
            guards = [('&', pr.conds(l.conds)) for l in lv]
            atoms = sorted(set().union(*[pr.atoms(g) for g in guards]))
            fixed = dict((a, on_rebind(a)) for a in atoms)
            fixed = dict((a, v) for a, v in fixed.items() if v is not None)
            state = [a for a in atoms if a not in fixed and not a.startswith('keyword:') and mentions_route.search(a)]
            own = [a for a in atoms if a not in fixed and a not in state]
            if len(atoms) > 12:
                raise Unknown('too many atoms')
            chosen = {}         # values of the binding's own atoms -> {side: a witness row}
            free = own + state
            for i in range(1 << len(free)):
                env = dict(fixed)
                env.update((n, bool(i >> j & 1)) for j, n in enumerate(free))
                for g, s in zip(guards, sides):
                    if pr.ev(g, env):
                        chosen.setdefault(tuple(env[a] for a in own), {}).setdefault(s, env)
        except Unknown as e:
            raise AnalysisError('BoundRoute.__init__: conditions of the self.%s selection not understood (%s)' % (attr, e))
        key = fkey(bi, 'self.%s: the choice on a re-bind is this binding\'s' % attr)
        split = [c for c in chosen.values() if len(c) > 1]
        node = next((l.stmt for l in lv if isinstance(l.stmt, ast.AST)), bi.node)
        if split:
            dep = [a for a in state if split[0]['app'][a] != split[0]['route'][a]] or state
            rep.fail('R11.e', key, 'whether a re-bound route gets the binding application\'s %s or keeps its own depends on %s, a test of what the '
                     'previous binding left on the route: right for the first bind of an unbound Route, but every bound route carries a value '
                     'there, so when an application is embedded the test always comes out the same way and its routes never pick up the '
                     'embedding application\'s %s -- the copy made by embedding does not belong to the application it was bound into' %
                     (attr, ' / '.join(dep[:2]), attr), route, node)
            continue
        if not any('app' in c for c in chosen.values()):
            rep.fail('R11.e', key, 'on a re-bind (%s) the binding application\'s %s is never chosen, whatever the bind keywords say: embedded '
                     'routes keep the %s of the application they were first bound into' %
                     (', '.join('%s is %s' % kv for kv in sorted(fixed.items())) or 'route is a bound route', attr, attr), route, node)
            continue
        rep.ok('R11.e', key, 'on a re-bind the choice between %s.%s and the application\'s is decided by %s alone' %
               (rp, attr, ', '.join(own) or 'the binding'), route, node)


def check_rebinding_sites(rep, repo, app, route):
    """R11.e at the two places that start a re-binding: BoundRoute.bind hands the bound route itself to the constructor, and
    SubApplication.bind_all calls ``bind`` on the embedded application's bound routes -- neither goes back to the unbound
    route (which would restart from the flat declaration and drop every inner embedding)."""
    bb = route.func('BoundRoute.bind')
    fl = Flow(bb)
    made = [c for c in walk_body(bb.node) if isinstance(c, ast.Call) and
            (call_name(c) == 'BoundRoute' or norm(c.func) in ('self.__class__', 'type(self)'))]
    if not made:
        raise AnalysisError('BoundRoute.bind: no construction of a BoundRoute found')
    for c in made:
        first = c.args[0] if c.args and not isinstance(c.args[0], ast.Starred) else next((k.value for k in c.keywords if k.arg == 'route'), None)
        if first is None:
            raise AnalysisError('BoundRoute.bind: the route handed to the constructor could not be identified (%s)' % short(c, 50))
        txt = fl.text(first, stmt_of(route, c))
        ok = txt == 'self'
        if not ok and 'unbound_route' not in txt:
            raise AnalysisError('BoundRoute.bind: the route handed to the constructor (%s) is not understood' % txt)
        rep.check('R11.e', fkey(bb, 're-binds itself'), ok, 'a bound route is re-bound from itself (prefix, resources, middlewares so far are kept)' if ok else
                  'BoundRoute.bind re-binds %s instead of the bound route itself: everything the bindings so far accumulated is dropped when its '
                  'application is embedded' % txt, route, c)
    ba = app.func('SubApplication.bind_all')
    afl = Flow(ba)
    binds = [c for c in walk_body(ba.node) if isinstance(c, ast.Call) and isinstance(c.func, ast.Attribute) and c.func.attr == 'bind']
    if not binds:
        raise AnalysisError('SubApplication.bind_all: no .bind(...) call found')
    for c in binds:
        txt = afl.text(c.func.value, stmt_of(app, c))
        ok = 'unbound_route' not in txt
        rep.check('R11.e', fkey(ba, 're-binds the bound routes'), ok, 'the embedded application\'s bound routes themselves are re-bound' if ok else
                  'bind_all re-binds %s, the original unbound route, instead of the embedded application\'s bound route: the embedded '
                  'application\'s own prefixes / resources / middlewares are dropped' % txt, app, c)


def _self_attrs_behind(fl, fi, expr, repo=None):
    """{attr: node}: the attributes of ``self`` that can influence ``expr`` (through named temporaries / containers built
    in this function; the attributes themselves are not looked into)."""
    me = fi.params()[0] if fi.params() else 'self'
    stop = set(k for k in fl.defs if k.startswith(me + '.'))
    exprs = [expr]
    followed = set()
    for n in ast.walk(expr):
        if isinstance(n, ast.Name) and isinstance(n.ctx, ast.Load) and n.id in fl.defs and n.id != me:
            ex, seen = contributions(fl, fi, n.id, stop)
            exprs.extend(ex)
            followed |= seen
    out = {}
    # a local that is also what the attribute was set to (``self.resources = resources``) stands for the attribute
    for k in sorted(stop):
        for d in fl.defs[k]:
            if d.kind == 'assign' and d.idx is None and isinstance(d.value, ast.Name) and d.value.id in followed:
                out.setdefault(k[len(me) + 1:], d.value)

    def visit(n):
        # what an analysed function computes from its arguments is a new value, not the attribute handed to it
        if isinstance(n, ast.Call) and repo is not None and effects.callee_of(repo, fi, n) is not None:
            return
        if isinstance(n, ast.Attribute) and isinstance(n.ctx, ast.Load) and isinstance(n.value, ast.Name) and n.value.id == me:
            out.setdefault(n.attr, n)
        for c in ast.iter_child_nodes(n):
            visit(c)
    for e in exprs:
        visit(e)
    return out


def _offered_sources(fi):
    """-> (attrs {attr: node}, opaque [text], inject call): the attributes of ``self`` merged as whole mappings into the
    injectables the request-time method ``fi`` hands to ``inject`` (entries under a fixed key are not merges), and the
    merged layers whose content is not known here (anything but ``self.X``, a parameter, a display)."""
    from .. import layers
    from ..astutil import argn
    inj = [c for c in walk_body(fi.node) if isinstance(c, ast.Call) and call_name(c) == 'inject']
    if len(inj) != 1:
        raise AnalysisError('%s: expected one inject call' % fi.qualname)
    arg = argn(inj[0], 'injectables', 1)
    if arg is None:
        raise AnalysisError('%s: the mapping handed to inject could not be identified' % fi.qualname)
    me = fi.params()[0]
    lay = layers.layers_of_value(fi.node, arg)
    a = fi.node.args
    own = set(fi.params()) | set(x.arg for x in (a.vararg, a.kwarg) if x is not None)
    attrs, opaque = {}, []

    def flat(l, depth=0):
        # dict({...}, **more) / {**a, 'k': v}: a display merged as a whole is its own layers
        if l.kind == 'source' and depth < 4 and (isinstance(l.node, ast.Dict) or (isinstance(l.node, ast.Call) and call_name(l.node) == 'dict')):
            return [x for s in layers.layers_of_expr(l.node) for x in flat(s, depth + 1)]
        return [l]
    for l in [x for l0 in lay for x in flat(l0)]:
        if l.kind != 'source':
            continue
        found = False
        for n in ast.walk(l.node):
            if isinstance(n, ast.Attribute) and isinstance(n.value, ast.Name) and n.value.id == me:
                attrs.setdefault(n.attr, n)
                found = True
        if not found and not (isinstance(l.node, ast.Name) and l.node.id in own):
            opaque.append(l.text)
    return attrs, opaque, inj[0]


def check_declared_sources_offered(rep, repo, route, bi):
    """R11.f: what binding declares, serving offers.  The bind-time dependency checks of BoundRoute.__init__ are told which
    names will be available (the ``preprovided`` argument of make_middleware_chain, the ``resources`` argument of
    check_render_error); every attribute of the bound route those declarations are computed from is offered again when a
    request is served: either ``match_path`` produces the values from it (path parameters) or the request-time method merges
    it into the injectables it hands to ``inject``.  ``execute`` and ``execute_error`` merge the same stored mappings.  A
    bound route is self-contained: it does not rely on the application that happens to dispatch to repeat what it was
    bound with (a Route with resources of its own, an application embedded in one that does not have its resources)."""
    from ..astutil import argn
    fl = Flow(bi)
    ci = bi.cls
    methods = dict((q, route.func('BoundRoute.%s' % q)) for q in ('execute', 'execute_error', 'match_path'))
    mp = methods['match_path']
    me = mp.params()[0]
    by_matching = set(n.attr for n in walk_body(mp.node) if isinstance(n, ast.Attribute) and isinstance(n.ctx, ast.Load) and
                      isinstance(n.value, ast.Name) and n.value.id == me)
    calls = [c for c in walk_body(bi.node) if isinstance(c, ast.Call)]
    declared = {}
    for fname, pname, pos, q in (('make_middleware_chain', 'preprovided', 3, 'execute'), ('check_render_error', 'resources', 1, 'execute_error')):
        for c in calls:
            if call_name(c) != fname:
                continue
            arg = argn(c, pname, pos)
            if arg is None:
                raise AnalysisError('BoundRoute.__init__: the names declared to %s could not be identified' % fname)
            declared.setdefault(q, {}).update(_self_attrs_behind(fl, bi, arg, repo))
    if 'execute' not in declared:
        raise AnalysisError('BoundRoute.__init__: no make_middleware_chain(.., preprovided) call found')
    offered = {}
    for q in ('execute', 'execute_error'):
        offered[q] = _offered_sources(methods[q])
    for q in ('execute', 'execute_error'):
        attrs, opaque, inj = offered[q]
        for attr, node in sorted(declared.get(q, {}).items()):
            if attr in by_matching:
                continue        # path parameters: produced by match_path from the same attribute
            key = fkey(methods[q], 'offers self.%s' % attr)
            if attr not in attrs and opaque:
                raise AnalysisError('%s: the injectables are merged from %s, which could not be followed' % (methods[q].qualname, opaque[0]))
            rep.check('R11.f', key, attr in attrs, 'self.%s, declared as provided when the route is bound, is merged into the injectables of %s' %
                      (attr, q) if attr in attrs else
                      'BoundRoute.__init__ declares the names of self.%s as provided (%s), so binding succeeds, but %s does not merge self.%s into '
                      'the injectables it hands to inject: a route bound with resources of its own, or an application embedded in one that does '
                      'not repeat its resources, fails when the request is served -- the bound route relies on the dispatching application '
                      'instead of what it was bound with' % (attr, short(node, 40), methods[q].qualname, attr), route, inj)
    # the two request-time entry points offer the same stored mappings
    a1, o1, i1 = offered['execute']
    a2, o2, i2 = offered['execute_error']
    for attr in sorted(set(a1) ^ set(a2)):
        has, lacks = ('execute', 'execute_error') if attr in a1 else ('execute_error', 'execute')
        if attr in declared.get(lacks, {}):
            continue            # already judged above
        if offered[lacks][1]:
            raise AnalysisError('%s: the injectables are merged from %s, which could not be followed' % (methods[lacks].qualname, offered[lacks][1][0]))
        rep.fail('R11.f', fkey(methods[lacks], 'offers self.%s like %s' % (attr, has)),
                 '%s merges self.%s into its injectables and %s does not: the endpoint and the error renderer of one bound route see '
                 'different resources' % (has, attr, lacks), route, offered[lacks][2])
    if not (set(a1) ^ set(a2)):
        rep.ok('R11.f', fkey(methods['execute'], 'same stored sources as execute_error'),
               'execute and execute_error merge the same attributes of the bound route (%s)' % ', '.join(sorted(a1)), route, i1)


def run(rep):
    from .c10 import _safe
    repo = rep.repo
    _guard = rep.guard
    rep_guard = lambda fn, *a, **k: _guard(_safe(fn), *a, **k)
    hc = HelperClosure(repo)
    app, route, core, sinter = repo.mod(APP), repo.mod(ROUTE), repo.mod(CORE), repo.mod(SINTER)
    rep.decide('R11.a binding writes only the new object / copies containers; R11.b add() binds before it mutates; '
               'R11.c running index; R11.d module-level state inventory')
    rep.decline('equality of responses before/after binding (needs running); state inside third-party objects')
    rep.rule('R11.a', 'effect analysis: receivers are self / fresh; parameters read-only; containers copied; at request time nothing '
             'writes a route / application, per-request objects update only containers of their own (ownership followed to the callers)')
    rep.rule('R11.b', 'CFG ordering: failing calls precede the first mutation; only inserts follow')
    rep.rule('R11.c', 'running index in add()')
    rep.rule('R11.d', 'every writer of module-level state is in the frozen inventory')
    rep.rule('R11.e', 'provenance: accumulated attributes of a bound route are built on those of the route being re-bound')
    rep.rule('R11.f', 'sibling agreement: every source BoundRoute.__init__ declares as provided is offered by execute / execute_error')

    # ---- R11.a -----------------------------------------------------------
    def r11a():
        prov = Provenance(repo)
        gaps = []

        def readonly_params(fi, ro, label):
            fresh = effects.fresh_locals(repo, fi)
            # aliases of read-only parameters: x = getattr(param, ...), x = param.attr, x = param
            alias = set(ro)
            for s in stmts_of(fi.node):
                if isinstance(s, ast.Assign) and len(s.targets) == 1 and isinstance(s.targets[0], ast.Name):
                    v = s.value
                    base = v
                    if isinstance(v, ast.Call) and call_name(v) == 'getattr' and v.args:
                        base = v.args[0]
                    while isinstance(base, (ast.Attribute, ast.Subscript)):
                        base = base.value
                    if isinstance(base, ast.Name) and base.id in alias and not (isinstance(v, ast.Call) and call_name(v) in COPY_CALLS):
                        alias.add(s.targets[0].id)
            n = 0
            fl_ = Flow(fi)
            for e in effects.effects_in(fi.node):
                n += 1
                root = e.root
                ok = root == 'self' or (root in fresh and root not in alias) or root in ('kwargs', 'kw')
                if not ok and root is not None and root not in alias and root != 'self':
                    # flow-sensitive: at this statement the local can only hold an object built here
                    ok = effects.fresh_at(repo, fi, fl_, root, stmt_of(fi.mod, e.node))
                if root in alias:
                    ok = False
                rep.check('R11.a', fkey(fi, e.node), ok, 'writes %s (own / fresh object)' % root if ok else
                          '%s writes through %s, which is (an alias of) a %s being bound: binding must not modify the original' % (fi.qualname, root, label),
                          fi.mod, e.node)
            # the same through the analysed functions it calls: whatever a callee updates in place (one of its parameters,
            # through local aliases, or by handing it on) is, at this call, an object this activation allocated -- never
            # one that existed before (the route / application being bound, one of their containers, a caller's argument)
            for c in walk_body(fi.node):
                callee = prov.callee(fi, c) if isinstance(c, ast.Call) else None
                if callee is None or callee is fi:
                    continue
                ms = prov.mutated_params(callee)
                if not ms:
                    continue
                bound = prov.bind_args(callee, c)
                st = stmt_of(fi.mod, c)
                bad, unk = [], []
                for p in sorted(ms, key=str):
                    node, text = ms[p]
                    if p is None:
                        unk.append('%s updates %s' % (callee.qualname, text))
                        continue
                    if bound is None:
                        unk.append('arguments of %s not matched with its parameters' % short(c, 40))
                        continue
                    if p not in bound:
                        d = prov.default_of(callee, p)
                        if d is not None and not isinstance(d, ast.Constant):
                            bad.append((p, 'the default %s, created once and shared by every call' % short(d, 30), text))
                        continue
                    for o in prov.origins(fi, bound[p], st):
                        if o.kind == 'fresh' or (o.kind == 'param' and o.name == 'self'):
                            continue
                        if o.kind in ('unknown', 'library'):
                            unk.append('%s handed to %s(%s): %s' % (short(bound[p], 30), callee.qualname, p, o.why))
                            continue
                        bad.append((p, '%s (%s)' % (short(bound[p], 50), o.text()), text))
                if unk and not bad:
                    gaps.append('%s: %s' % (fi.qualname, unk[0]))
                    continue
                n += 1
                rep.check('R11.a', fkey(fi, 'callee %s' % norm(c)[:70]), not bad,
                          '%s updates its parameter(s) %s in place; here those are objects built by this activation' %
                          (callee.qualname, ', '.join(str(p) for p in sorted(ms, key=str) if p is not None)) if not bad else
                          '%s hands %s to %s as %s, and %s updates that parameter in place (%s): the %s is modified by the binding -- it '
                          'must behave afterwards exactly as before, however often it is bound' %
                          (fi.qualname, bad[0][1], callee.qualname, bad[0][0], callee.qualname, bad[0][2], label), fi.mod, c)
            return n
        bi = route.func('BoundRoute.__init__')
        n1 = readonly_params(bi, set(bi.params()[1:3]), 'route/application')
        ri = route.func('Route.__init__')
        n2 = readonly_params(ri, set(), 'caller argument')
        ba = app.func('SubApplication.bind_all')
        n3 = readonly_params(ba, {ba.params()[1]}, 'application')
        for e in effects.effects_in(ba.node):
            if e.chain and e.chain[:2] == ['self', 'app']:
                rep.fail('R11.a', fkey(ba, e.node), 'bind_all writes the embedded application (self.app...)', app, e.node)
        mm = core.func('merge_middlewares')
        n4 = readonly_params(mm, set(), 'caller list')
        # merge_middlewares: its parameters are re-bound to copies before anything is mutated
        rets = returns_of(mm)
        mfresh = effects.fresh_locals(repo, mm) - set(mm.params())
        returned = set(n.id for r in rets if r.value is not None for n in ast.walk(r.value) if isinstance(n, ast.Name))
        for e in effects.effects_in(mm.node):
            ok = e.root in mfresh and e.root in returned
            rep.check('R11.a', fkey(mm, 'mutates only merged'), ok, 'only the freshly built merged list is mutated' if ok else
                      'merge_middlewares mutates %s (a caller-supplied list)' % e.root, core, e.node)
        crf = app.func('cast_to_route_factory')
        effs = effects.effects_in(crf.node)
        rep.check('R11.a', fkey(crf), not effs, 'cast_to_route_factory has no heap effect' if not effs else
                  'cast_to_route_factory writes %s' % [short(e.node) for e in effs], app, crf.node)
        # containers kept by the bound route are copies: every value that can flow into the attribute (through named
        # temporaries, either arm of a conditional) is a container allocated here
        def rooted_in(fl, leaf, names):
            """the value is (part of) an object reachable from one of ``names``: attribute / item / getattr chain."""
            v = fl.resolve(leaf.value, leaf.stmt) if isinstance(leaf.stmt, ast.AST) else leaf.value
            seen_attr = False
            while True:
                if isinstance(v, (ast.Attribute, ast.Subscript)):
                    v, seen_attr = v.value, True
                elif isinstance(v, ast.Call) and call_name(v) == 'getattr' and v.args:
                    v, seen_attr = v.args[0], True
                else:
                    break
            return seen_attr and isinstance(v, ast.Name) and v.id in names

        def copies(fi, attr, who, mod_):
            fl = Flow(fi)
            lv = fl.leaves(ast.parse('self.%s' % attr, mode='eval').body, 'exit')
            stores = fl.defs.get('self.%s' % attr, [])
            if not stores:
                lv = []
            through = {}

            def allocated_here(l):
                callee = prov.callee(fi, l.value) if isinstance(l.value, ast.Call) and not l.opaque else None
                try:
                    ok = fresh_container(fl, fi, l, repo)
                    if ok or callee is None:
                        return ok
                    err = '%s: value computed by %s could not be followed' % (fi.qualname, callee.qualname)
                except AnalysisError as e:
                    err = e
                # the result of an analysed function: what its returns hand out, its parameters read as the
                # arguments of this call -- a mapping / list allocated by this binding, or one that existed before
                os_ = prov.origins(fi, l.value, l.stmt if isinstance(l.stmt, ast.AST) else 'exit')
                kept = [o for o in os_ if o.kind in ('param', 'global') and not (o.kind == 'param' and o.name == 'self')]
                if kept:
                    through[id(l)] = kept[0]
                    return False
                unk = [o for o in os_ if o.kind != 'fresh']
                if unk or not os_:
                    raise AnalysisError('%s (%s)' % (err, unk[0].why or unk[0].text() if unk else 'no value'))
                return True
            bad = [l for l in lv if not allocated_here(l)]
            ok = bool(lv) and not bad
            rep.check('R11.a', fkey(fi, 'self.%s is a copy' % attr), ok, 'self.%s = %s (fresh container)' % (attr, ' | '.join(short(l.value, 50) for l in lv)) if ok else
                      '%s: self.%s aliases a container of %s: %s' % (fi.qualname, attr, who, [
                          short(l.value) + (' hands back %s' % through[id(l)].text() if id(l) in through else '') for l in bad] or 'never assigned'), mod_,
                      (bad[0].stmt if bad and isinstance(bad[0].stmt, ast.AST) else None) or (stores[-1].stmt if stores else fi.node))

        bfl = Flow(bi)
        ro = set(bi.params()[1:3])
        # attributes that stay aliases of the original's objects must not be mutated here
        for slot in sorted(k for k in bfl.defs if k.startswith('self.')):
            attr = slot[5:]
            lv = [l for d in bfl.defs[slot] if d.kind == 'assign' and d.idx is None for l in bfl.leaves(d.value, d.stmt)]
            al = [l for l in lv if not l.opaque and rooted_in(bfl, l, ro)]
            if not al:
                continue
            muts = [e for e in effects.effects_in(bi.node) if (e.chain or [])[:2] == ['self', attr] and
                    (e.kind == 'mutcall' or len(e.chain) > 2 or isinstance(e.node, ast.AugAssign))]
            rep.check('R11.a', fkey(bi, 'alias self.%s' % attr), not muts,
                      'self.%s aliases %s and is not mutated while binding' % (attr, norm(al[0].value)) if not muts else
                      'self.%s is an alias of %s and is mutated during binding (%s): the original route/application changes' %
                      (attr, norm(al[0].value), [short(e.node) for e in muts]), route, muts[0].node if muts else al[0].stmt)
        for attr in ('resources', 'middlewares', 'bound_apps'):
            copies(bi, attr, 'the route/application being bound', route)
        for attr in ('middlewares', 'resources'):
            copies(route.func('Route.__init__'), attr, 'the caller', route)
        ai = app.func('Application.__init__')
        for attr in ('resources', 'middlewares'):
            copies(ai, attr, 'the caller', app)
        # aliased mutable attributes are never mutated after construction
        allowed_mut = hc.closure({'clastic.route::Route.__init__', 'clastic.route::BoundRoute.__init__',
                                  'clastic.application::Application.__init__'})
        _ch = {}

        def ctor_helpers(ci):
            # private methods a constructor was split into
            if ci.key not in _ch:
                init = ci.methods.get('__init__')
                _ch[ci.key] = hc.closure({init.key}) if init is not None else set()
            return _ch[ci.key]
        for m in repo.all_internal_modules():
            if m.name.startswith('clastic.middleware') and m.name != CORE or m.name.startswith('clastic.contrib'):
                continue
            for fi in m.functions.values():
                for e in effects.effects_in(fi.node):
                    ch = e.chain or []
                    hit = [a for a in ALIASED_MUTABLE_ATTRS if a in ch[1:]]
                    if not hit or (e.kind == 'store' and ch[-1] in hit and len(ch) == 2 and ch[0] == 'self' and
                                   (fi.name == '__init__' or (fi.cls is not None and fi.key in ctor_helpers(fi.cls)))):
                        continue
                    if ch[0] in effects.fresh_locals(repo, fi):
                        continue
                    ok = fi.key in allowed_mut and ch[0] == 'self'
                    rep.check('R11.a', 'mutation::%s::%s' % (fi.key, norm(e.node)[:70]), ok,
                              'constructor-time mutation of the object\'s own container' if ok else
                              '%s mutates .%s of an existing route/application object (shared with everything it was bound into)' % (fi.key, hit[0]),
                              m, e.node)
        if gaps:
            raise AnalysisError('; '.join(gaps[:3]))
    rep_guard(r11a)

    def request_time():
        """Serving a request never mutates a container that a Route / BoundRoute / Application owns.  Route objects and
        the containers they keep by reference (``methods``) are shared by the unbound Route, by every BoundRoute made from
        it and by every application those were embedded into, so a request-time mutation of one changes them all.
        (1) an object instantiated per request that updates one of its fields in place only ever lets containers of its
        own flow into that field -- values handed in are followed to what the callers pass; (2) no heap effect on the
        request path has a Route / BoundRoute / Application (or a local alias of one of its containers) as receiver."""
        from .noninterf import path_text
        own = Ownership(repo)
        rp = own.rp
        unknown = []
        sites = own.field_sites()
        mutated = dict((k, r) for k, r in sites.items() if r['mut'])
        if not sites:
            raise AnalysisError('no field of a per-request object (DispatchState, ...) found')
        if not mutated:
            rep.ok('R11.a', 'request-time::per-request fields', 'no field of a per-request object is updated in place (%d fields are only ever re-bound)' % len(sites), app)
        for (ci, field), rec in sorted(mutated.items(), key=lambda kv: (kv[0][0].name, kv[0][1])):
            how = rec['mut'][0][2]
            for fi, st, value in rec['asg']:
                key = 'request-time::%s.%s::%s::%s' % (ci.name, field, fi.key, norm(st)[:60])
                if value is None:
                    unknown.append('%s: value stored into .%s by %s not identified' % (fi.qualname, field, short(st, 50)))
                    continue
                vs = own.judge(fi, value, st if isinstance(st, ast.stmt) else stmt_of(fi.mod, st))
                bad = [v for v in vs if v.kind == 'owned']
                unk = [v for v in vs if v.kind == 'unknown']
                if not bad and (unk or not vs):
                    unknown.append('%s: what flows into .%s could not be established (%s)' % (fi.qualname, field, unk[0].why if unk else short(value, 40)))
                    continue
                rep.check('R11.a', key, not bad, '%s.%s (updated in place per request) holds a container of the request\'s own: %s' %
                          (ci.name, field, ' | '.join(sorted(set(v.kind for v in vs)))) if not bad else
                          '%s.%s is updated in place while a request is served (%s), but %s lets it hold an object that outlives the request: '
                          '%s. The per-request object adopts the container instead of copying it, so one request permanently changes a route\'s / '
                          'application\'s own data -- for the unbound Route and every application it was bound or embedded into' %
                          (ci.name, field, how, short(st, 50), bad[0].why), fi.mod, st)
        n, hits = 0, 0
        for fi, e, cls, why, path in rp.effects():
            n += 1
            if cls != 'shared':
                continue
            st = stmt_of(fi.mod, e.node)
            vs = [own._classify(fi, e.target, st)]
            if vs[0].kind == 'unknown' and e.root not in (None, 'self', 'cls') and hasattr(fi, 'params') and not isinstance(fi.node, ast.Lambda) \
                    and st is not None:
                # a local receiver: whatever can reach it (either arm of a conditional, what the callers pass)
                vs = own.judge(fi, ast.copy_location(ast.Name(id=e.root, ctx=ast.Load()), e.node), st)
            bad = [v for v in vs if v.kind == 'owned' and own.in_family(v.owner)]
            if bad:
                hits += 1
                rep.fail('R11.a', 'request-time::%s::%s' % (fi.key, norm(e.node)[:70]),
                         '%s writes %s while serving a request: %s. Route / application objects are shared by everything they were bound or '
                         'embedded into (reached via %s)' % (fi.qualname, short(e.target, 40), bad[0].why, path_text(path)), fi.mod, e.node)
        for fi in sorted(rp.reach, key=lambda f: f.key):
            if fi.mod.external or isinstance(fi.node, ast.Lambda) or not hasattr(fi, 'params'):
                continue
            augs = [e for e in effects.aug_name_effects(fi.node) if effects.aug_in_place(e.node)]
            if not augs:
                continue
            fl = own.flow(fi)
            for e in augs:
                n += 1
                st = stmt_of(fi.mod, e.node)
                for lf in fl.leaves(e.target, st):
                    if lf.opaque or lf.stmt is e.node or not isinstance(lf.value, (ast.Attribute, ast.Subscript)):
                        continue
                    ch = effects.chain_of(lf.value)
                    if not ch or len(ch) < 2 or own.recv_class(fi, fl, ch[0], st) is not None:
                        continue
                    v = own._classify(fi, lf.value, lf.stmt if isinstance(lf.stmt, ast.AST) else st)
                    if v.kind == 'owned' and own.in_family(v.owner):
                        hits += 1
                        rep.fail('R11.a', 'request-time::%s::%s' % (fi.key, norm(e.node)[:70]),
                                 '%s updates %s in place (%s) while serving a request, and %s can be %s: %s' %
                                 (fi.qualname, e.target.id, short(e.node, 40), e.target.id, short(lf.value, 40), v.why), fi.mod, e.node)
        rep.check('R11.a', 'request-time::effects on the request path', hits == 0,
                  '%d heap effects reachable from Application.__call__: none has a Route / BoundRoute / Application as receiver' % n if not hits else
                  '%d request-time write(s) to route / application objects' % hits, app)
        if unknown:
            raise AnalysisError('request-time ownership: ' + '; '.join(unknown[:4]))
    rep_guard(request_time)
    rep_guard(rep.floor, 'R11.a', 25)

    # ---- R11.b -----------------------------------------------------------
    def r11b():
        ai = app.func('Application.__init__')
        ad = app.func('Application.add')
        cfg = cfg_of(ad)
        afl = Flow(ad)
        ins = [stmt_of(app, c) for c in walk_body(ad.node) if isinstance(c, ast.Call) and norm(c.func).startswith('self.routes.')
               and call_tail(c) in effects.MUTATORS]

        def can_fail_at_bind(c):
            if call_name(c) == 'cast_to_route_factory' or call_tail(c) in ('bind', 'bind_all'):
                return True
            t = afl.text(c.func, stmt_of(app, c))      # bind_all = getattr(rf, 'bind_all', None) ... bind_all(self, **kw)
            return t.endswith('.bind') or t.endswith('.bind_all') or "'bind_all'" in t or "'bind'" in t
        failing = [stmt_of(app, c) for c in walk_body(ad.node) if isinstance(c, ast.Call) and can_fail_at_bind(c)]
        if not ins or len(failing) < 2:
            raise AnalysisError('Application.add: insert / bind calls not found')
        for s in failing:
            ok = not (set(cfg.nodes_of(s)) & cfg.reach(cfg.nodes_of_all(ins)))
            rep.check('R11.b', fkey(ad, s), ok, 'runs strictly before the first mutation of self.routes' if ok else
                      'a call that can fail at bind time (%s) can run after self.routes was already modified: a failing add() leaves '
                      'a partially updated routing table' % short(s), app, s)
        # "precedes" must mean *finished*: the bound routes are a materialised list, not a lazy iterator whose
        # bind() calls run interleaved with the insertions
        for q in ('SubApplication.bind_all',):
            bf = app.func(q)
            lazy = [n for n in walk_body(bf.node) if isinstance(n, (ast.Yield, ast.YieldFrom))]
            rets_ = returns_of(bf)
            gens = [r for r in rets_ if isinstance(r.value, (ast.GeneratorExp,)) or
                    (isinstance(r.value, ast.Call) and call_name(r.value) in ('map', 'iter', 'filter', 'zip'))]
            rep.check('R11.b', fkey(bf, 'returns a finished list'), not lazy and not gens and bool(rets_),
                      'all re-bound routes exist before bind_all returns (no generator / lazy iterator)' if not lazy and not gens and rets_ else
                      'bind_all is lazy (generator / iterator): routes are bound one by one while add() is already inserting, so a failing '
                      'k-th route leaves routes 1..k-1 in the table', app, (lazy or gens or [bf.node])[0])
        # the loop that inserts walks a finished list: every value that can flow into its iterable is the result of
        # bind_all(...), a list display or list(...) -- possibly paired with positions by enumerate()
        loops = [l for l in stmts_of(ad.node) if isinstance(l, ast.For) and any(i in stmts_of(l) for i in ins)]
        srcs = []
        ok = bool(loops)
        for l in loops:
            it = l.iter
            if isinstance(it, ast.Call) and call_name(it) == 'enumerate' and it.args and not any(k.arg is None for k in it.keywords):
                it = it.args[0]
            elif isinstance(it, ast.Call) and call_name(it) == 'zip' and not it.keywords:
                # zip(count(index), bound_routes): positions paired with the list
                rest = [a for a in it.args if not (isinstance(a, ast.Call) and call_name(a) in ('itertools.count', 'count', 'range'))]
                if len(rest) == 1 and len(it.args) == 2:
                    it = rest[0]
            if isinstance(it, ast.Call) and call_name(it) == 'reversed' and len(it.args) == 1 and not it.keywords:
                it = it.args[0]             # walking a complete list back to front binds nothing lazily (the order is R11.c's)
            elif isinstance(it, ast.Subscript) and norm(it.slice) == '::-1':
                it = it.value
            for lf in afl.leaves(it, l):
                v = lf.value
                srcs.append(lf)
                fin = not lf.opaque and (isinstance(v, ast.List) or (isinstance(v, ast.Call) and (
                    call_name(v) == 'list' or afl.text(v.func, lf.stmt if isinstance(lf.stmt, ast.AST) else l).endswith('.bind_all') or
                    afl.text(v.func, lf.stmt if isinstance(lf.stmt, ast.AST) else l).startswith("getattr(") and
                    "'bind_all'" in afl.text(v.func, lf.stmt if isinstance(lf.stmt, ast.AST) else l))))
                ok = ok and fin
        ok = ok and bool(srcs)
        rep.check('R11.b', fkey(ad, 'iterates a finished list'), ok, 'the insertion loop walks an already complete list of bound routes' if ok else
                  'the insertion loop does not iterate a complete list of bound routes: %s' % [short(lf.value, 50) for lf in srcs], app,
                  (srcs[0].stmt if srcs and isinstance(srcs[0].stmt, ast.AST) else None) or ad.node)
        after = cfg.reach(cfg.nodes_of_all(ins), normal_only=True)
        bad = []
        for n in after:
            nd = cfg.nodes[n]
            if nd.stmt is None or nd.kind in ('iter', 'exhaust', 'head', 'branch'):
                if nd.kind == 'head' and not isinstance(nd.stmt, ast.For):
                    bad.append(nd)
                continue
            st = nd.stmt
            if st in ins or isinstance(st, ast.Return) or (isinstance(st, ast.AugAssign) and isinstance(st.value, ast.Constant)):
                continue
            if isinstance(st, ast.Assign) and len(st.targets) == 1 and isinstance(st.targets[0], ast.Name) and \
                    all(isinstance(n, (ast.Name, ast.Constant, ast.BinOp, ast.Add, ast.Sub, ast.Load)) for n in ast.walk(st.value)) and \
                    all(isinstance(n.value, int) for n in ast.walk(st.value) if isinstance(n, ast.Constant)):
                continue      # position arithmetic on locals (index = index + 1)
            bad.append(nd)
        rep.check('R11.b', fkey(ad, 'after first insert'), not bad, 'after the first insertion only insertions and index arithmetic follow' if not bad else
                  'statements that may fail follow the first insertion: %s' % [short(b.stmt) for b in bad if b.stmt is not None], app, ins[0])
        # constructor: a failing add() inside __init__ propagates (nothing swallows it)
        ai_loop = [s for s in stmts_of(ai.node) if isinstance(s, ast.For) and any(isinstance(c, ast.Call) and norm(c.func) == 'self.add' for c in ast.walk(s))]
        from .common import protected_by
        ok = bool(ai_loop) and all(protected_by(ai, s, 'Exception') is None for s in ai_loop)
        rep.check('R11.b', fkey(ai, 'bind errors propagate'), ok, 'a bind failure aborts construction (no handler hides it)' if ok else
                  'Application.__init__ swallows errors from add()', app, ai.node)

    rep_guard(r11b)

    # ---- R11.c -----------------------------------------------------------
    def r11c():
        from .c06 import routes_writer_ok, ROUTES_WRITERS_ALLOWED

        class _As(object):          # a helper judged as the function it is a part of
            def __init__(self, qualname):
                self.qualname = qualname

        class _Store(object):       # ``self.routes, x = [], y``: the element assigned to the routing table
            def __init__(self, e, value):
                self.kind, self.method, self.target, self.chain = e.kind, e.method, e.target, e.chain
                self.node = ast.copy_location(ast.Assign(targets=[e.target], value=value), e.node)
        for m, fi, e in routes_writers(repo):
            ok = routes_writer_ok(m, fi, e)
            if not ok:
                # the same write, made by a private helper the permitted writer was split into / in a tuple assignment
                e2 = e
                if e.kind == 'store' and isinstance(e.node, ast.Assign):
                    for d in Flow(fi).defs.get(slot_key(e.target) or '', []):
                        if d.stmt is e.node and d.kind == 'assign' and d.idx is None and d.value is not e.node.value:
                            e2 = _Store(e, d.value)
                for (gm, gq) in ROUTES_WRITERS_ALLOWED:
                    if gm == m.name and fi.key in hc.closure({'%s::%s' % (gm, gq)}):
                        ok = ok or routes_writer_ok(m, _As(gq), e2)
            rep.check('R11.c', 'writer::%s::%s' % (fi.key, norm(e.node)[:70]), ok, 'set-up write of a routing table' if ok else
                      '%s writes a routing table' % fi.key, m, e.node)
    rep_guard(r11c)

    def requested_index():
        """The first new route goes to the requested position: the ``index`` argument when one was given (0 included),
        the end of the table otherwise -- whichever way the position is carried (running local, base + enumerate offset,
        zip(count(base), ..), enumerate(.., base))."""
        from .c10 import Prop, Unknown

        def position_of(ad, fl, pr, idx, call, given):
            st = stmt_of(app, call)
            loops = [l for l in stmts_of(ad.node) if isinstance(l, ast.For) and st in stmts_of(l)]
            if len(loops) != 1:
                raise AnalysisError('Application.add: the insertion is not inside one loop')
            loop = loops[0]
            pos = call.args[0]
            # loop-carried positions: element of enumerate(..) / zip(count(base), ..) targets
            counter, base = None, None
            it = loop.iter
            tg = loop.target.elts if isinstance(loop.target, ast.Tuple) else []
            if isinstance(it, ast.Call) and call_name(it) == 'enumerate' and tg and isinstance(tg[0], ast.Name):
                counter = tg[0].id
                base = it.args[1] if len(it.args) > 1 else next((k.value for k in it.keywords if k.arg == 'start'), None)
            elif isinstance(it, ast.Call) and call_name(it) == 'zip' and len(it.args) == len(tg):
                for a, t in zip(it.args, tg):
                    if isinstance(a, ast.Call) and call_name(a) in ('itertools.count', 'count') and isinstance(t, ast.Name):
                        counter, base = t.id, (a.args[0] if a.args else ast.Constant(value=0))
            if counter is not None and isinstance(pos, ast.Name) and pos.id == counter and base is not None:
                start_expr = base                                       # for pos, br in zip(count(base), ..) / enumerate(.., base)
            elif counter is not None and base is None and isinstance(pos, ast.BinOp) and isinstance(pos.op, ast.Add) and \
                    counter in (norm(pos.left), norm(pos.right)):
                start_expr = pos.right if norm(pos.left) == counter else pos.left     # insert(base + offset, ..), enumerate from 0
            elif isinstance(pos, ast.Name):
                start_expr = pos                                        # running local, advanced in the loop
            else:
                raise AnalysisError('Application.add: insertion position %s not understood' % short(pos, 40))
            lv = [l for l in fl.leaves(start_expr, loop) if not (isinstance(l.stmt, ast.AST) and l.stmt in stmts_of(loop))]
            def leaf_ok(l, extra=(), depth=0):
                txt = fl.text(l.value, l.stmt) if isinstance(l.stmt, ast.AST) else norm(l.value)
                prem = pr.conds(list(extra) + [c for c in l.conds if c not in extra])
                if not l.opaque and txt == idx:
                    return pr.implies(prem, given)
                if not l.opaque and txt == 'len(self.routes)':
                    return pr.implies(prem, ('n', given))
                v = l.value
                if not l.opaque and depth < 3 and isinstance(v, ast.Call) and call_name(v) == 'min' and len(v.args) == 2 and not v.keywords and \
                        isinstance(l.stmt, ast.AST):
                    # min(position, len(self.routes)): list.insert itself treats a position past the end as the end
                    rest = [a for a in v.args if fl.text(a, l.stmt) != 'len(self.routes)']
                    if len(rest) == 1:
                        sub = fl.leaves(rest[0], l.stmt)
                        return bool(sub) and all(leaf_ok(x, list(extra) + [c for c in l.conds if c not in extra], depth + 1) for x in sub)
                return False
            try:
                ok = bool(lv) and all(leaf_ok(l) for l in lv)
            except Unknown as e:
                raise AnalysisError('Application.add: conditions of the insertion position not understood (%s)' % e)
            return ok, lv, st
        def block_order(ad, fl, call):
            """The k-th new route ends up at position start + k: the list is walked front to back with a position that
            advances by one per route (running local, enumerate / count offset), or back to front with a position that
            stays where it is -- and then only when that position exists in the table, because ``list.insert`` turns a
            position past the end into an append.  -> (ok, why)"""
            st = stmt_of(app, call)
            loops = [l for l in stmts_of(ad.node) if isinstance(l, ast.For) and st in stmts_of(l)]
            if len(loops) != 1:
                raise AnalysisError('Application.add: the insertion is not inside one loop')
            loop = loops[0]
            pos = call.args[0]
            it = loop.iter
            tg = loop.target.elts if isinstance(loop.target, ast.Tuple) else []
            counter = None
            if isinstance(it, ast.Call) and call_name(it) == 'enumerate' and it.args and tg and isinstance(tg[0], ast.Name):
                counter, it = tg[0].id, it.args[0]
            elif isinstance(it, ast.Call) and call_name(it) == 'zip' and len(it.args) == len(tg) == 2:
                for a, t, other in ((it.args[0], tg[0], it.args[1]), (it.args[1], tg[1], it.args[0])):
                    if isinstance(a, ast.Call) and call_name(a) in ('itertools.count', 'count', 'range') and isinstance(t, ast.Name):
                        counter, it = t.id, other
                        break
            backward = False
            for _ in range(2):
                if isinstance(it, ast.Call) and call_name(it) == 'reversed' and len(it.args) == 1 and not it.keywords:
                    backward, it = not backward, it.args[0]
                elif isinstance(it, ast.Subscript) and norm(it.slice) == '::-1':
                    backward, it = not backward, it.value
            inner = stmts_of(loop)
            names = [n.id for n in ast.walk(pos) if isinstance(n, ast.Name)]
            if counter is not None and counter in names:
                kind = 'counter'
            else:
                steps = [d for nm in names for d in fl.defs.get(nm, []) if d.stmt in inner]
                if not steps:
                    kind = 'fixed'
                else:
                    cfg = fl.cfg
                    plus_one = all((isinstance(d.stmt, ast.AugAssign) and isinstance(d.stmt.op, ast.Add) and norm(d.stmt.value) == '1') or
                                   (isinstance(d.stmt, ast.Assign) and norm(d.stmt.value) in ('%s + 1' % d.key, '1 + %s' % d.key)) for d in steps)
                    each_time = len(steps) == 1 and isinstance(pos, ast.Name) and not [
                        c for c in cfg.conds_at_stmt(steps[0].stmt) if c not in cfg.conds_at_stmt(st)] and not [
                        c for c in cfg.conds_at_stmt(st) if c not in cfg.conds_at_stmt(steps[0].stmt)]
                    if not (plus_one and each_time):
                        return False, 'the position %s is not advanced by exactly one per inserted route (%s)' % (
                            short(pos, 30), ', '.join(short(d.stmt, 30) for d in steps))
                    kind = 'running'
            if not backward:
                if kind == 'fixed':
                    return False, ('every route of the block is inserted at the same position %s while the list is walked front to back: '
                                   'the block ends up reversed' % short(pos, 30))
                return True, 'front to back, position advancing by one per route'
            if kind != 'fixed':
                return False, ('the list is walked back to front while the position %s advances: the block ends up reversed / interleaved '
                               'with the existing routes' % short(pos, 30))
            # back to front at a fixed position: in order only if that position exists (0 <= pos <= len(self.routes))
            lv = fl.leaves(pos, loop)
            within = bool(lv)
            for l in lv:
                txt = fl.text(l.value, l.stmt) if isinstance(l.stmt, ast.AST) else norm(l.value)
                v = l.value
                clamp = isinstance(v, ast.Call) and call_name(v) == 'min' and not v.keywords and \
                    any(fl.text(a, l.stmt if isinstance(l.stmt, ast.AST) else loop) == 'len(self.routes)' for a in v.args)
                within = within and not l.opaque and (txt == 'len(self.routes)' or clamp)
            if within:
                return True, 'back to front at a fixed position that exists in the table'
            return False, ('the block is inserted back to front at the fixed position %s, which can lie past the end of the table (%s): '
                           'list.insert then appends, so the new routes end up in reverse order -- not old[:i] + new + old[i:]' %
                           (short(pos, 30), ' | '.join(short(l.value, 30) for l in lv)))
        ad = app.func('Application.add')
        fl = Flow(ad)
        pr = Prop(fl)
        idx = ad.params()[2] if len(ad.params()) > 2 else None
        ins_all = [c for c in walk_body(ad.node) if isinstance(c, ast.Call) and norm(c.func) == 'self.routes.insert' and len(c.args) == 2]
        if idx is None or not ins_all:
            raise AnalysisError('Application.add: the index parameter / a self.routes.insert(position, route) call not found')
        given = ('n', ('a', '%s is None' % idx))
        ok, seen_leaves, st = True, [], None
        for one in ins_all:
            ok1, lv, st = position_of(ad, fl, pr, idx, one, given)
            ok = ok and ok1
            seen_leaves += lv
        lv = seen_leaves
        rep.check('R11.c', fkey(ad, 'requested index'), ok, 'the first new route goes to the given index (0 included), or to the end when none was given' if ok else
                  'the insertion position is not "index if one was given, else len(self.routes)": %s' % [short(l.value, 40) for l in lv], app, st)
        verdicts = [block_order(ad, fl, one) for one in ins_all]
        bad = [why for ok_, why in verdicts if not ok_]
        rep.check('R11.c', fkey(ad, 'block in order'), not bad, 'the new routes are inserted as one block in their own order (%s)' % verdicts[0][1] if not bad else
                  'add() does not insert the new routes contiguously in their own order: %s' % bad[0], app, st)
    rep_guard(requested_index)
    rep_guard(rep.floor, 'R11.c', 3)

    # ---- R11.d -----------------------------------------------------------
    def r11d():
        seen = set()
        # the inventory names a writer by the module it was frozen in; the writer is the *function*, wherever in the
        # package its definition now lives: the definition the inventoried name still resolves to (moved into another
        # module and imported back), else the only function of that qualified name left in the package once the
        # inventoried module no longer defines it.  A second function of that name, or the same state written by a
        # function of any other name, matches nothing and is reported.
        inventory, lives = {}, {}
        skipped = lambda name: '.contrib' in name or name.endswith('cline') or '_werkzeug_serving' in name
        for (gm, gq, gg), why in GLOBAL_WRITERS.items():
            try:
                home = repo.mod(gm)
            except AnalysisError:
                home = None
            if home is not None and gq in home.functions:
                inventory[(gm, gq, gg)] = why
                continue
            now = None
            if home is not None:
                try:
                    now = home.func(gq)
                except AnalysisError:
                    now = None
            if now is None:
                cands = [m2.functions[gq] for m2 in repo.all_internal_modules() if not skipped(m2.name) and gq in m2.functions]
                if len(cands) == 1:
                    now = cands[0]
            if now is not None and not now.mod.external:
                lives[(gm, gq)] = now
                inventory[(now.mod.name, now.qualname, gg)] = '%s (the writer %s::%s, now defined in %s)' % (why, gm, gq, now.mod.name)
            else:
                inventory[(gm, gq, gg)] = why
        for m in repo.all_internal_modules():
            if '.contrib' in m.name or m.name.endswith('cline') or '_werkzeug_serving' in m.name:
                continue
            mod_globals = set(m.assigns) | set(m.imports)
            for fi in m.functions.values():
                declared = set()
                for n in walk_body(fi.node):
                    if isinstance(n, ast.Global):
                        declared.update(n.names)
                locals_ = set(fi.params())
                for n in walk_body(fi.node):
                    if isinstance(n, ast.Name) and isinstance(n.ctx, ast.Store) and n.id not in declared:
                        locals_.add(n.id)
                # enclosing function locals (closures)
                outer_locals = set()
                parts = fi.qualname.split('.')
                for i in range(1, len(parts)):
                    o = m.functions.get('.'.join(parts[:i]))
                    if o is not None:
                        outer_locals |= set(o.params())
                        for n in walk_body(o.node):
                            if isinstance(n, ast.Name) and isinstance(n.ctx, ast.Store):
                                outer_locals.add(n.id)
                writes = []
                for e in effects.effects_in(fi.node):
                    r = e.root
                    if r is None or r in locals_ or r in ('self', 'cls'):
                        continue
                    if r in outer_locals and r not in declared:
                        if (m.name, fi.qualname, r) in inventory:
                            writes.append((r, e.node))
                        continue
                    if r in mod_globals or r in declared:
                        writes.append((r, e.node))
                for n in walk_body(fi.node):
                    if isinstance(n, ast.Name) and isinstance(n.ctx, ast.Store) and n.id in declared:
                        writes.append((n.id, n))
                for g, node in writes:
                    k = (m.name, fi.qualname, g)
                    if k in seen:
                        continue
                    seen.add(k)
                    ok = k in inventory
                    via = None
                    if not ok:
                        # a private helper reachable only from an inventoried writer of the same object writes on its behalf
                        for (gm, gq, gg), why in inventory.items():
                            if gm == m.name and gg == g and fi.key in hc.closure({'%s::%s' % (gm, gq)}) and \
                                    any(f2.key == '%s::%s' % (gm, gq) for f2 in m.functions.values()):
                                ok, via = True, '%s (through its helper %s)' % (why, fi.qualname)
                    rep.check('R11.d', 'global-writer::%s::%s::%s' % k, ok, 'inventoried: ' + (via or inventory.get(k, '')) if ok else
                              '%s writes module-level state %s, which is not in the inventory: applications in one process would '
                              'share it' % (fi.key, g), m, node)
        for modname, q in sorted(IMPORT_ONLY):
            m = repo.mod(modname)
            sites = []
            for mm_ in repo.all_internal_modules():
                for n in ast.walk(mm_.tree):
                    if isinstance(n, ast.Call) and call_name(n) == q:
                        sites.append((mm_, n, mm_.enclosing_function(n)))
            ok = bool(sites) and all(fn is None and mm_ is m for mm_, n, fn in sites)
            rep.check('R11.d', '%s::%s called at import only' % (modname, q), ok, '%s runs at import time only' % q if ok else
                      '%s (writes module-level tables) is called from a function: %s' % (q, [(mm_.relpath, n.lineno) for mm_, n, fn in sites if fn]), m)
        cc = lives.get((SINTER, 'compile_code')) or sinter.func('compile_code')
        cfl = Flow(cc)
        st_ = [s for s in stmts_of(cc.node) if isinstance(s, ast.Assign) and norm(s.targets[0]).startswith('linecache.cache[')]

        def from_source(e, at, depth=0):
            """mentions the generated text, directly or through named temporaries"""
            for n in ast.walk(e):
                if isinstance(n, ast.Name) and isinstance(n.ctx, ast.Load):
                    if n.id == cc.params()[0]:
                        return True
                    d = cfl.single_def(n.id, at) if depth < 6 else None
                    if d is not None and from_source(d.value, d.stmt, depth + 1):
                        return True
            return False

        def hashed(e, at, depth=0):
            """the expression is built from a hashlib digest of the generated text (through named temporaries)"""
            for n in ast.walk(e):
                if isinstance(n, ast.Call) and norm(n.func).startswith('hashlib.') and any(from_source(a, at) for a in n.args):
                    return True
                if isinstance(n, ast.Name) and isinstance(n.ctx, ast.Load) and depth < 6:
                    d = cfl.single_def(n.id, at)
                    if d is not None and hashed(d.value, d.stmt, depth + 1):
                        return True
            return False
        ok = len(st_) == 1 and hashed(st_[0].targets[0].slice, st_[0])
        rep.check('R11.d', fkey(cc, 'linecache key'), ok, 'the only process-wide cache entry is keyed by a hash of the generated text' if ok else
                  'linecache.cache key does not derive from a content hash of the generated code', cc.mod, cc.node)
        # the request-id counter: advanced by _dispatch_wsgi, directly or through private helpers that nothing else
        # refers to (helpers the front-end dissolved into _dispatch_wsgi are left behind unreferenced)
        main = 'clastic.application::Application._dispatch_wsgi'
        adv = []
        for m in repo.all_internal_modules():
            for fi in m.functions.values():
                for c in walk_body(fi.node):
                    if isinstance(c, ast.Call) and call_name(c) == 'next' and c.args and norm(c.args[0]) == '_REQ_ID_ITER':
                        if fi not in adv:
                            adv.append(fi)

        accepted = hc.closure({main})
        keys = [fi.key for fi in adv]
        ok = bool(adv) and all(k in accepted for k in keys) and \
            (main in keys or any(hc.referred_from(fi, main) for fi in adv))
        rep.check('R11.d', 'clastic::_REQ_ID_ITER advanced', ok, 'the request-id counter is advanced in _dispatch_wsgi only' if ok else
                  'the request-id counter is advanced at %s' % keys, app)
        dp = repo.mod('clastic.meta').func('MetaApplication.__init__')
        dfl = Flow(dp)
        lv = dfl.leaves(ast.parse('self.peripherals', mode='eval').body, 'exit') if dfl.defs.get('self.peripherals') else []
        ok = bool(lv) and all(fresh_container(dfl, dp, l, repo) for l in lv)
        rep.check('R11.d', fkey(dp, 'DEFAULT_PERIPHERALS copied'), ok, 'the shared default peripheral list is copied per MetaApplication' if ok else
                  'MetaApplication extends the shared DEFAULT_PERIPHERALS list in place', repo.mod('clastic.meta'), dp.node)
    rep_guard(r11d)
    rep_guard(rep.floor, 'R11.d', 8)

    # ---- R11.e -----------------------------------------------------------
    def rebinding_composes():
        bi = route.func('BoundRoute.__init__')
        check_rebinding_composes(rep, repo, route, bi)

    def rebinding_sites():
        check_rebinding_sites(rep, repo, app, route)
    def rebinding_choice():
        check_rebinding_choice(rep, repo, route, route.func('BoundRoute.__init__'))
    rep_guard(rebinding_composes)
    rep_guard(rebinding_sites)
    rep_guard(rebinding_choice)
    rep_guard(rep.floor, 'R11.e', 8)

    # ---- R11.f -----------------------------------------------------------
    def declared_sources_offered():
        check_declared_sources_offered(rep, repo, route, route.func('BoundRoute.__init__'))
    rep_guard(declared_sources_offered)
    rep_guard(rep.floor, 'R11.f', 2)
