"""Shared view of Application.dispatch for C06 / C07 / C08 / C12: the loop, its roles, its CFG."""
import ast

from ..core import AnalysisError, norm, short
from .common import cfg_of, conds, has_cond, stmts_of, walk_body, call_tail, call_name, stmt_of

APP = 'clastic.application'
ROUTE = 'clastic.route'


class DispatchView(object):
    def __init__(self, repo):
        self.repo = repo
        self.app = repo.mod(APP)
        self.fi = self.app.func('Application.dispatch')
        self.cfg = cfg_of(self.fi)
        f = self.fi.node
        loops = [s for s in stmts_of(f) if isinstance(s, ast.For) and 'routes' in norm(s.iter)]
        if len(loops) != 1:
            raise AnalysisError('Application.dispatch: the single loop over routes was not found')
        self.loop = loops[0]
        self.route_var = norm(self.loop.target)
        self.head = self.cfg.nodes_of(self.loop)
        self.iter_nodes = [n.id for n in self.cfg.nodes if n.kind == 'iter' and n.stmt is self.loop]
        self.exhaust_nodes = [n.id for n in self.cfg.nodes if n.kind == 'exhaust' and n.stmt is self.loop]
        rv = self.route_var

        def one(pred, what):
            xs = [s for s in stmts_of(f) if pred(s)]
            if len(xs) != 1:
                raise AnalysisError('Application.dispatch: expected exactly one %s, found %d' % (what, len(xs)))
            return xs[0]
        self.match_st = one(lambda s: isinstance(s, ast.Assign) and isinstance(s.value, ast.Call)
                            and norm(s.value.func) == '%s.match_path' % rv, 'route.match_path assignment')
        self.pp_var = norm(self.match_st.targets[0])
        self.method_st = one(lambda s: isinstance(s, ast.Assign) and isinstance(s.value, ast.Call)
                             and norm(s.value.func) == '%s.match_method' % rv, 'route.match_method assignment')
        self.ma_var = norm(self.method_st.targets[0])
        self.exec_st = one(lambda s: isinstance(s, ast.Assign) and isinstance(s.value, ast.Call)
                           and norm(s.value.func) == '%s.execute' % rv, 'route.execute assignment')
        self.ret_var = norm(self.exec_st.targets[0])
        self.redirect_calls = [c for c in walk_body(f) if isinstance(c, ast.Call) and call_name(c) == 'redirect']
        ds = [s for s in stmts_of(f) if isinstance(s, ast.Assign) and isinstance(s.value, ast.Call) and call_name(s.value) == 'DispatchState']
        self.ds_var = norm(ds[0].targets[0]) if ds else 'dispatch_state'

    # predicates on condition tests
    def is_nomatch(self, t):
        return norm(t) == '%s is None' % self.pp_var

    def method_ok_conds(self, cs):
        """conditions say the method was admitted"""
        return has_cond(cs, lambda t: norm(t) == self.ma_var, True) or \
            has_cond(cs, lambda t: norm(t) == 'not %s' % self.ma_var, False)

    def matched_conds(self, cs):
        return has_cond(cs, self.is_nomatch, False) or has_cond(cs, lambda t: norm(t) == '%s is not None' % self.pp_var, True)

    def calls_stmt(self, tail, recv=None):
        out = []
        for c in walk_body(self.fi.node):
            if isinstance(c, ast.Call) and call_tail(c) == tail and (recv is None or norm(c.func.value) == recv):
                out.append(stmt_of(self.app, c))
        return out
