"""Shared view of Application.dispatch for C06 / C07 / C08 / C12: the loop, its roles, its CFG.

The roles (path match, method test, execute, redirect, dispatch state) are located by *what the code does* -- the
call ``<loop var>.match_path(..)``, the place where the result of ``<loop var>.match_method(..)`` is tested,
the statement binding ``<loop var>.execute(..)`` -- not by the shape of the statements around them.  Path
conditions are the CFG's ``conds_at`` plus *reaching-definition refinement* (``refine_conds``): a comparison on a
local that can only be true for one of the local's definitions implies that definition's own path conditions
and the comparison on the defining expression.
"""
import ast
import copy

from ..core import AnalysisError, norm, short
from ..astutil import names_stored, assigned_value
from .common import cfg_of, conds, has_cond, stmts_of, walk_body, call_tail, call_name, stmt_of

APP = 'clastic.application'
ROUTE = 'clastic.route'

_UNDECIDED = object()


def run_group(rep, fn, *args, **kw):
    """Run one group of rules.  "Could not analyse" (AnalysisError, or an unexpected exception inside the rule code) is
    recorded as an analysis gap of this group; the other groups still run and report."""
    try:
        return fn(*args, **kw)
    except AnalysisError as e:
        rep.gaps.append('%s: %s' % (getattr(fn, '__name__', 'rule group'), e))
    except Exception:
        import traceback
        rep.gaps.append('%s: internal error in checker: %s' % (getattr(fn, '__name__', 'rule group'), traceback.format_exc()[-400:]))
    return None


_DECLARATIVE = ('s', 'attrs', 'attributes', 'define', 'mutable', 'frozen', 'dataclass')
_FIELD_DECL = ('ib', 'attrib', 'attr', 'field')
_FACTORY_KW = ('factory', 'default_factory')


def _tail_name(e):
    if isinstance(e, ast.Call):
        e = e.func
    return e.attr if isinstance(e, ast.Attribute) else e.id if isinstance(e, ast.Name) else None


def initial_fields(repo, ci):
    """How every new instance of class ``ci`` gets its fields, read from the constructor or from the field declarations
    of a declarative class (attrs / dataclass decorator): {field: (kind, expr, node)} with kind

      'own'     ``expr`` is evaluated for every instance (``self.f = expr`` in __init__; a declared field with
                ``factory=F`` / ``default=Factory(F)`` stands for the call ``F()``; a ``@f.default`` method for what it returns)
      'shared'  ``expr`` is evaluated once, when the class is created, and every instance starts with that same object
                (``f = attr.ib(default=expr)``, a plain class attribute the constructor does not assign)
      'arg'     a declared field without default: the constructor's caller supplies it

    Raises AnalysisError when the class has neither a constructor in the analysed tree nor a declarative decorator."""
    out = {}
    for c in reversed([c for c in repo.mro(ci) if hasattr(c, 'class_attrs') and not c.mod.external]):
        declarative = any(_tail_name(d) in _DECLARATIVE for d in c.node.decorator_list)
        for name, val in c.class_attrs.items():
            if val is None:
                continue
            if declarative and isinstance(val, ast.Call) and _tail_name(val) in _FIELD_DECL:
                kws = dict((k.arg, k.value) for k in val.keywords if k.arg)
                fac = [kws[k] for k in _FACTORY_KW if k in kws]
                dflt = kws.get('default', val.args[0] if val.args and _tail_name(val) in ('ib', 'attrib', 'attr') else None)
                if fac:
                    out[name] = ('own', ast.copy_location(ast.Call(func=fac[0], args=[], keywords=[]), val), val)
                elif isinstance(dflt, ast.Call) and _tail_name(dflt) == 'Factory' and len(dflt.args) == 1 and not dflt.keywords:
                    out[name] = ('own', ast.copy_location(ast.Call(func=dflt.args[0], args=[], keywords=[]), val), val)
                elif dflt is not None:
                    out[name] = ('shared', dflt, val)
                else:
                    out[name] = ('arg', None, val)
            elif isinstance(val, ast.expr):
                out[name] = ('shared', val, val)
        if declarative:
            # ``@<field>.default`` methods compute the default per instance
            for m in c.methods.values():
                for d in m.node.decorator_list:
                    if isinstance(d, ast.Attribute) and d.attr == 'default' and isinstance(d.value, ast.Name) and d.value.id in out:
                        rs = [r for r in ast.walk(m.node) if isinstance(r, ast.Return)]
                        if len(rs) == 1 and rs[0].value is not None:
                            out[d.value.id] = ('own', rs[0].value, m.node)
    init = repo.find_method(ci, '__init__')
    if init is not None and not init.mod.external:
        selfname = (init.params() or ['self'])[0]
        for s in stmts_of(init.node):
            if isinstance(s, ast.Assign):
                for t in s.targets:
                    if isinstance(t, ast.Attribute) and isinstance(t.value, ast.Name) and t.value.id == selfname:
                        out[t.attr] = ('own', s.value, s)
    elif not any(_tail_name(d) in _DECLARATIVE for c in repo.mro(ci) if hasattr(c, 'node') and not c.mod.external for d in c.node.decorator_list):
        raise AnalysisError('%s: neither a constructor nor declared fields found' % ci.name)
    return out


def none_test(t, name):
    """``name is None`` / ``None is name`` / ``name == None`` -> 'is'; the negated comparisons -> 'isnot'; else None."""
    if isinstance(t, ast.Compare) and len(t.ops) == 1:
        a, b = t.left, t.comparators[0]
        if isinstance(a, ast.Constant) and a.value is None:
            a, b = b, a
        if norm(a) == name and isinstance(b, ast.Constant) and b.value is None:
            if isinstance(t.ops[0], (ast.Is, ast.Eq)):
                return 'is'
            if isinstance(t.ops[0], (ast.IsNot, ast.NotEq)):
                return 'isnot'
    return None


def strip_not(t, p=True):
    while isinstance(t, ast.UnaryOp) and isinstance(t.op, ast.Not):
        t, p = t.operand, not p
    return t, p


def _is_simple_value(e):
    if isinstance(e, (ast.Name, ast.Constant)):
        return True
    if isinstance(e, ast.Attribute):
        return _is_simple_value(e.value)
    return False


def resolve_local(fnode, e, depth=0):
    """Follow a local of ``fnode`` that has exactly one binding, a plain assignment (tuple unpacking of a tuple display
    included), to the expression it names; parameters and re-bound locals are left as they are."""
    a = fnode.args
    params = set(x.arg for x in a.posonlyargs + a.args + a.kwonlyargs) | set(x.arg for x in (a.vararg, a.kwarg) if x)
    while isinstance(e, ast.Name) and depth < 6:
        av = assigned_value(fnode, e.id)
        if len(av) != 1 or e.id in params:
            break
        st, val, idx = av[0]
        if not isinstance(st, ast.Assign):
            break
        if idx is None:
            nxt = val
        elif isinstance(idx, int) and isinstance(val, (ast.Tuple, ast.List)) and len(val.elts) > idx and \
                not any(isinstance(x, ast.Starred) for x in val.elts):
            nxt = val.elts[idx]
        else:
            break
        e = nxt
        depth += 1
    return e


class Defs(object):
    """Definitions of the plain locals of one function, on its CFG."""

    def __init__(self, cfg, fnode):
        self.cfg, self.fnode = cfg, fnode
        a = fnode.args
        self.params = set(x.arg for x in a.posonlyargs + a.args + a.kwonlyargs)
        if a.vararg:
            self.params.add(a.vararg.arg)
        if a.kwarg:
            self.params.add(a.kwarg.arg)
        self._cache = {}
        self._vals = {}

    def value_of(self, name, st):
        """the expression definition ``st`` binds to ``name`` (the matching element of ``a, b = x, y``)"""
        return self._vals.get((name, id(st)), getattr(st, 'value', None))

    @staticmethod
    def _display_element(st, name):
        """``a, b = x, y`` (displays of the same length, plain names, no star): the element bound to ``name``, else None"""
        if not (isinstance(st, ast.Assign) and len(st.targets) == 1 and isinstance(st.targets[0], (ast.Tuple, ast.List)) and
                isinstance(st.value, (ast.Tuple, ast.List)) and len(st.targets[0].elts) == len(st.value.elts)):
            return None
        if any(not isinstance(e, ast.Name) for e in st.targets[0].elts) or any(isinstance(e, ast.Starred) for e in st.value.elts):
            return None
        hits = [v for e, v in zip(st.targets[0].elts, st.value.elts) if e.id == name]
        # (the right-hand side is evaluated before any target is bound: it must not read the targets)
        if len(hits) != 1 or names_stored(st.targets[0]) & set(n.id for n in ast.walk(st.value) if isinstance(n, ast.Name)):
            return None
        return hits[0]

    def of(self, name):
        """([(stmt, [node ids])], clean).  ``clean`` is False when the local is (also) bound by something that is not a
        plain ``name = value`` statement (parameter, loop target, unpacking, ``as``, walrus, augmented assignment)."""
        if name in self._cache:
            return self._cache[name]
        cfg = self.cfg
        by_stmt, order = {}, []
        clean = name not in self.params
        for nd in cfg.nodes:
            st = nd.stmt
            if nd.kind == 'handler':
                if nd.handler is not None and nd.handler.name == name:
                    clean = False
                continue
            if st is None or nd.kind not in ('stmt', 'head'):
                continue
            if nd.kind == 'head':
                if isinstance(st, (ast.For, ast.AsyncFor)):
                    stored = names_stored(st.target) | names_stored(st.iter)
                elif isinstance(st, (ast.With, ast.AsyncWith)):
                    stored = set()
                    for it in st.items:
                        stored |= names_stored(it.context_expr)
                        if it.optional_vars is not None:
                            stored |= names_stored(it.optional_vars)
                elif isinstance(st, (ast.If, ast.While)):
                    stored = names_stored(st.test)
                elif isinstance(st, ast.Match):
                    stored = names_stored(st)
                else:
                    stored = set()
                if name in stored:
                    clean = False
                continue
            if isinstance(st, (ast.FunctionDef, ast.AsyncFunctionDef, ast.ClassDef)):
                if st.name == name:
                    clean = False
                continue
            if isinstance(st, (ast.Import, ast.ImportFrom)):
                if any((a_.asname or a_.name).split('.')[0] == name for a_ in st.names):
                    clean = False
                continue
            if isinstance(st, ast.Assign) and len(st.targets) == 1 and isinstance(st.targets[0], ast.Name) and \
                    st.targets[0].id == name and name not in names_stored(st.value):
                if id(st) not in by_stmt:
                    by_stmt[id(st)] = (st, [])
                    order.append(id(st))
                by_stmt[id(st)][1].append(nd.id)
            elif self._display_element(st, name) is not None:
                self._vals[(name, id(st))] = self._display_element(st, name)
                if id(st) not in by_stmt:
                    by_stmt[id(st)] = (st, [])
                    order.append(id(st))
                by_stmt[id(st)][1].append(nd.id)
            elif name in names_stored(st):
                clean = False
        res = ([by_stmt[k] for k in order], clean)
        self._cache[name] = res
        return res

    def reaching(self, name, node):
        """Definitions of ``name`` that can be the most recent one when control is at ``node``:
        [(stmt, value, mid)] with ``mid`` = the nodes between that (last) execution of the definition and ``node``;
        None when the local is not cleanly defined."""
        ds, clean = self.of(name)
        if not clean or not ds:
            return None
        cfg = self.cfg
        all_ids = set(i for _, ids in ds for i in ids)
        out = []
        for st, ids in ds:
            after = [m for i in ids for m in cfg.succ[i] if (i, m) not in cfg.exc_edges]
            fwd = cfg.reach(after, avoid=all_ids - {node})
            if node not in fwd:
                continue
            mid = (fwd & cfg.coreach([node], avoid=all_ids - {node})) - {node}
            out.append((st, self.value_of(name, st), mid))
        return out


def _static_compare(val, other, op, fold, ident=None):
    """Outcome of ``val <op> other`` when it can be told from the two expressions alone, else _UNDECIDED.
    ``ident(e)``: a token naming the object ``e`` denotes when that is one fixed object of the module (a function / class
    defined once at module level, None), else None -- two different tokens are two different objects."""
    eq = isinstance(op, (ast.Eq, ast.Is))
    if not isinstance(op, (ast.Eq, ast.Is, ast.NotEq, ast.IsNot)):
        return _UNDECIDED
    if ident is not None:
        ia, ib = ident(val), ident(other)
        if ia is not None and ib is not None:
            kinds = set([ia[0], ib[0]])
            if kinds == {'def'} or kinds == {'const'}:
                return (ia == ib) if eq else (ia != ib)      # (a function object equals only itself)
            if kinds in ({'def', 'const'}, {'obj', 'const'}):
                return not eq                                  # a function / the result of a never-None call is not None
    if _is_simple_value(val) and not isinstance(val, ast.Constant) and norm(val) == norm(other):
        return eq
    if _is_simple_value(val) and not isinstance(val, ast.Constant):
        # a named constant (``outcome = _REDIRECT`` ... ``outcome == _NOT_FOUND``): compare by its folded value
        c1 = fold(val)
        if c1 is not _UNDECIDED and (c1 is None or type(c1) in (str, int, bool, bytes)):
            val = ast.copy_location(ast.Constant(value=c1), val)
    if isinstance(val, ast.Constant):
        c2 = other.value if isinstance(other, ast.Constant) else fold(other)
        if c2 is _UNDECIDED:
            return _UNDECIDED
        c1 = val.value
        if isinstance(op, (ast.Is, ast.IsNot)) and not (c1 is None or c2 is None):
            return _UNDECIDED
        if c1 is None or c2 is None:
            same = c1 is None and c2 is None
        elif type(c1) in (str, int, bool, bytes) and type(c2) in (str, int, bool, bytes):
            same = c1 == c2
        else:
            return _UNDECIDED
        return same if eq else not same
    return _UNDECIDED


def _between_conds(cfg, defs, name, st, node):
    """Conditions that hold at ``node`` because definition ``st`` of local ``name`` is the current one there: the
    branches every way from the definition to ``node`` takes (no other definition of the local in between), last
    evaluated with that outcome, nothing re-binding what the test reads afterwards.  (``x = f(); if bad(x): x = None`` ...
    at a point where x is known to be the f() value, ``bad(x)`` was false.)"""
    from ..cfg import expand_conds
    ds, clean = defs.of(name)
    if not clean:
        return []
    stop = set(i for _, ids in ds for i in ids) - {node}
    after = [m for i in cfg.nodes_of(st) for m in cfg.succ[i] if (i, m) not in cfg.exc_edges]
    fwd = cfg.reach(after, avoid=stop)
    if node not in fwd:
        return []
    back = cfg.coreach([node], avoid=stop)
    region = fwd & back
    out, seen = [], set()
    for b in sorted(region):
        nd = cfg.nodes[b]
        if nd.kind != 'branch' or id(nd.test) in seen:
            continue
        seen.add(id(nd.test))
        for pol in (True, False):
            bs = set(x for x in cfg.branch_nodes(nd.test, pol) if x in region)
            nbs = [x for x in cfg.branch_nodes(nd.test, not pol) if x in fwd]
            if not bs or node in bs:
                continue
            if node in cfg.reach(after, avoid=stop | bs) or node in cfg.reach(nbs, avoid=stop | bs):
                continue
            mid = (cfg.reach(list(bs), avoid=stop) & back) - {node} - bs
            if cfg._kills(nd.test, mid):
                continue
            out.append((nd.test, pol))
    return expand_conds(out)


def refine_conds(cfg, defs, node, cs, fold, rounds=4, ident=None, _depth=0):
    """Reaching-definition refinement of path conditions.

    For a condition ``v <op> e`` (== / != / is / is not, v a plain local) known with polarity p at ``node``: every
    definition ``v = val`` that may reach ``node`` and for which ``val <op> e`` is statically the opposite of p is
    ruled out (``canonical = url_path ... canonical == url_path`` is not False; ``mode = None ... mode == S_REDIRECT``
    is not True) -- for every known condition on that local.  If exactly one definition remains, the conditions under
    which that definition runs hold at ``node`` too, so do the outcomes of the branches between the definition and
    ``node`` that every way takes, and so does each known comparison with the defining expression in place of the
    local -- provided nothing in between re-binds a name those expressions read.

    Likewise for a plain local known to be true / false (``fix = False ... fix = a != b ... if fix and ..:``): a definition
    binding a constant of the other truth is ruled out; when one definition remains, its expression has that truth --
    what that says is worked out where the definition stands and carried over to ``node``."""
    from ..cfg import expand_conds
    out = list(cs)
    known = set((norm(t), p) for t, p in out)
    ruled, done = {}, set()
    for _ in range(rounds + 2):
        comps = []
        for t, p in out:
            t, p = strip_not(t, p)
            if not (isinstance(t, ast.Compare) and len(t.ops) == 1 and isinstance(t.ops[0], (ast.Eq, ast.NotEq, ast.Is, ast.IsNot))):
                continue
            for side, other, which in ((t.left, t.comparators[0], 'l'), (t.comparators[0], t.left, 'r')):
                if isinstance(side, ast.Name):
                    comps.append((t, p, side, other, which))
        # (a plain local tested for truth: ``flag = False`` ... ``flag = a != b`` ... ``if flag and ..:``)
        truths = []
        for t, p in out:
            t, p = strip_not(t, p)
            if isinstance(t, ast.Name):
                truths.append((t, p))
        # what is known rules out definitions ...
        for t, p in truths:
            for st, val, mid in defs.reaching(t.id, node) or ():
                if isinstance(val, ast.Constant) and bool(val.value) is not p:
                    ruled.setdefault(t.id, set()).add(id(st))
        for t, p, side, other, which in comps:
            rd = defs.reaching(side.id, node)
            if not rd:
                continue
            for st, val, mid in rd:
                if cfg._kills(val, mid) or cfg._kills(other, mid):
                    continue
                o = _static_compare(val, other, t.ops[0], fold, ident)
                if o is not _UNDECIDED and o is not p:
                    ruled.setdefault(side.id, set()).add(id(st))
        # ... and a local with a single definition left stands for that definition
        new = []
        for t, p, side, other, which in comps:
            key = (norm(t), p, side.id, which)
            if key in done:
                continue
            rd = defs.reaching(side.id, node)
            if not rd:
                continue
            keep = [d for d in rd if id(d[0]) not in ruled.get(side.id, ())]
            if len(keep) != 1:
                continue
            done.add(key)
            st, val, mid = keep[0]
            if not cfg._kills(val, mid):
                v2 = copy.deepcopy(val)
                sub = ast.Compare(left=v2 if which == 'l' else t.left, ops=[t.ops[0]],
                                  comparators=[t.comparators[0] if which == 'l' else v2])
                ast.copy_location(sub, t)
                ast.fix_missing_locations(sub)
                new.append((sub, p))
            for t2, p2 in cfg.conds_at_stmt(st):
                if not cfg._kills(t2, mid):
                    new.append((t2, p2))
            if len(rd) > 1:
                new.extend(_between_conds(cfg, defs, side.id, st, node))
        for t, p in truths:
            key = (t.id, p, 'truth')
            if key in done:
                continue
            rd = defs.reaching(t.id, node)
            if not rd:
                continue
            keep = [d for d in rd if id(d[0]) not in ruled.get(t.id, ())]
            if len(keep) != 1 or len(rd) < 2:
                continue          # (a local with one definition is expanded by the CFG's own named conditions)
            done.add(key)
            st, val, mid = keep[0]
            # the definition that is left bound a value of that truth: what that says is worked out where the definition
            # stands (the locals its expression reads have their own definitions right there), then carried over to ``node``
            # as far as nothing in between re-binds a name it reads
            at_def = None
            for n_ in cfg.nodes_of(st):
                if not cfg.reachable(n_):
                    continue
                cs_ = cfg.conds_at(n_)
                if not isinstance(val, ast.Constant) and t.id not in set(x.id for x in ast.walk(val) if isinstance(x, ast.Name)):
                    cs_ = cs_ + expand_conds([(val, p)])
                if _depth < 2:
                    cs_ = refine_conds(cfg, defs, n_, cs_, fold, rounds, ident, _depth + 1)
                keyed = dict(((norm(t2), p2), (t2, p2)) for t2, p2 in cs_)
                at_def = keyed if at_def is None else dict((k, v) for k, v in at_def.items() if k in keyed)
            for t2, p2 in (at_def or {}).values():
                if not cfg._kills(t2, mid):
                    new.append((t2, p2))
            new.extend(_between_conds(cfg, defs, t.id, st, node))
        new = expand_conds(new)
        grew = False
        for t, p in new:
            k = (norm(t), p)
            if k not in known:
                known.add(k)
                out.append((t, p))
                grew = True
        if not grew:
            break
    return out


class DispatchView(object):
    def __init__(self, repo, multi_exec=False):
        self.repo = repo
        self.app = repo.mod(APP)
        self.fi = self.app.func('Application.dispatch')
        self.cfg = cfg_of(self.fi)
        self.defs = Defs(self.cfg, self.fi.node)
        self._bc = {}
        self._locals = None
        f = self.fi.node
        ps = self.fi.params()
        self.request = ps[1] if len(ps) > 1 else 'request'
        loops = [s for s in stmts_of(f) if isinstance(s, ast.For) and 'routes' in norm(self.resolve(s.iter))]
        if len(loops) != 1:
            raise AnalysisError('Application.dispatch: the single loop over routes was not found')
        self.loop = loops[0]
        if not isinstance(self.loop.target, ast.Name):
            raise AnalysisError('Application.dispatch: the route loop does not bind a plain loop variable')
        self.route_var = norm(self.loop.target)
        self.iter_expr = self.resolve(self.loop.iter)
        self.head = self.cfg.nodes_of(self.loop)
        self.iter_nodes = [n.id for n in self.cfg.nodes if n.kind == 'iter' and n.stmt is self.loop]
        self.exhaust_nodes = [n.id for n in self.cfg.nodes if n.kind == 'exhaust' and n.stmt is self.loop]
        rv = self.route_var

        def one_call(attr, what):
            xs = [c for c in walk_body(f) if isinstance(c, ast.Call) and norm(c.func) == '%s.%s' % (rv, attr)]
            if len(xs) != 1:
                raise AnalysisError('Application.dispatch: expected exactly one %s, found %d' % (what, len(xs)))
            return xs[0]

        def bound_name(call, what):
            st = stmt_of(self.app, call)
            if not (isinstance(st, ast.Assign) and st.value is call and len(st.targets) == 1 and isinstance(st.targets[0], ast.Name)):
                raise AnalysisError('Application.dispatch: the result of %s is not bound to a local' % what)
            return st, st.targets[0].id
        self.match_call = one_call('match_path', 'route.match_path call')
        self.match_st, self.pp_var = bound_name(self.match_call, 'route.match_path(...)')
        # every ``<receiver>.execute(...)`` of dispatch runs a route (the receiver need not be the loop variable: the null route
        # may be run by name after the loop).  "The" call is the one on the loop variable inside the loop body; a caller that
        # judges every call site by itself (multi_exec) finds the others in ``extra_exec``, everybody else is told that
        # the shape is not the one it knows.
        execs = [c for c in walk_body(f) if isinstance(c, ast.Call) and isinstance(c.func, ast.Attribute) and c.func.attr == 'execute']
        on_var = [c for c in execs if norm(c.func) == '%s.execute' % rv]
        if len(on_var) > 1:
            in_body = set(id(n) for s in self.loop.body for n in ast.walk(s))
            on_var = [c for c in on_var if id(c) in in_body]
        if len(on_var) != 1 or (len(execs) != 1 and not multi_exec):
            raise AnalysisError('Application.dispatch: expected exactly one route.execute call, found %d' % len(execs))
        self.exec_call = on_var[0]
        self.extra_exec = [c for c in execs if c is not self.exec_call]
        self.exec_st, self.ret_var = bound_name(self.exec_call, 'route.execute(...)')
        # the method test: usually one call; when there are several, the one whose outcome guards execute is "the" test,
        # the others are still recognised as method tests by the predicates below
        self.method_calls = [c for c in walk_body(f) if isinstance(c, ast.Call) and norm(c.func) == '%s.match_method' % rv]
        if not self.method_calls:
            raise AnalysisError('Application.dispatch: expected a route.match_method call, found none')
        self._mvars = {}
        for c in self.method_calls:
            st = stmt_of(self.app, c)
            if isinstance(st, ast.Assign) and st.value is c and len(st.targets) == 1 and isinstance(st.targets[0], ast.Name):
                ds_, clean = self.defs.of(st.targets[0].id)
                if not clean or len(ds_) != 1:
                    raise AnalysisError('Application.dispatch: the local holding the result of route.match_method is re-bound')
                self._mvars[st.targets[0].id] = c
            # otherwise the call is part of a larger expression (``if not route.match_method(m):``, ``refused = not
            # route.match_method(m)``): conditions on that expression are recognised by its text
        self.method_call = self.method_calls[0]
        if len(self.method_calls) > 1:
            for t_, p_ in self.cfg.conds_at_stmt(self.exec_st):
                if p_ is True and self.is_method_test(t_):
                    self.method_call = self._mvars.get(t_.id) if isinstance(t_, ast.Name) else \
                        [c for c in self.method_calls if c is t_ or norm(c) == norm(t_)][0]
                    break
        self.method_st = stmt_of(self.app, self.method_call)
        self.ma_var = ([k for k, v in self._mvars.items() if v is self.method_call] or [None])[0]
        self.redirect_calls = [c for c in walk_body(f) if isinstance(c, ast.Call) and call_name(c) == 'redirect']
        ds = [s for s in stmts_of(f) if isinstance(s, ast.Assign) and isinstance(s.value, ast.Call) and call_name(s.value) == 'DispatchState']
        self.ds_var = norm(ds[0].targets[0]) if ds else 'dispatch_state'

    @staticmethod
    def _within(node, root):
        return any(n is node for n in ast.walk(root))

    # -- data flow ---------------------------------------------------------------------------------------
    def resolve(self, e, depth=0):
        """Follow a local that has exactly one definition to the defining expression (tuple unpacking included)."""
        return resolve_local(self.fi.node, e, depth)

    def is_request_attr(self, e, attr):
        """``e`` is request.<attr> (directly or through single-definition locals)."""
        return norm(self.resolve(e)) == '%s.%s' % (self.request, attr)

    def is_route_attr(self, t, attr):
        """``t`` is <route>.<attr> of the route being tried: spelled out, or a local read once per iteration -- bound exactly
        once in dispatch, by a plain ``name = <route>.<attr>`` that is a statement of the loop body itself (so it is run in
        every iteration, after the loop bound the route), and read in a later statement of that body (never a value left
        over from the previous route)."""
        want = '%s.%s' % (self.route_var, attr)
        if norm(t) == want:
            return True
        if isinstance(t, ast.Name) and isinstance(t.ctx, ast.Load):
            av = assigned_value(self.fi.node, t.id)
            if len(av) == 1 and isinstance(av[0][0], ast.Assign) and av[0][2] is None and av[0][1] is not None and norm(av[0][1]) == want \
                    and len(av[0][0].targets) == 1:
                body = self.loop.body
                at = [i for i, s in enumerate(body) if s is av[0][0]]
                if not at:
                    return False
                later = set(id(n) for s in body[at[0] + 1:] for n in ast.walk(s))
                # (every read of the local in dispatch is such a later read: conditions may reach here as copies)
                return all(id(n) in later for n in ast.walk(self.fi.node)
                           if isinstance(n, ast.Name) and n.id == t.id and isinstance(n.ctx, ast.Load))
        return False

    def fold(self, e):
        """value of a module-level constant expression; locals of dispatch are never folded (a local may shadow a constant)"""
        if self._locals is None:
            self._locals = set(n.id for n in walk_body(self.fi.node) if isinstance(n, ast.Name) and isinstance(n.ctx, (ast.Store, ast.Del))) | \
                set(self.defs.params)
        if any(isinstance(n, ast.Name) and n.id in self._locals for n in ast.walk(e)):
            return _UNDECIDED
        v = self.repo.try_fold(e, self.app, _UNDECIDED)
        return v

    def never_none(self, call):
        """The call names a function of the analysed tree (clastic or the pinned third-party source) that cannot return
        None: every way through it ends in ``return <local>`` after an attribute of that local was read or written (which
        raises on None), the local bound once."""
        if not (isinstance(call, ast.Call) and isinstance(call.func, ast.Name)):
            return False
        cache = self.__dict__.setdefault('_never_none', {})
        if call.func.id in cache:
            return cache[call.func.id]
        cache[call.func.id] = res = False
        try:
            kind, m, fi = self.repo.resolve(self.app, call.func.id)
            if kind == 'func' and fi is not None and not any(isinstance(n, (ast.Yield, ast.YieldFrom)) for n in walk_body(fi.node)):
                c = cfg_of(fi)
                rets = [s_ for s_ in stmts_of(fi.node) if isinstance(s_, ast.Return)]
                res = bool(rets) and c.must_pass(c.nodes_of_all(rets), c.entry, c.exit, normal_only=True)
                for r in rets:
                    v = r.value
                    if not isinstance(v, ast.Name) or len(assigned_value(fi.node, v.id)) != 1 or v.id in fi.params():
                        res = False
                        break
                    derefs = [s_ for s_ in stmts_of(fi.node) if not isinstance(s_, (ast.If, ast.For, ast.While, ast.Try, ast.With)) and
                              any(isinstance(n, ast.Attribute) and isinstance(n.value, ast.Name) and n.value.id == v.id for n in ast.walk(s_))]
                    if not derefs or not c.must_pass(c.nodes_of_all(derefs), c.entry, c.nodes_of(r)):
                        res = False
                        break
        except Exception:
            res = False
        cache[call.func.id] = res
        return res

    def ident(self, e):
        """('def', name) for a name that denotes one fixed function / class of the module (defined once at module level,
        never re-bound, not a local of dispatch); ('const', None) for None; ('obj', ..) for a call that cannot return None;
        else None"""
        if isinstance(e, ast.Constant) and e.value is None:
            return ('const', None)
        if isinstance(e, ast.Call):
            if self._locals is None:
                self.fold(e.func)
            if isinstance(e.func, ast.Name) and e.func.id not in self._locals and self.never_none(e):
                return ('obj', id(e))
            return None
        if not isinstance(e, ast.Name):
            return None
        if self._locals is None:
            self.fold(e)
        if e.id in self._locals:
            return None
        if getattr(self, '_top_defs', None) is None:
            counts = {}
            for n in ast.walk(self.app.tree):
                k = n.id if isinstance(n, ast.Name) and isinstance(n.ctx, (ast.Store, ast.Del)) else \
                    n.name if isinstance(n, (ast.FunctionDef, ast.AsyncFunctionDef, ast.ClassDef)) else \
                    n.arg if isinstance(n, ast.arg) else None
                if k is not None:
                    counts[k] = counts.get(k, 0) + 1
                if isinstance(n, (ast.Global, ast.Nonlocal)):
                    for x in n.names:
                        counts[x] = counts.get(x, 0) + 2
                if isinstance(n, ast.alias):
                    k2 = (n.asname or n.name).split('.')[0]
                    counts[k2] = counts.get(k2, 0) + 1
            self._top_defs = set(st.name for st in self.app.tree.body if isinstance(st, (ast.FunctionDef, ast.ClassDef)) and counts.get(st.name) == 1)
        return ('def', e.id) if e.id in self._top_defs else None

    # -- path sensitivity over tagged outcomes -------------------------------------------------------------
    def latest_defs_from(self, name, src_nodes, node, within=None):
        """Definitions of the plain local ``name`` that can be the most recent one when control arrives at ``node`` from
        one of ``src_nodes`` without passing a node of ``within`` (default: the loop header, i.e. in the same iteration):
        [(stmt, value)]; None when the local is not cleanly defined."""
        stop = set(self.head if within is None else within)
        ds, clean = self.defs.of(name)
        if not clean or not ds:
            return None
        cfg = self.cfg
        all_ids = set(i for _, ids in ds for i in ids)
        src_nodes = list(src_nodes)
        out, seen = [], set()
        after_src = [m for s_ in src_nodes for m in cfg.succ[s_]]
        undefined_since = cfg.reach(after_src, avoid=(all_ids | stop) - {node})
        if node in undefined_since or node in src_nodes:
            # no definition need lie between the source and the node: what was current at the source still is
            for s_ in src_nodes:
                if s_ in all_ids:
                    continue
                rd = self.defs.reaching(name, s_)
                if rd is None:
                    return None
                for st, val, mid in rd:
                    if id(st) not in seen:
                        seen.add(id(st))
                        out.append((st, val))
        from_src = cfg.reach(src_nodes, avoid=stop - set(src_nodes))
        for st, ids in ds:
            live = [i for i in ids if i in from_src]
            if not live:
                continue
            after = [m for i in live for m in cfg.succ[i] if (i, m) not in cfg.exc_edges]
            if node in cfg.reach(after, avoid=(all_ids | stop) - {node}) and id(st) not in seen:
                seen.add(id(st))
                out.append((st, self.defs.value_of(name, st)))
        return out

    def infeasible_branches(self, src_nodes):
        """Branch nodes that cannot be taken on the way from ``src_nodes`` to the next loop header (the rest of the
        same iteration; use the result only to prune searches that stop at the header): the branch's own test contains an
        (in)equality between a plain local and a constant, and every definition of the local that can be current
        there binds a constant deciding the comparison the other way (``outcome = _REDIRECT`` ... ``if outcome ==
        _NOT_FOUND``).  Only comparisons of folded constants are decided; everything else stays feasible."""
        from ..cfg import expand_conds
        cfg = self.cfg

        def const(e):
            if isinstance(e, ast.Constant):
                return e.value
            v = self.fold(e) if _is_simple_value(e) else _UNDECIDED
            return v if v is _UNDECIDED or v is None or type(v) in (str, int, bool, bytes) else _UNDECIDED
        out = set()
        src_nodes = list(src_nodes)
        reach = cfg.reach(src_nodes, avoid=set(self.head) - set(src_nodes))
        for nd in cfg.nodes:
            if nd.kind != 'branch' or nd.id not in reach:
                continue
            for t, p in expand_conds([(nd.test, nd.pol)]):
                if not (isinstance(t, ast.Compare) and len(t.ops) == 1 and isinstance(t.ops[0], (ast.Eq, ast.NotEq, ast.Is, ast.IsNot))):
                    continue
                for side, other in ((t.left, t.comparators[0]), (t.comparators[0], t.left)):
                    if not isinstance(side, ast.Name):
                        continue
                    c2 = const(other)
                    if isinstance(t.ops[0], (ast.Is, ast.IsNot)):
                        # identity with None / a module-level function: decided from the definitions' expressions
                        cands = self.latest_defs_from(side.id, src_nodes, nd.id) if self.ident(other) is not None else None
                        if cands and all(_static_compare(val, other, t.ops[0], self.fold, self.ident) is (not p) for st, val in cands):
                            out.add(nd.id)
                        continue
                    if c2 is _UNDECIDED:
                        continue
                    cands = self.latest_defs_from(side.id, src_nodes, nd.id)
                    if not cands:
                        continue
                    decided = [_static_compare(val, other, t.ops[0], self.fold, self.ident) for st, val in cands]
                    if all(o is not _UNDECIDED and o is (not p) for o in decided):
                        out.add(nd.id)
                        continue
                    outcomes = []
                    for st, val in cands:
                        c1 = const(val)
                        if c1 is _UNDECIDED or (c1 is not None and c2 is not None and type(c1) is not type(c2) and not
                                                (isinstance(c1, (int, bool)) and isinstance(c2, (int, bool)))):
                            outcomes.append(None)
                        else:
                            outcomes.append((c1 == c2) is isinstance(t.ops[0], ast.Eq))
                    if all(o is (not p) for o in outcomes):
                        out.add(nd.id)
        return out

    # -- boolean flags -------------------------------------------------------------------------------------
    def flag_names(self):
        """Plain locals of dispatch that are bound only by ``name = True`` / ``name = False`` statements (the shape a
        predicate with several ``return True`` / ``return False`` exits takes once it is inlined, or a hand-written flag)."""
        if getattr(self, '_flags', None) is None:
            self._flags = set()
            names = set(n.id for n in walk_body(self.fi.node) if isinstance(n, ast.Name) and isinstance(n.ctx, ast.Store))
            for name in names:
                ds, clean = self.defs.of(name)
                if clean and ds and all(isinstance(self.defs.value_of(name, st), ast.Constant) and
                                        isinstance(self.defs.value_of(name, st).value, bool) for st, ids in ds):
                    self._flags.add(name)
        return self._flags

    def reach_f(self, srcs, avoid=(), include_src=True, normal_only=False):
        """``cfg.reach`` that does not take a branch contradicting the value a boolean flag is known to have: ways through
        ``flag = True`` ... ``if flag:`` continue on the true side only.  The value of each flag (true / false / not known)
        is carried along every way; it is not known at the sources, set by the flag's bindings and learnt from the
        branches taken on the flag.  Without flags this is ``cfg.reach``."""
        from ..cfg import expand_conds
        cfg, flags = self.cfg, self.flag_names()
        if not flags:
            return cfg.reach(srcs, avoid=avoid, include_src=include_src, normal_only=normal_only)
        avoid = set(avoid)
        binds, tests = {}, {}
        for nd in cfg.nodes:
            if nd.kind == 'stmt' and isinstance(nd.stmt, ast.Assign):
                for name in flags:
                    v = self.defs.value_of(name, nd.stmt) if any(name in names_stored(t) for t in nd.stmt.targets) else None
                    if isinstance(v, ast.Constant):
                        binds.setdefault(nd.id, []).append((name, bool(v.value)))
            elif nd.kind == 'branch':
                for t, p in expand_conds([(nd.test, nd.pol)]):
                    if isinstance(t, ast.Name) and t.id in flags:
                        tests.setdefault(nd.id, []).append((t.id, p))

        def enter(m, env):
            """the flag values after node ``m`` ran, None when ``m`` cannot be entered with ``env``"""
            if m in tests:
                env = dict(env)
                for name, p in tests[m]:
                    if env.get(name, p) is not p:
                        return None
                    env[name] = p
                return frozenset(env.items())
            if m in binds:
                env = dict(env)
                env.update(binds[m])
                return frozenset(env.items())
            return env if isinstance(env, frozenset) else frozenset(env.items())
        seen_states, seen = set(), set()
        todo = []
        for s_ in srcs:
            if s_ in avoid:
                continue
            e0 = frozenset(binds.get(s_, []) + tests.get(s_, []))
            todo.append((s_, e0))
            seen_states.add((s_, e0))
            if include_src:
                seen.add(s_)
        while todo:
            n, env = todo.pop()
            for m in cfg.succ[n]:
                if m in avoid:
                    continue
                if normal_only and (n, m) in cfg.exc_edges and n not in cfg.raise_nodes:
                    continue
                e2 = enter(m, dict(env))
                if e2 is None or (m, e2) in seen_states:
                    continue
                seen_states.add((m, e2))
                seen.add(m)
                todo.append((m, e2))
        return seen

    def must_pass_f(self, through, src, dst, normal_only=False):
        """``cfg.must_pass`` over the ways ``reach_f`` follows"""
        srcs = src if isinstance(src, (list, set, tuple)) else [src]
        dsts = dst if isinstance(dst, (list, set, tuple)) else [dst]
        through = set(through)
        r = self.reach_f(list(srcs), avoid=through, normal_only=normal_only)
        return not any(d in r for d in dsts if d not in through)

    def value_at(self, name, at):
        """The definitions of the plain local ``name`` whose value can be read at statement ``at``: the reaching
        definitions minus those that contradict what is known at ``at`` (refined conditions: ``if outcome == _REDIRECT:
        return result`` -- only the ``result`` bound where the outcome was set to _REDIRECT).  A definition is ruled out
        when its own path conditions contradict the known ones, or when every way from it to ``at`` that binds the local
        no more takes a branch whose test is known to have the opposite outcome (a default bound up front, overwritten
        in the branch that is known to have been taken).  [(stmt, value)]; None when the local is not cleanly defined."""
        from ..cfg import expand_conds
        cfg = self.cfg
        nodes = [n for n in cfg.nodes_of(at) if cfg.reachable(n)]
        if not nodes:
            return None
        cs = self.conds(at)
        known = dict(((norm(t), p), t) for t, p in cs)
        known_obj = dict((id(t), (t, p)) for t, p in cs)
        against = []        # (branch node, test): taking the branch says the opposite of a known condition (same test object)
        for nd in cfg.nodes:
            if nd.kind == 'branch':
                for t, p in expand_conds([(nd.test, nd.pol)]):
                    k = known_obj.get(id(t))
                    if k is not None and k[1] is not p:
                        against.append((nd.id, t))
        ds, clean = self.defs.of(name)
        if not clean or not ds:
            return None
        all_ids = set(i for _, ids in ds for i in ids)
        out, seen = [], set()
        for n in nodes:
            rd = self.defs.reaching(name, n)
            if rd is None:
                return None
            for st, val, mid in rd:
                contradicted = False
                for t2, p2 in cfg.conds_at_stmt(st):
                    if (norm(t2), not p2) in known and not cfg._kills(t2, mid):
                        contradicted = True
                        break
                if not contradicted and against:
                    ids = [i for i in cfg.nodes_of(st)]
                    after = [m for i in ids for m in cfg.succ[i] if (i, m) not in cfg.exc_edges]
                    stop = all_ids - {n}
                    back = cfg.coreach([n], avoid=stop)
                    # (the known condition speaks about the values at ``at``: a contradicted branch is closed only if nothing
                    # between that branch and ``at`` re-binds what its test reads)
                    closed = set(b for b, t in against if not cfg._kills(t, (cfg.reach([b], avoid=stop) & back) - {n, b}))
                    live = n in cfg.reach(after, avoid=stop | closed)
                    if not live:
                        # ... or in a later iteration: around the loop first (nothing is known about that part), then from
                        # the loop header to ``at`` without taking a contradicted branch
                        heads = [h for h in self.head if h in cfg.reach(after, avoid=stop)]
                        live = bool(heads) and n in cfg.reach(heads, avoid=stop | closed)
                    contradicted = not live
                if not contradicted and id(st) not in seen:
                    seen.add(id(st))
                    out.append((st, val))
        return out

    def conds(self, node):
        """Refined path conditions holding at the statement that contains ``node``."""
        st = node if isinstance(node, ast.stmt) else stmt_of(self.app, node)
        res = None
        for n in self.cfg.nodes_of(st):
            if not self.cfg.reachable(n):
                continue
            cs = refine_conds(self.cfg, self.defs, n, self.cfg.conds_at(n), self.fold, ident=self.ident)
            keyed = dict(((norm(t), p), (t, p)) for t, p in cs)
            res = keyed if res is None else dict((k, v) for k, v in res.items() if k in keyed)
        return list((res or {}).values())

    def branch_conds(self, nid, full=False):
        """What taking branch node ``nid`` says by itself: its test with its polarity, split, named conditions
        expanded and refined by reaching definitions.  full=True: plus everything that holds on the way there."""
        key = (nid, full)
        if key in self._bc:
            return self._bc[key]
        nd = self.cfg.nodes[nid]
        from ..cfg import expand_conds
        cs = expand_conds([(nd.test, nd.pol)])
        cs = self.cfg._expand_named(cs, nid)
        if full:
            cs = self.cfg.conds_at(nid) + cs
        res = self._bc[key] = refine_conds(self.cfg, self.defs, nid, cs, self.fold, ident=self.ident)
        return res

    # -- predicates on condition tests -------------------------------------------------------------------
    def nomatch_pol(self, t):
        """True: ``t`` true means the pattern did not match; False: ``t`` true means it matched; None: unrelated."""
        k = none_test(t, self.pp_var)
        return True if k == 'is' else False if k == 'isnot' else None

    def is_nomatch(self, t):
        return self.nomatch_pol(t) is True

    def is_method_test(self, t):
        """``t`` is the result of route.match_method(...): the call itself or the local it is bound to."""
        if isinstance(t, ast.Name):
            return t.id in self._mvars
        return isinstance(t, ast.Call) and any(c is t or norm(c) == norm(t) for c in self.method_calls if c not in self._mvars.values())

    def method_ok_conds(self, cs):
        """conditions say the method was admitted"""
        return has_cond(cs, self.is_method_test, True)

    def branches_where(self, pred, pol):
        """Branch nodes whose own test (conjunctions / disjunctions split, named conditions expanded, definitions
        substituted) says ``pred`` holds with polarity ``pol``."""
        out = []
        for n in self.cfg.nodes:
            if n.kind == 'branch' and self.cfg.reachable(n.id) and has_cond(self.branch_conds(n.id), pred, pol):
                out.append(n.id)
        return out

    def method_branches(self, pol):
        return self.branches_where(self.is_method_test, pol)

    def matched_conds(self, cs):
        return has_cond(cs, lambda t: self.nomatch_pol(t) is True, False) or has_cond(cs, lambda t: self.nomatch_pol(t) is False, True)

    def nomatch_branches(self):
        """Branch nodes taken exactly when the pattern did not match."""
        return sorted(set(self.branches_where(lambda t: self.nomatch_pol(t) is True, True)) |
                      set(self.branches_where(lambda t: self.nomatch_pol(t) is False, False)))

    def calls_stmt(self, tail, recv=None):
        out = []
        for c in walk_body(self.fi.node):
            if isinstance(c, ast.Call) and call_tail(c) == tail and (recv is None or norm(c.func.value) == recv):
                out.append(stmt_of(self.app, c))
        return out


# ------------------------------------------------------------------------------------------ a route's method set is fixed
METHOD_SET_WRITERS = {(ROUTE, 'Route.__init__'): ('store', 'mutcall'),      # the set is built (upper-cased, HEAD added) while the route is constructed
                      (ROUTE, 'BoundRoute.__init__'): ('store',)}          # a binding takes the route's set


def _object_written(fnode, e):
    """the expression naming the object an effect changes: subscripts stripped, single-definition locals followed
    (``ms = route.methods; ms.add(x)`` changes route.methods)"""
    t = e.target
    while isinstance(t, ast.Subscript):
        t = t.value
    return resolve_local(fnode, t)


def check_method_sets_stable(rep, rule):
    """``route.match_method`` reads the set the route was declared with (a binding shares it: BoundRoute.methods is
    Route.methods).  "Which methods does this route admit" has one answer for every request only if nothing changes such a
    set after set-up:

      * the only writers of any ``.methods`` in the package are the constructors of Route (building the set) and
        BoundRoute (taking the route's set); nothing stores to / mutates ``<x>.methods`` anywhere else, directly or
        through a local naming it;
      * where dispatch hands ``route.methods`` to the dispatch state (for the 405's Allow), the receiving method does not
        change the object it was handed, and does not keep it in a field that is updated in place (it unions it into a
        container of its own): otherwise recording the methods of one request rewrites the route's own set."""
    from .. import effects
    repo = rep.repo
    app = repo.mod(APP)
    n_writers = 0
    for m in repo.all_internal_modules():
        for fi in m.functions.values():
            for e in effects.effects_in(fi.node, aug_names=True):
                if e.kind == 'augname':
                    if effects.aug_rebinds(e.node):
                        continue
                    obj = resolve_local(fi.node, e.target)
                    if obj is e.target:
                        continue          # a local of its own (or a parameter: judged at the hand-over below)
                else:
                    obj = _object_written(fi.node, e)
                if not (isinstance(obj, ast.Attribute) and obj.attr == 'methods'):
                    continue
                n_writers += 1
                ok = e.kind in METHOD_SET_WRITERS.get((m.name, fi.qualname), ()) and norm(obj.value) == 'self'
                rep.check(rule, 'method set writer::%s::%s' % (fi.key, norm(e.node)[:70]), ok,
                          'set-up of a route\'s method set (while the route / its binding is constructed)' if ok else
                          '%s changes a route\'s method set after set-up (%s): which methods the route admits -- and so whether it '
                          'answers, redirects or is skipped for a request -- then depends on earlier requests' % (fi.key, short(e.node)), m, e.node)
    if n_writers < 2:
        raise AnalysisError('the set-up writers of Route.methods / BoundRoute.methods were not found (%d)' % n_writers)
    # the hand-over to the dispatch state
    dv = DispatchView(repo)
    dsc = app.cls('DispatchState')
    handed = []
    for c in walk_body(dv.fi.node):
        if not isinstance(c, ast.Call):
            continue
        for i, a in enumerate(c.args):
            if norm(dv.resolve(a)) == '%s.methods' % dv.route_var:
                handed.append((c, i, None))
        for k in c.keywords:
            if k.arg is not None and norm(dv.resolve(k.value)) == '%s.methods' % dv.route_var:
                handed.append((c, None, k.arg))
    touched = set()       # fields of the dispatch state the receiving methods work on
    for c, pos, kwname in handed:
        f = c.func
        callee = None
        if isinstance(f, ast.Attribute) and norm(f.value) == dv.ds_var:
            callee = repo.find_method(dsc, f.attr)
        if callee is None or callee.mod.external:
            if isinstance(f, ast.Name) and f.id in ('sorted', 'list', 'set', 'frozenset', 'tuple', 'len', 'bool', 'repr', 'str'):
                continue          # copies / reads
            raise AnalysisError('dispatch hands %s.methods to %s, which is not followed' % (dv.route_var, norm(f)))
        ps = callee.params()[1:]
        touched |= set(n.attr for n in walk_body(callee.node) if isinstance(n, ast.Attribute) and isinstance(n.value, ast.Name) and
                       n.value.id == callee.params()[0])
        prm = kwname if kwname in ps else ps[pos] if pos is not None and pos < len(ps) else None
        if prm is None:
            raise AnalysisError('%s: the parameter receiving route.methods was not found' % callee.qualname)
        bad = []
        for e in effects.effects_in(callee.node, aug_names=True):
            if e.kind == 'augname':
                if not effects.aug_rebinds(e.node) and norm(resolve_local(callee.node, e.target)) == prm and \
                        not (effects.known_immutable(callee, e.target)):
                    bad.append(e)
                continue
            if norm(_object_written(callee.node, e)) == prm:
                bad.append(e)
        rebound = any(isinstance(n, ast.Name) and n.id == prm and isinstance(n.ctx, ast.Store) for n in walk_body(callee.node))
        ok = not bad and not rebound
        rep.check(rule, '%s::%s::receives route.methods' % (APP, callee.qualname), ok,
                  '%s only reads the method set it is handed' % callee.qualname if ok else
                  '%s changes the object it is handed (%s) -- the route\'s own method set: the route admits other methods from then on'
                  % (callee.qualname, '; '.join(short(e.node) for e in bad) or 'parameter re-bound'), callee.mod, bad[0].node if bad else callee.node)
    if not handed:
        raise AnalysisError('dispatch does not hand route.methods to the dispatch state (nothing to follow)')
    from .noninterf import RequestPath
    fam = [dsc] + repo.subclasses(dsc, [app])
    for ci, m_, field, st_, fresh in RequestPath(repo).field_freshness():
        if any(ci is c_ for c_ in fam) and field in touched:
            rep.check(rule, '%s::%s::self.%s = %s' % (APP, m_.qualname, field, norm(st_.value)[:50]), fresh,
                      'DispatchState.%s is its own freshly allocated container' % field if fresh else
                      'DispatchState.%s adopts %s and then updates it in place: recording the methods of the routes that refused one request '
                      'rewrites a route\'s own method set, so the route admits (and slash-redirects) other methods for all later requests'
                      % (field, short(st_.value)), app, st_)


# ------------------------------------------------------------------------------------------ what counts as a finished result
CORE = 'clastic.middleware.core'


def _class_candidates(repo, fi, text, te_env, depth=0):
    """The classes the expression text ``text`` (a name the environment dict of compile_code maps a global of the generated
    function to) can stand for: a class the module of ``fi`` defines / imports, or -- for a parameter of ``fi`` -- its
    default and what every call of ``fi`` in the package passes for it.  [(ClassInfo, where)]; AnalysisError when a
    candidate is not a plain name of a class of the analysed tree."""
    from .. import callgraph
    if not text.isidentifier():
        raise AnalysisError('%s: %s is not a plain name (the class it denotes is not followed)' % (fi.qualname, text))
    if text not in fi.params():
        kind, m, obj = repo.resolve(fi.mod, text)
        if kind != 'class':
            raise AnalysisError('%s: %s does not resolve to a class of the analysed tree (%s)' % (fi.qualname, text, kind))
        return [(obj, fi.node)]
    if depth > 2:
        raise AnalysisError('%s: parameter %s is handed on too many times to be followed' % (fi.qualname, text))
    a = fi.node.args
    pos = [x.arg for x in a.posonlyargs + a.args]
    dflt = dict(zip(pos[len(pos) - len(a.defaults):], a.defaults))
    dflt.update((x.arg, d) for x, d in zip(a.kwonlyargs, a.kw_defaults) if d is not None)
    out, passed_everywhere = [], True
    n_calls = 0
    for m in repo.all_internal_modules():
        for caller in m.functions.values():
            for c in walk_body(caller.node):
                if not (isinstance(c, ast.Call) and isinstance(c.func, ast.Name) and c.func.id == fi.node.name):
                    continue
                k_, m_, o_ = repo.resolve(m, c.func.id)
                if not (k_ == 'func' and o_ is fi):
                    continue
                n_calls += 1
                if any(isinstance(x, ast.Starred) for x in c.args) or any(k.arg is None for k in c.keywords):
                    raise AnalysisError('%s: a call in %s passes */** arguments (what %s receives is not followed)' % (fi.qualname, caller.qualname, text))
                given = None
                if text in pos and pos.index(text) < len(c.args):
                    given = c.args[pos.index(text)]
                for k in c.keywords:
                    if k.arg == text:
                        given = k.value
                if given is None:
                    passed_everywhere = False
                    continue
                if not isinstance(given, ast.Name):
                    raise AnalysisError('%s: %s passes %s for %s (not a plain class name)' % (fi.qualname, caller.qualname, short(given, 40), text))
                if given.id in caller.params():
                    out.extend(_class_candidates(repo, caller, given.id, te_env, depth + 1))
                    continue
                k2, m2, o2 = repo.resolve(m, given.id)
                if k2 != 'class':
                    raise AnalysisError('%s: %s passes %s for %s, which is not a class of the analysed tree' % (fi.qualname, caller.qualname, given.id, text))
                out.append((o2, c))
    if not passed_everywhere or not n_calls:
        d = dflt.get(text)
        if d is None:
            if n_calls:
                raise AnalysisError('%s: parameter %s has no default and a caller leaves it out' % (fi.qualname, text))
            raise AnalysisError('%s: no call found from which parameter %s could be followed' % (fi.qualname, text))
        if not isinstance(d, ast.Name):
            raise AnalysisError('%s: the default of %s is not a plain class name' % (fi.qualname, text))
        k3, m3, o3 = repo.resolve(fi.mod, d.id)
        if k3 != 'class':
            raise AnalysisError('%s: the default of %s (%s) is not a class of the analysed tree' % (fi.qualname, text, d.id))
        out.append((o3, d))
    return out


def check_result_class_agreement(rep, rule):
    """The generated request core hands ``context`` back unrendered when ``isinstance(context, X)``; dispatch accepts a
    result when ``isinstance(ret, C)`` (anything else is a TypeError turned into a 500) and treats it as an error when it
    is an HTTPException.  An error an endpoint *returns* is the route's answer -- and a non-breaking one lets later routes
    be tried -- only if it passes the first test untouched: X must be C or a base of C, and HTTPException must derive from
    both.  X is a global of the generated function: it is followed through the environment dict handed to compile_code,
    parameters (defaults, callers' arguments) and the imports of the module."""
    import textwrap
    from .. import codegen
    from .common import raises_of, raise_type, isinstance_test
    repo = rep.repo
    core = repo.mod(CORE)
    fi = core.func('_create_request_inner')
    ps = fi.params()
    te = codegen.TemplateEval(repo, fi).run()
    sinks = [k for k in te.sinks if k['name'] == 'compile_code']
    if len(sinks) != 1:
        raise AnalysisError('_create_request_inner: expected one compile_code call')
    sink = sinks[0]
    arg = lambda name, pos: sink['kw'][name] if name in sink['kw'] else (sink['args'][pos] if len(sink['args']) > pos else None)
    code, env = arg('code_str', 0), arg('env', 2)
    if not isinstance(code, codegen.Tmpl) or any(isinstance(p, codegen.Sym) and p.kind == 'expr' for p in code.parts):
        raise AnalysisError('_create_request_inner: the request-core template is not a string the evaluator can follow')
    if not (isinstance(env, codegen.SDict) and env.comp is None):
        raise AnalysisError('_create_request_inner: the environment handed to compile_code is not a dict display')
    envmap = dict((k, v.text if isinstance(v, codegen.Ex) else None) for k, v in env.items.items())
    try:
        tree = ast.parse(textwrap.dedent(codegen.render(code.parts).text))
    except SyntaxError as e:
        raise AnalysisError('_create_request_inner: the template does not parse (%s)' % e)
    fdefs = [s for s in tree.body if isinstance(s, ast.FunctionDef)]
    if len(fdefs) != 1:
        raise AnalysisError('_create_request_inner: the template does not define one function')
    g = fdefs[0]
    ep_names = [k for k, v in envmap.items() if v == ps[0]]
    ctx = [s.targets[0].id for s in ast.walk(g) if isinstance(s, ast.Assign) and len(s.targets) == 1 and isinstance(s.targets[0], ast.Name) and
           isinstance(s.value, ast.Call) and isinstance(s.value.func, ast.Name) and s.value.func.id in ep_names]
    if len(ctx) != 1:
        raise AnalysisError('_create_request_inner: the local holding the endpoint result was not found in the generated code')
    tests = [c for c in ast.walk(g) if isinstance_test(c, var=ctx[0])]
    if not tests:
        raise AnalysisError('_create_request_inner: no isinstance test of the endpoint result in the generated code')
    cands = []
    for t in tests:
        for e in (t.args[1].elts if isinstance(t.args[1], ast.Tuple) else [t.args[1]]):
            if not isinstance(e, ast.Name):
                raise AnalysisError('generated request core: isinstance against %s is not followed' % norm(e))
            if envmap.get(e.id) is None:
                raise AnalysisError('generated request core: the global %s is not bound by the environment dict to a name' % e.id)
            cands.extend((ci, e.id) for ci, where in _class_candidates(repo, fi, envmap[e.id], te.env))
    # what dispatch accepts as a finished result: the class of the isinstance test whose failure raises the TypeError
    dv = DispatchView(repo)
    accepted = []
    for r in raises_of(dv.fi):
        if raise_type(r) != 'TypeError':
            continue
        for t, p in conds(dv.fi, r):
            if p is False and isinstance_test(t, var=dv.ret_var):
                for e in (t.args[1].elts if isinstance(t.args[1], ast.Tuple) else [t.args[1]]):
                    c = repo.resolve_class(dv.app, e)
                    if isinstance(c, str):
                        raise AnalysisError('dispatch: the result class %s is not a class of the analysed tree' % norm(e))
                    accepted.append(c)
    if not accepted:
        raise AnalysisError('dispatch: the isinstance test that refuses a non-Response result was not found')
    http = repo.mod('clastic.errors').cls('HTTPException')
    http_mro = repo.mro(http)
    name_of = lambda c: '%s.%s' % (c.mod.name, c.name)
    seen = set()
    for ci, gname in cands:
        if id(ci) in seen:
            continue
        seen.add(id(ci))
        covers = all(any(x is ci for x in repo.mro(c)) for c in accepted)
        errs = any(x is ci for x in http_mro)
        ok = covers and errs
        rep.check(rule, '%s::%s::unrendered results::%s' % (CORE, fi.qualname, ci.name), ok,
                  'the generated request core hands back unrendered every %s: all that dispatch accepts as a result (%s), HTTPException included'
                  % (name_of(ci), ', '.join(name_of(c) for c in accepted)) if ok else
                  'the generated request core hands back unrendered only instances of %s, but %s: an HTTP error an endpoint returns is sent '
                  'through render (rendered as a context, or TypeError -> 500) instead of being the route\'s answer -- a returned '
                  'non-breaking error no longer lets later routes be tried'
                  % (name_of(ci), 'HTTPException does not derive from it' if not errs else
                     'dispatch accepts %s, which is not derived from it' % ', '.join(name_of(c) for c in accepted)), core, fi.node)
    for c in accepted:
        ok = any(x is c for x in http_mro)
        rep.check(rule, '%s::Application.dispatch::accepted result::%s' % (APP, c.name), ok,
                  'an HTTPException is a %s: a returned error passes dispatch\'s result test' % name_of(c) if ok else
                  'dispatch refuses results that are not %s, and HTTPException does not derive from it: a returned error becomes a 500' % name_of(c),
                  dv.app, dv.exec_st)
