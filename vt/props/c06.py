"""C06 -- Dispatch: first match in order, methods, 404/405, non-breaking fallthrough.

Decided:
  R06.a  order is insertion order: the only writers of any ``.routes`` in the package are
         Application.__init__ (fresh list) and Application.add (insert at a running index, default
         len(self.routes)); nothing sorts/reverses/removes; dispatch iterates routes + [null route] directly;
  R06.b  loop typestate: a path mismatch continues before any other effect; a method mismatch records the
         route's methods and continues without executing; trying a later route after execute() requires an
         HTTPException result with is_breaking false *and* add_exception(ret); the method test dominates
         slash handling and execute;
  R06.c  sentinel priority (decided in NullRoute.handle_sentinel_condition or in the DispatchState method it hands over
         to): last recorded exception, else 405 built from allowed_methods, else 404; every dispatch state starts with
         empty containers of its own (constructor assignment or per-instance factory of a declared field; a value
         evaluated once for the class / a mutable parameter default is shared by all requests); recording order:
         add_exception puts its argument behind the last element on every path that returns and does nothing else to
         the list, and nobody else writes a dispatch state's list (so [-1] is the most recent error);
  R06.d  method normalisation: Route upper-cases and validates methods and adds HEAD for GET (written out or as a
         loop over a constant table of (listed, implied) pairs -- exactly GET => HEAD);
         match_method upper-cases the request method -- its parameter, not re-bound before the test -- and admits
         everything when methods is falsy;
         update_methods unions;
  R06.e  the 405 carries Allow: MethodNotAllowed stores a value derived from allowed_methods under the
         'Allow' header after the response is initialised.
  R06.f  the first matching route answers also when its endpoint dies with an uncaught exception of *any* type: the
         conversion that runs inside dispatch's generic handler (uncaught_to_response, the server-error constructors)
         looks no module attribute up under a computed name without a default or a handler.
  R06.g  a path that passes a route's regex but fails conversion is "no match" (the next route is tried), never an
         exception out of match_path (which dispatch calls outside its handler): every converter call runs under a handler
         for ValueError and TypeError that returns None (shared with R08.f);
  R06.h  result class agreement: the class X of ``isinstance(context, X)`` in the generated process_request -- followed
         through the environment dict handed to compile_code, parameters of the creating function with their defaults and
         the arguments callers pass, and the module's imports -- is the class dispatch tests its result with, or a base of
         it, and HTTPException has both in its MRO (a returned error is neither rendered nor refused).
Declined: which pattern matches (C05); full response content.
"""
import ast

from ..core import AnalysisError, norm, short
from .. import effects
from ..loader import ClassInfo
from .dispatch import DispatchView, strip_not, resolve_local, run_group
from .common import (cfg_of, fkey, conds, has_cond, cond_texts, stmts_of, walk_body, call_tail, call_name, returns_of,
                     raises_of, raise_type, stmt_of, kwarg, names_loaded, implies_absent, implies_present)

APP, ROUTE, ERR = 'clastic.application', 'clastic.route', 'clastic.errors'
REORDER = {'sort', 'reverse', 'remove', 'pop', 'clear', 'extend', 'append', 'insert', '__setitem__', '__delitem__'}


def routes_writers(repo, mods=None):
    out = []
    for m in (mods or repo.all_internal_modules()):
        for fi in m.functions.values():
            for e in effects.effects_in(fi.node):
                ch = e.chain or []
                if 'routes' in ch[1:] and ch[-1] in ('routes', '[]'):
                    out.append((m, fi, e))
                elif isinstance(e.target, ast.Attribute) and e.target.attr == 'routes':
                    out.append((m, fi, e))
    return out


ROUTES_WRITERS_ALLOWED = {('clastic.application', 'Application.__init__'): ('store',),
                          ('clastic.application', 'Application.add'): ('mutcall',)}


def routes_writer_ok(m, fi, e):
    k = (m.name, fi.qualname)
    ok = k in ROUTES_WRITERS_ALLOWED and e.kind in ROUTES_WRITERS_ALLOWED[k]
    if ok and e.kind == 'mutcall':
        ok = e.method == 'insert'
    if ok and e.kind == 'store':
        ok = isinstance(e.node, ast.Assign) and isinstance(e.node.value, ast.List) and not e.node.value.elts
    return ok


def run(rep):
    repo = rep.repo
    app, route, err = repo.mod(APP), repo.mod(ROUTE), repo.mod(ERR)
    rep.decide('R06.a insertion order; R06.b dispatch-loop typestate; R06.c sentinel priority; R06.d method '
               'normalisation; R06.e 405 carries Allow')
    rep.decline('which pattern matches a path (C05); response bodies')
    rep.rule('R06.a', 'who-may-mutate .routes; running index in add(); direct iteration in dispatch')
    rep.rule('R06.b', 'path rules on the CFG of Application.dispatch')
    rep.rule('R06.c', 'branch order of NullRoute.handle_sentinel_condition')
    rep.rule('R06.d', 'method normalisation in Route.__init__ / match_method / update_methods')
    rep.rule('R06.e', 'provenance: allowed_methods -> headers["Allow"]')

    def order_rules():
        # ---- R06.a -----------------------------------------------------------
        # positive control: the detector must see a reordering write in an embedded example
        ctl = ast.parse('class X:\n    def f(self, app):\n        app.routes.sort()\n        self.routes = sorted(self.routes)\n')
        n_ctl = 0
        for fn in ast.walk(ctl):
            if isinstance(fn, ast.FunctionDef):
                for e in effects.effects_in(fn):
                    ch = e.chain or []
                    if 'routes' in ch:
                        n_ctl += 1
        if n_ctl != 2:
            raise AnalysisError('positive control for the .routes writer detector failed (%d)' % n_ctl)
        for m, fi, e in routes_writers(repo):
            ok = routes_writer_ok(m, fi, e)
            rep.check('R06.a', 'writer::%s::%s' % (fi.key, norm(e.node)[:80]), ok,
                      'documented set-up write of the routing table' if ok else
                      '%s writes a routing table (%s): routes may be reordered / removed after insertion' % (fi.key, short(e.node)), m, e.node)
        check_running_index(rep, 'R06.a')

    def loop_rules():
        dv = DispatchView(repo)
        cfg, f = dv.cfg, dv.fi
        it = norm(dv.iter_expr)
        ok = it in ('self.routes + [self._null_route]', '[*self.routes, self._null_route]', 'itertools.chain(self.routes, [self._null_route])',
                    'chain(self.routes, [self._null_route])')
        if ok and dv.iter_expr is not dv.loop.iter:
            # the sequence is held in a local first: that local is read by the loop only (nobody re-orders it in between)
            ok = isinstance(dv.loop.iter, ast.Name) and \
                sum(1 for n in walk_body(f.node) if isinstance(n, ast.Name) and n.id == dv.loop.iter.id and isinstance(n.ctx, ast.Load)) == 1
        rep.check('R06.a', fkey(f, 'iteration'), ok, 'dispatch walks self.routes in list order, then the null route' if ok else
                  'dispatch does not iterate self.routes + [null route] directly: %s' % it, app, dv.loop)
        _loop_rules(rep, repo, app, dv, cfg, f)

    # each group is analysed on its own: a construct one group cannot follow does not hide the verdicts of the others
    n_gaps = len(rep.gaps)
    run_group(rep, order_rules)
    run_group(rep, loop_rules)
    if len(rep.gaps) == n_gaps:     # (the floors count instances of groups that ran to the end)
        rep.guard(lambda: rep.floor('R06.a', 5))
        rep.guard(lambda: rep.floor('R06.b', 9))
    run_group(rep, _sentinel_rules, rep, repo, app, route)
    run_group(rep, _method_rules, rep, repo, app, route)
    rep.guard(lambda: rep.floor('R06.d', 12))
    run_group(rep, _allow_rules, rep, repo, err)

    def conversion_rules():
        # ---- R06.f -----------------------------------------------------------
        rep.rule('R06.f', 'a route that dies with an uncaught exception answers with the handler\'s server error, whatever the exception\'s '
                          'type: no lookup of a module attribute by computed name, outside a handler, in what runs inside dispatch\'s generic handler')
        from .c08 import check_conversion_lookups
        check_conversion_lookups(rep, 'R06.f')
    run_group(rep, conversion_rules)

    def no_match_rules():
        # ---- R06.g -----------------------------------------------------------
        rep.rule('R06.g', 'a path the route\'s regex admits but whose segments cannot be converted is a path mismatch -- the next route is '
                          'tried, finally 404 / 405 -- not an exception: dispatch calls route.match_path outside its handler, so every '
                          'converter call runs, at the point where it is evaluated, under a handler for ValueError and TypeError that returns None')
        from .c05 import check_match_path_no_raise
        check_match_path_no_raise(rep, 'R06.g')
        # ... and match_path lets nothing out on purpose either: a ``raise`` of its own (in particular a re-raise in the handler
        # that stands for "no match") is contained by a handler of match_path itself
        from .common import protected_by
        mp = route.func('BoundRoute.match_path')
        loose = [r for r in raises_of(mp) if r.exc is None or protected_by(mp, r, raise_type(r) or 'Exception') is None]
        rep.check('R06.g', fkey(mp, 'raises nothing itself'), not loose,
                  'match_path has no raise statement that can leave it' if not loose else
                  'match_path raises (%s): dispatch calls it outside its handler, so instead of "no match -> next route -> 404 / 405" the '
                  'exception leaves dispatch' % short(loose[0], 50), route, loose[0] if loose else mp.node)
    run_group(rep, no_match_rules)

    def result_class_rules():
        # ---- R06.h -----------------------------------------------------------
        rep.rule('R06.h', 'an HTTP error an endpoint returns reaches dispatch as it is: the class whose instances the generated request '
                          'core hands back unrendered is the class dispatch accepts as a finished result (or a base of it), and '
                          'HTTPException derives from both')
        from .dispatch import check_result_class_agreement
        check_result_class_agreement(rep, 'R06.h')
    run_group(rep, result_class_rules)


def check_running_index(rep, rule):
    repo = rep.repo
    app = repo.mod(APP)
    ad = app.func('Application.add')
    acfg = cfg_of(ad)
    ins = [c for c in walk_body(ad.node) if isinstance(c, ast.Call) and norm(c.func).startswith('self.routes.') and
           call_tail(c) in ('insert', 'append', 'extend')]
    if len(ins) != 1 or call_tail(ins[0]) != 'insert':
        rep.fail(rule, fkey(ad, 'single insert'), 'Application.add does not place routes with exactly one self.routes.insert(index, route) '
                 '(found %s): position / order of the inserted routes is not the running index' % [short(c) for c in ins], app, ad.node)
        return
    ins_st = stmt_of(app, ins[0])
    loop = [s for s in stmts_of(ad.node) if isinstance(s, ast.For) and ins_st in s.body]
    pos = ins[0].args[0] if ins[0].args else None
    idx, ok = None, False
    if len(loop) == 1 and len(ins[0].args) == 2 and not ins[0].keywords and isinstance(ins_st, ast.Expr):
        lp = loop[0]
        it = lp.iter
        if isinstance(lp.target, ast.Name) and isinstance(pos, ast.Name):
            # for r in routes: insert(i, r); i += 1
            idx = pos.id
            incs = [s for s in stmts_of(ad.node) if isinstance(s, ast.AugAssign) and norm(s.target) == idx]
            ok = len(incs) == 1 and isinstance(incs[0].op, ast.Add) and isinstance(incs[0].value, ast.Constant) and incs[0].value.value == 1 and \
                type(incs[0].value.value) is int and lp.body == [ins_st, incs[0]] and norm(ins[0].args[1]) == lp.target.id and \
                not any(isinstance(s, ast.Assign) and idx in [norm(t) for t in s.targets] for s in stmts_of(lp))
        elif isinstance(lp.target, ast.Tuple) and len(lp.target.elts) == 2 and all(isinstance(e, ast.Name) for e in lp.target.elts) and \
                isinstance(it, ast.Call) and call_name(it) == 'enumerate' and it.args and not it.keywords:
            # for k, r in enumerate(routes): insert(i + k, r)      /      for k, r in enumerate(routes, i): insert(k, r)
            k, r = lp.target.elts[0].id, lp.target.elts[1].id
            if len(it.args) == 1 and isinstance(pos, ast.BinOp) and isinstance(pos.op, ast.Add) and \
                    sorted([type(pos.left).__name__, type(pos.right).__name__]) == ['Name', 'Name'] and k in (pos.left.id, pos.right.id):
                idx = pos.right.id if pos.left.id == k else pos.left.id
            elif len(it.args) == 2 and isinstance(it.args[1], ast.Name) and isinstance(pos, ast.Name) and pos.id == k:
                idx = it.args[1].id
            ok = idx is not None and idx != k and lp.body == [ins_st] and norm(ins[0].args[1]) == r and \
                not any(isinstance(s, (ast.Assign, ast.AugAssign)) and idx in [norm(t) for t in (s.targets if isinstance(s, ast.Assign) else [s.target])]
                        for s in stmts_of(lp))
    rep.check(rule, fkey(ad, 'running index'), ok, 'routes of one add() are inserted contiguously at index, index+1, ...' if ok else
              'add() does not insert at a running index (routes of one entry are reversed or interleaved)', app, ins_st)
    if idx is None:
        idx = norm(pos)
    # the start index: the caller's, or len(self.routes) when the caller gave none
    params = ad.params()
    dflt = [s for s in stmts_of(ad.node) if isinstance(s, ast.Assign) and norm(s.targets[0]) == idx]
    given = [p for p in params if any(isinstance(s, ast.Assign) and norm(s.targets[0]) == idx and
                                      has_cond(conds(ad, s), lambda t: norm(t) == '%s is None' % p, True) for s in dflt)]
    ok = len(given) == 1 and (idx == given[0] or idx not in params)
    if ok:
        p = given[0]
        n_len = 0
        for s in dflt:
            cs = conds(ad, s)
            if norm(s.value) == 'len(self.routes)' and has_cond(cs, lambda t: norm(t) == '%s is None' % p, True):
                n_len += 1
            elif norm(s.value) == p and has_cond(cs, lambda t: norm(t) == '%s is None' % p, False):
                pass
            else:
                ok = False
        ok = ok and n_len == 1 and (idx == p or len(dflt) == 2)
        if ok and loop:
            c_ = cfg_of(ad)
            ok = c_.must_pass(c_.nodes_of_all(dflt), c_.entry, c_.nodes_of(loop[0])) if idx != p else True
    rep.check(rule, fkey(ad, 'default index'), ok, 'without an index, routes are appended (index = len(self.routes))' if ok else
              'default insertion index is not len(self.routes)', app, dflt[0] if dflt else ad.node)


def _loop_rules(rep, repo, app, dv, cfg, f):
    # ---- R06.b -----------------------------------------------------------
    head = dv.head
    # (reachability below follows boolean flags: ``done = True`` ... ``if done: break`` does not go on to the loop header)
    # (i) no effect before the path test: the loop body starts with the match, its result is tested for None next, and the
    #     no-match side does nothing but move on to the next route
    nm = dv.nomatch_branches()
    m_nodes = cfg.nodes_of(dv.match_st)
    nxt = [m for n in m_nodes for m in cfg.succ[n] if (n, m) not in cfg.exc_edges]
    tested_next = bool(nxt) and all(cfg.nodes[m].kind == 'head' and isinstance(cfg.nodes[m].stmt, ast.If) and
                                    dv.nomatch_pol(strip_not(cfg.nodes[m].stmt.test)[0]) is not None for m in nxt)
    after_nm = dv.reach_f(nm, avoid=head, normal_only=True) - set(nm)
    ok = bool(dv.loop.body) and dv.loop.body[0] is dv.match_st and tested_next and bool(nm) and \
        all(cfg.nodes[m].kind == 'stmt' and isinstance(cfg.nodes[m].stmt, (ast.Continue, ast.Pass)) for m in after_nm) and \
        bool(set(head) & dv.reach_f(nm, normal_only=True)) and cfg.exit not in dv.reach_f(nm, avoid=head)
    rep.check('R06.b', fkey(f, 'path mismatch continues'), ok,
              'a route whose pattern does not match is skipped before any other effect' if ok else
              'the loop does not start with "params = route.match_path(path); if params is None: continue"', app, dv.loop)
    ok = bool(dv.match_call.args) and dv.is_request_attr(dv.match_call.args[0], 'path')
    rep.check('R06.b', fkey(f, 'matches request.path'), ok, 'patterns are matched against request.path' if ok else
              'match_path is not applied to request.path', app, dv.match_st)
    # (ii) method mismatch
    upd = dv.calls_stmt('update_methods', dv.ds_var)
    mm_t = dv.method_branches(False)
    exec_nodes = cfg.nodes_of(dv.exec_st)
    ok = bool(mm_t) and bool(upd) and dv.must_pass_f(cfg.nodes_of_all(upd), mm_t, head, normal_only=True) and \
        not (set(exec_nodes) & dv.reach_f(mm_t, avoid=head)) and \
        all(norm(c.value.args[0]) == '%s.methods' % dv.route_var for c in upd) and \
        bool(set(head) & dv.reach_f(mm_t, normal_only=True)) and cfg.exit not in dv.reach_f(mm_t, avoid=head, normal_only=True)
    rep.check('R06.b', fkey(f, 'method mismatch'), ok,
              'a method mismatch records route.methods (for the 405) and moves on without executing the route' if ok else
              'after a method mismatch the route\'s methods are not recorded on every path, or the route is executed anyway', app,
              upd[0] if upd else dv.method_st)
    ok = bool(dv.method_call.args) and dv.is_request_attr(dv.method_call.args[0], 'method')
    rep.check('R06.b', fkey(f, 'matches request.method'), ok, 'match_method is given request.method' if ok else
              'match_method is not applied to request.method', app, dv.method_st)
    # (iii) from execute back to the loop header
    addx = [s for s in dv.calls_stmt('add_exception', dv.ds_var) if norm(s.value.args[0]) == dv.ret_var]
    BRK = ("getattr(%s, 'is_breaking', True)" % dv.ret_var, '%s.is_breaking' % dv.ret_var)
    is_brk = lambda t: isinstance(t, (ast.Call, ast.Attribute)) and 'is_breaking' in norm(t) and dv.ret_var in norm(t)
    brk_f = dv.branches_where(is_brk, False)
    http_t = dv.branches_where(lambda t: norm(t) == 'isinstance(%s, HTTPException)' % dv.ret_var, True)
    src = exec_nodes
    for label, nodes in (('dispatch_state.add_exception(ret)', cfg.nodes_of_all(addx)), ('"is_breaking" false', brk_f),
                         ('result is an HTTPException', http_t)):
        ok = bool(nodes) and dv.must_pass_f(nodes, src, head)
        rep.check('R06.b', fkey(f, 'fallthrough requires ' + label), ok,
                  'a later route is tried after execute() only through %s' % label if ok else
                  'a later route can be tried after execute() without %s (a breaking/non-HTTP result falls through, or the error is lost)' % label,
                  app, dv.exec_st)
    ok = bool(addx) and bool(set(head) & dv.reach_f(cfg.nodes_of_all(addx), normal_only=True)) and \
        cfg.exit not in dv.reach_f(cfg.nodes_of_all(addx), avoid=head, normal_only=True)
    rep.check('R06.b', fkey(f, 'non-breaking error continues'), ok, 'after recording a non-breaking error the next route is tried' if ok else
              'a non-breaking error does not lead to trying the next route', app, addx[0] if addx else dv.exec_st)
    # is_breaking default must be True (missing attribute => breaking)
    bt = [t for n in cfg.nodes if n.kind == 'branch' for t, p in dv.branch_conds(n.id) if is_brk(t)]
    ok = bool(bt) and all(norm(t) in BRK for t in bt)
    rep.check('R06.b', fkey(f, 'is_breaking default'), ok, 'errors are breaking unless marked otherwise' if ok else
              'is_breaking test changed: %s' % [norm(t) for t in bt], app, dv.exec_st)
    # (iv) dominance
    cs = dv.conds(dv.exec_st)
    ok = dv.method_ok_conds(cs) and dv.matched_conds(cs)
    rep.check('R06.b', fkey(f, 'execute guarded'), ok, 'a route is executed only if its pattern matched and its methods admit the request' if ok else
              'route.execute is reachable without a successful path and method test: %s' % '; '.join(cond_texts(cs)), app, dv.exec_st)
    br_ifs = [s for s in stmts_of(f.node) if isinstance(s, ast.If) and dv.is_route_attr(strip_not(s.test)[0], 'is_branch')]
    ok = bool(br_ifs) and all(dv.method_ok_conds(dv.conds(s)) for s in br_ifs)
    rep.check('R06.b', fkey(f, 'method test before slash handling'), ok, 'slash handling happens only for admitted methods' if ok else
              'slash handling is reachable before/without the method test', app, br_ifs[0] if br_ifs else dv.loop)
    # every request starts from its own dispatch state (R06.c)
    ds_new = [s for s in stmts_of(f.node) if isinstance(s, ast.Assign) and isinstance(s.value, ast.Call) and call_name(s.value) == 'DispatchState']
    ok = len(ds_new) == 1 and not dv.reach_f(cfg.nodes_of(ds_new[0]), include_src=False) & set(cfg.nodes_of(ds_new[0])) and \
        dv.must_pass_f(cfg.nodes_of(ds_new[0]), cfg.entry, head)
    rep.check('R06.c', fkey(f, 'fresh DispatchState'), ok, 'one fresh DispatchState per dispatch, created before the loop' if ok else
              'DispatchState is not created once per request before the loop', app, ds_new[0] if ds_new else f.node)


def sentinel_decision(repo, app, route):
    """(FuncInfo, module, name of the dispatch state in it, key function) of the function that decides what the null
    route answers with.  That is NullRoute.handle_sentinel_condition -- or, when every ``return`` of that endpoint hands
    back the result of one and the same method of the dispatch state it was injected with (``return
    _dispatch_state.<method>(..)``), that method of DispatchState, where the dispatch state is ``self``."""
    hs = route.func('NullRoute.handle_sentinel_condition')
    ds = [p for p in hs.params() if 'dispatch_state' in p]
    if not ds:
        raise AnalysisError('handle_sentinel_condition: dispatch state parameter not found')
    ds, mod = ds[0], route
    dsc = app.classes.get('DispatchState')
    for _ in range(3):
        rets = returns_of(hs)
        calls = [resolve_local(hs.node, r.value) for r in rets]
        if not rets or not all(isinstance(c, ast.Call) and isinstance(c.func, ast.Attribute) and isinstance(c.func.value, ast.Name) and
                               c.func.value.id == ds and c.func.attr == calls[0].func.attr for c in calls):
            break
        m = repo.find_method(dsc, calls[0].func.attr) if dsc is not None else None
        if m is None or m.mod.external or not m.params():
            break
        c_ = cfg_of(hs)
        if not c_.must_pass(c_.nodes_of_all(rets), c_.entry, c_.exit, normal_only=True):
            break
        hs, ds, mod = m, m.params()[0], m.mod
    return hs, mod, ds


def check_sentinel_priority(rep, rule, repo, app, route, only=None, most_recent=True):
    """What the null route answers with when no route gave a final answer: the most recent recorded (non-breaking) error if
    there is one; else, if methods were recorded, a 405 built from them; else a 404."""
    hs, mod, ds = sentinel_decision(repo, app, route)
    hs0 = route.func('NullRoute.handle_sentinel_condition')
    # other names of the dispatch state: single-definition locals bound to the parameter (``state = _dispatch_state``)
    from ..astutil import assigned_value
    ds_names = {ds}
    for n_ in set(x.id for x in walk_body(hs.node) if isinstance(x, ast.Name) and isinstance(x.ctx, ast.Store)):
        av = assigned_value(hs.node, n_)
        if len(av) == 1 and isinstance(av[0][0], ast.Assign) and av[0][2] is None and isinstance(av[0][1], ast.Name) and av[0][1].id == ds and \
                n_ not in hs.params():
            ds_names.add(n_)

    def res(e):
        """``e`` with single-definition locals followed and the dispatch state called by its parameter name"""
        e = resolve_local(hs.node, e)
        if isinstance(e, ast.Attribute) and isinstance(e.value, ast.Name) and e.value.id in ds_names and e.value.id != ds:
            e = ast.copy_location(ast.Attribute(value=ast.copy_location(ast.Name(id=ds, ctx=ast.Load()), e.value), attr=e.attr, ctx=ast.Load()), e)
        return e
    is_exc = lambda t: norm(res(t)) == '%s.exceptions' % ds
    is_am = lambda t: norm(res(t)) == '%s.allowed_methods' % ds
    kinds = {}
    for r in returns_of(hs):
        v = r.value
        cs = conds(hs, r)
        if isinstance(v, ast.Subscript) and norm(res(v.value)) == '%s.exceptions' % ds:
            kinds['exc'] = (r, cs, norm(v.slice))
        elif isinstance(v, ast.Call):
            callee = norm(res(v.func))
            if callee.endswith('method_not_allowed_type'):
                kinds['405'] = (r, cs, v)
            elif callee.endswith('not_found_type'):
                kinds['404'] = (r, cs, v)
    want = lambda k: only is None or k in only
    if want('exc'):
        ok = 'exc' in kinds and has_cond(kinds['exc'][1], is_exc, True) and (kinds['exc'][2] == '-1' or not most_recent)
        rep.check(rule, fkey(hs0, 'last exception' if most_recent else 'recorded error'), ok,
                  ('recorded non-breaking errors win, and the most recent one is used' if most_recent else
                   'a recorded non-breaking error is what the null route answers with') if ok else
                  'the sentinel does not return exceptions[-1] when errors were recorded', mod, kinds.get('exc', (hs.node,))[0])
    if want('405'):
        ok = '405' in kinds and has_cond(kinds['405'][1], is_exc, False) and has_cond(kinds['405'][1], is_am, True) and \
            (not most_recent or       # (what the 405 is built from is C06's question, asked together with "the most recent error")
             (kwarg(kinds['405'][2], 'allowed_methods') is not None and
              norm(res(kwarg(kinds['405'][2], 'allowed_methods'))) == '%s.allowed_methods' % ds))
        rep.check(rule, fkey(hs0, '405'), ok, 'else, if methods were recorded: 405 built with allowed_methods=dispatch_state.allowed_methods' if ok else
                  'the 405 branch is missing, mis-ordered (a recorded error must win over it), or not given the recorded methods', mod,
                  kinds.get('405', (hs.node,))[0])
    if want('404'):
        ok = '404' in kinds and has_cond(kinds['404'][1], is_exc, False) and has_cond(kinds['404'][1], is_am, False)
        rep.check(rule, fkey(hs0, '404'), ok, 'else 404' if ok else 'the 404 branch is not the last resort', mod, kinds.get('404', (hs.node,))[0])


def _sentinel_rules(rep, repo, app, route):
    # ---- R06.c -----------------------------------------------------------
    check_sentinel_priority(rep, 'R06.c', repo, app, route)
    nri = route.func('NullRoute.__init__')
    sup = [c for c in walk_body(nri.node) if isinstance(c, ast.Call) and call_tail(c) == '__init__']
    pat = repo.try_fold(sup[0].args[0], route) if len(sup) == 1 and sup[0].args else None     # (a literal, or a module-level constant)
    ok = len(sup) == 1 and len(sup[0].args) >= 2 and isinstance(pat, str) and '*>' in pat and \
        norm(sup[0].args[1]) == 'self.handle_sentinel_condition'
    rep.check('R06.c', fkey(nri, 'catch-all'), ok, 'the null route matches every path and answers with the sentinel handler' if ok else
              'NullRoute is no longer a catch-all bound to handle_sentinel_condition', route, nri.node)
    # DispatchState bookkeeping
    dsc = app.cls('DispatchState')
    check_recording_order(rep, 'R06.c', repo, app, dsc)
    um = dsc.methods.get('update_methods')
    if um is None:
        raise AnalysisError('DispatchState.update_methods not found')
    ok = any(isinstance(c, ast.Call) and norm(c.func) == 'self.allowed_methods.update' for c in walk_body(um.node))
    rep.check('R06.d', fkey(um), ok, 'update_methods unions into allowed_methods' if ok else 'update_methods does not union', app, um.node)
    # the dispatch state only ever unions into containers of its own (never adopts a route's method set / list)
    from .noninterf import RequestPath
    for ci, m_, field, st_, fresh in RequestPath(repo).field_freshness():
        if ci is dsc:
            rep.check('R06.d', '%s::%s::self.%s = %s' % (APP, m_.qualname, field, norm(st_.value)[:50]), fresh,
                      'DispatchState.%s is its own freshly allocated container' % field if fresh else
                      'DispatchState.%s adopts %s and then mutates it in place: recording allowed methods / errors for one request rewrites '
                      'the routes\' own data for all later requests' % (field, short(st_.value)), app, st_)
    check_state_starts_empty(rep, 'R06.c', repo, app, dsc)


EMPTY_CONTAINERS = {'exceptions': ('[]', 'list()'), 'allowed_methods': ('set()',)}


def check_state_starts_empty(rep, rule, repo, app, dsc):
    """Every dispatch state starts with an empty error list and an empty method set *of its own*: the initial value of
    each field is an empty-container expression evaluated once per instance -- in the constructor, or by the per-instance
    factory of a declared field.  A value evaluated once for the class (``attr.ib(default=[])``, a class attribute the
    constructor does not re-bind, a mutable parameter default) is one object shared by every request: what one request
    records is still there for all later ones."""
    from .dispatch import initial_fields
    init = initial_fields(repo, dsc)
    dsi = dsc.methods.get('__init__')
    a_ = dsi.node.args if dsi is not None else None
    pdef = dict(zip([x.arg for x in (a_.posonlyargs + a_.args)][len(a_.posonlyargs + a_.args) - len(a_.defaults):], a_.defaults)) if a_ else {}
    if a_:
        pdef.update((x.arg, d) for x, d in zip(a_.kwonlyargs, a_.kw_defaults) if d is not None)
    bad, shown = [], {}
    for field, empties in sorted(EMPTY_CONTAINERS.items()):
        kind, expr, node = init.get(field, (None, None, None))
        shown[field] = '%s %s' % (kind, norm(expr) if expr is not None else None)
        if kind == 'own' and isinstance(expr, ast.Name) and expr.id in pdef and dsi is not None and node in stmts_of(dsi.node):
            # ``def __init__(self, exceptions=[]): self.exceptions = exceptions``: the default is evaluated once
            bad.append((field, 'takes the parameter default %s = %s, which is evaluated once, when the function is defined' % (expr.id, norm(pdef[expr.id])), node))
        elif kind == 'own' and norm(expr) in empties:
            continue
        elif kind == 'shared':
            bad.append((field, 'starts as %s, evaluated once when the class is created: one object shared by every dispatch state, so what '
                        'one request records is still recorded for every later request' % norm(expr), node))
        else:
            bad.append((field, 'does not start as an empty container (%s)' % shown[field], node))
    ok = not bad
    anchor = dsi.node if dsi is not None else dsc.node
    rep.check(rule, '%s::DispatchState.__init__' % APP, ok, 'every request starts with an empty dispatch state of its own' if ok else
              'DispatchState does not start empty: %s' % '; '.join('%s %s' % (f, w) for f, w, n in bad), app, bad[0][2] if bad else anchor)


def _list_target(fnode, e):
    """the expression whose object a store / mutating call on ``e`` changes: subscripts stripped, single-definition
    locals followed (``parked = self.exceptions; parked[0] = x`` changes self.exceptions)"""
    while isinstance(e, ast.Subscript):
        e = e.value
    return resolve_local(fnode, e)


def _records_at_end(fnode, st, field, prm):
    """statement ``st`` puts ``prm`` behind the last element of self.<field>: append / extend or += by a one-element
    display / insert at len(..) / re-binding to <old list> + [prm]"""
    recv = lambda e: norm(_list_target(fnode, e)) == 'self.' + field
    one = lambda e: isinstance(e, (ast.List, ast.Tuple)) and len(e.elts) == 1 and norm(e.elts[0]) == prm
    if isinstance(st, ast.Expr) and isinstance(st.value, ast.Call) and isinstance(st.value.func, ast.Attribute) and \
            not st.value.keywords and not isinstance(st.value.func.value, ast.Subscript) and recv(st.value.func.value):
        c = st.value
        if c.func.attr == 'append':
            return len(c.args) == 1 and norm(c.args[0]) == prm
        if c.func.attr == 'extend':
            return len(c.args) == 1 and one(c.args[0])
        if c.func.attr == 'insert':
            return len(c.args) == 2 and norm(c.args[1]) == prm and isinstance(c.args[0], ast.Call) and call_name(c.args[0]) == 'len' and \
                len(c.args[0].args) == 1 and not c.args[0].keywords and recv(c.args[0].args[0])
        return False
    if isinstance(st, ast.AugAssign) and isinstance(st.op, ast.Add) and not isinstance(st.target, ast.Subscript) and recv(st.target):
        return one(st.value)
    if isinstance(st, ast.Assign) and len(st.targets) == 1 and norm(st.targets[0]) == 'self.' + field and \
            isinstance(st.value, ast.BinOp) and isinstance(st.value.op, ast.Add):
        return not isinstance(st.value.left, ast.Subscript) and recv(st.value.left) and one(st.value.right)
    return False


def check_recording_order(rep, rule, repo, app, dsc, field='exceptions', recorder='add_exception'):
    """The sentinel answers with ``exceptions[-1]``; that is the *most recent* non-breaking error only if recording is
    an unconditional append: every call of add_exception puts its argument behind the last element on every path that
    returns, the method does nothing else to the list, and nobody else in the package writes a dispatch state's list
    (apart from the fresh empty list of __init__)."""
    ae = dsc.methods.get(recorder)
    if ae is None or len(ae.params()) < 2:
        raise AnalysisError('DispatchState.%s(self, exception) not found' % recorder)
    prm = ae.params()[1]
    acfg = cfg_of(ae)
    rebound = any(isinstance(n, ast.Name) and n.id == prm and isinstance(n.ctx, (ast.Store, ast.Del)) for n in walk_body(ae.node))
    recs = [s for s in stmts_of(ae.node) if _records_at_end(ae.node, s, field, prm)]
    ok = bool(recs) and not rebound
    rep.check(rule, fkey(ae), ok, 'add_exception appends (so [-1] is the most recent)' if ok else 'add_exception does not append', app, ae.node)
    if ok:
        always = acfg.must_pass(acfg.nodes_of_all(recs), acfg.entry, acfg.exit, normal_only=True)
        rep.check(rule, fkey(ae, 'every call records'), always,
                  'the append is unconditional: every recorded error becomes the last element' if always else
                  '%s can return without appending its argument (the append is conditional): an error that is not appended is not the '
                  'last element, so exceptions[-1] -- what the null route answers with -- is an older error, not the most recent one'
                  % recorder, app, recs[0])
        others = [e for e in effects.effects_in(ae.node)
                  if norm(_list_target(ae.node, e.target)) == 'self.' + field and not any(e.node is s or e.node is getattr(s, 'value', None) for s in recs)]
        rep.check(rule, fkey(ae, 'nothing else'), not others,
                  '%s does nothing else to the list' % recorder if not others else
                  '%s also changes the recorded errors by %s: the last element is no longer the most recently recorded error'
                  % (recorder, '; '.join(short(e.node) for e in others)), app, others[0].node if others else ae.node)
    # who else writes the list of a dispatch state
    fam = [dsc] + repo.subclasses(dsc, [app])
    for m in repo.all_internal_modules():
        for fi in m.functions.values():
            own = fi.cls is not None and any(fi.cls is c for c in fam)
            for e in effects.effects_in(fi.node):
                t = _list_target(fi.node, e.target)
                if not (isinstance(t, ast.Attribute) and t.attr == field):
                    continue
                if norm(t.value) == 'self' and not own:
                    continue         # another class's attribute of the same name
                if own and fi.name == recorder:
                    continue         # judged above
                ok = own and fi.name == '__init__' and e.kind == 'store' and isinstance(e.node, ast.Assign) and e.target is e.node.targets[0] and \
                    ((isinstance(e.node.value, ast.List) and not e.node.value.elts) or norm(e.node.value) == 'list()')
                rep.check(rule, 'recorded errors writer::%s::%s' % (fi.key, norm(e.node)[:70]), ok,
                          'every dispatch state starts with its own empty list' if ok else
                          '%s writes the recorded-errors list of a dispatch state (%s): the order of recording is no longer what exceptions[-1] reads'
                          % (fi.key, short(e.node)), m, e.node)


def _table_rows(repo, mod, fi, node, first, second):
    """``node`` sits in a loop ``for a, b in TABLE`` of ``fi`` whose two loop variables are the names ``first`` and
    ``second`` (not re-bound in the loop) and whose TABLE is a constant of the module -- a sequence of pairs, or
    ``MAPPING.items()``: the rows [(a, b)] as constants.  None when that is not the shape."""
    if not (isinstance(first, ast.Name) and isinstance(second, ast.Name)):
        return None
    for lp in [s for s in stmts_of(fi.node) if isinstance(s, ast.For) and any(n is node for n in ast.walk(s))]:
        tg = lp.target
        if not (isinstance(tg, (ast.Tuple, ast.List)) and [norm(e) for e in tg.elts] == [first.id, second.id] and first.id != second.id):
            continue
        if lp.orelse or any(isinstance(n, ast.Name) and n.id in (first.id, second.id) and isinstance(n.ctx, (ast.Store, ast.Del))
                            for s in lp.body for n in ast.walk(s)):
            return None
        it, sentinel = lp.iter, object()
        local_names = set(n.id for n in ast.walk(fi.node) if isinstance(n, ast.Name) and isinstance(n.ctx, (ast.Store, ast.Del))) | set(fi.params())
        if any(isinstance(n, ast.Name) and n.id in local_names for n in ast.walk(it)):
            return None          # (a local may shadow the module-level table)
        if isinstance(it, ast.Call) and isinstance(it.func, ast.Attribute) and it.func.attr == 'items' and not it.args and not it.keywords:
            table = repo.try_fold(it.func.value, mod, sentinel)
            table = list(table.items()) if isinstance(table, dict) else sentinel
        else:
            table = repo.try_fold(it, mod, sentinel)
        if table is sentinel or not isinstance(table, (tuple, list)):
            return None
        rows = []
        for row in table:
            if not (isinstance(row, (tuple, list)) and len(row) == 2 and all(isinstance(x, str) for x in row)):
                return None
            rows.append((row[0], row[1]))
        return rows
    return None


def _method_rules(rep, repo, app, route):
    # ---- R06.d -----------------------------------------------------------
    ri = route.func('Route.__init__')
    rres = lambda e: resolve_local(ri.node, e)

    def upper_set(e):
        """``e`` builds a set of the upper-cased members of a local: returns that local's name, else None."""
        e = rres(e)
        comp = e if isinstance(e, ast.SetComp) else \
            e.args[0] if isinstance(e, ast.Call) and call_name(e) == 'set' and len(e.args) == 1 and not e.keywords and \
            isinstance(e.args[0], (ast.ListComp, ast.GeneratorExp, ast.SetComp)) else None
        if comp is None or len(comp.generators) != 1 or comp.generators[0].ifs or not isinstance(comp.generators[0].iter, ast.Name) or \
                not isinstance(comp.generators[0].target, ast.Name):
            return None
        if norm(comp.elt) != '%s.upper()' % comp.generators[0].target.id:
            return None
        return comp.generators[0].iter.id
    ms = [s for s in stmts_of(ri.node) if isinstance(s, ast.Assign) and norm(s.targets[0]) == 'self.methods']
    raw = None            # the local holding the declared methods
    holders = {'self.methods'}    # expressions denoting the set that ends up in self.methods
    n_set, ok = 0, bool(ms)
    for s_ in ms:
        v, cs = s_.value, conds(ri, s_)
        if isinstance(v, ast.BoolOp) and isinstance(v.op, ast.And) and len(v.values) == 2 and isinstance(v.values[0], ast.Name) and \
                upper_set(v.values[1]) == v.values[0].id:
            raw, n_set = v.values[0].id, n_set + 1            # methods and set(m.upper() for m in methods)
        elif upper_set(v) is not None and implies_present(cs, upper_set(v)):
            raw, n_set = upper_set(v), n_set + 1              # (methods truthy)  set(...)
            if isinstance(v, ast.Name):
                holders.add(v.id)
        elif isinstance(v, ast.Name) and implies_absent(cs, v.id):
            pass                                              # (methods falsy)   self.methods = methods
        elif isinstance(v, ast.Constant) and v.value is None:
            pass
        else:
            ok = False
    ok = ok and n_set == 1
    rep.check('R06.d', fkey(ri, 'upper-cased set'), ok, 'declared methods are upper-cased into a set' if ok else
              'Route.__init__ does not upper-case the declared methods', route, ms[0] if ms else ri.node)

    def unknown_of(e, depth=0):
        """``e`` is (a list / sorted list / the set itself of) <the method set> minus HTTP_METHODS"""
        e = rres(e)
        if isinstance(e, ast.Call) and call_name(e) in ('list', 'sorted', 'tuple', 'set', 'frozenset') and len(e.args) == 1 and depth < 2:
            return unknown_of(e.args[0], depth + 1)
        if isinstance(e, ast.BinOp) and isinstance(e.op, ast.Sub):
            return norm(e.left) in holders and norm(e.right) == 'HTTP_METHODS'
        if isinstance(e, ast.Call) and call_tail(e) == 'difference' and len(e.args) == 1:
            return norm(e.func.value) in holders and norm(e.args[0]) == 'HTTP_METHODS'
        return False
    rz = [r for r in raises_of(ri) if raise_type(r) == 'InvalidMethod']
    ok = bool(rz) and all(any(p is True and unknown_of(t) for t, p in conds(ri, r)) for r in rz)
    rep.check('R06.d', fkey(ri, 'unknown methods rejected'), ok, 'methods outside HTTP_METHODS raise InvalidMethod' if ok else
              'unknown method names are not rejected', route, ri.node)
    # methods a route admits beyond the declared ones: every ``<method set>.add(x)`` of the constructor is an implication
    # "listed in the set => x is admitted too"; written out (``if 'GET' in ms: ms.add('HEAD')``) or as a loop over a constant
    # table of (listed, implied) pairs (``for listed, implied in TABLE: if listed in ms: ms.add(implied)``).  The pairs must be
    # exactly GET => HEAD.
    adds = [c for c in walk_body(ri.node) if isinstance(c, ast.Call) and call_tail(c) == 'add' and isinstance(c.func, ast.Attribute) and
            norm(c.func.value) in holders and len(c.args) == 1 and not c.keywords]
    pairs, followed = set(), bool(adds)
    for c in adds:
        holder, x, cs = norm(c.func.value), c.args[0], conds(ri, c)
        listed = [t.left for t, p in cs if p is True and isinstance(t, ast.Compare) and len(t.ops) == 1 and isinstance(t.ops[0], ast.In) and
                  norm(t.comparators[0]) == holder]
        if isinstance(x, ast.Constant) and len(listed) == 1 and isinstance(listed[0], ast.Constant):
            pairs.add((listed[0].value, x.value))
            continue
        rows = _table_rows(repo, route, ri, c, listed[0] if len(listed) == 1 else None, x)
        if rows is None:
            followed = False
        else:
            pairs |= set(rows)
    ok = followed and len(adds) == 1 and pairs == {('GET', 'HEAD')}
    rep.check('R06.d', fkey(ri, 'GET implies HEAD'), ok, 'a GET route also admits HEAD (and nothing else is admitted implicitly)' if ok else
              'GET routes no longer admit HEAD, or a route admits other methods it does not list (implied methods: %s)'
              % (sorted(pairs, key=repr) if followed else 'not a "listed in methods => add implied" statement'), route, adds[0] if adds else ri.node)
    hm = set(route.const('HTTP_METHODS'))
    need = {'GET', 'HEAD', 'POST', 'PUT', 'DELETE', 'OPTIONS', 'TRACE', 'CONNECT', 'PATCH'}
    rep.check('R06.d', '%s::HTTP_METHODS' % ROUTE, need <= hm, 'HTTP_METHODS holds the nine standard methods' if need <= hm else
              'HTTP_METHODS lacks %s' % sorted(need - hm), route)
    mmf = route.func('BoundRoute.match_method')
    mcfg = cfg_of(mmf)
    mp = mmf.params()[1]
    mres = lambda e: resolve_local(mmf.node, e)

    def member(t):
        """True / False: comparison ``t`` true means METHOD.upper() is / is not in self.methods; None: another test"""
        if isinstance(t, ast.Compare) and len(t.ops) == 1 and isinstance(t.ops[0], (ast.In, ast.NotIn)) and \
                norm(mres(t.left)) == '%s.upper()' % mp and norm(mres(t.comparators[0])) == 'self.methods':
            return isinstance(t.ops[0], ast.In)
        return None

    def methods_nonempty(cs):
        return any(p is True and norm(mres(t)) == 'self.methods' for t, p in cs)
    refusals, admits, unknown = [], [], []
    for r in returns_of(mmf):
        v, cs = r.value, conds(mmf, r)
        if isinstance(v, ast.Constant) and v.value is True:
            admits.append(r)
        elif isinstance(v, ast.Constant) and v.value is False:
            # refused: the membership test failed on this path, and there are methods to compare with
            refusals.append(any(member(t) is not None and member(t) is not p for t, p in cs) and methods_nonempty(cs))
        elif v is not None and not isinstance(v, ast.Constant):
            # the answer is an expression: it refuses when the expression is false, which must say that the membership
            # test failed and that there are methods to compare with (``not (m and ms) or m.upper() in ms`` included)
            from ..cfg import expand_conds
            cs2 = cs + expand_conds([(v, False)])
            refusals.append(any(member(t) is not None and member(t) is not p for t, p in cs2) and methods_nonempty(cs2))
            admits.append(r)
        else:
            unknown.append(r)
    ok = bool(refusals) and all(refusals) and bool(admits) and not unknown and \
        mcfg.must_pass(mcfg.nodes_of_all(returns_of(mmf)), mcfg.entry, mcfg.exit, normal_only=True)
    rep.check('R06.d', fkey(mmf), ok, 'a request is refused only if methods is non-empty and METHOD.upper() is not in it' if ok else
              'match_method no longer compares the upper-cased request method against a non-empty method set', route, mmf.node)
    # ... and what is compared is the method of the request: the parameter is not re-bound on the way to the test (a method
    # translated / replaced first is looked up under another name than the one the route lists)
    rebinds = [n for n in walk_body(mmf.node) if isinstance(n, ast.Name) and n.id == mp and isinstance(n.ctx, (ast.Store, ast.Del))]
    rep.check('R06.d', fkey(mmf, 'the request method itself'), not rebinds,
              'the method tested against the route\'s set is the request\'s own' if not rebinds else
              'match_method re-binds its parameter %r before the membership test: the route\'s method set is asked about another method '
              'than the one requested (a route listing the requested method can refuse it)' % mp, route,
              stmt_of(route, rebinds[0]) if rebinds else mmf.node)
    check_wildcard_agreement(rep, 'R06.d', repo, app, route, mmf)
    for q in ('GET', 'POST', 'PUT', 'DELETE', 'HEAD', 'OPTIONS', 'TRACE', 'CONNECT', 'PATCH'):
        ci = route.classes.get(q)
        if ci is None:
            continue
        init = ci.methods.get('__init__')
        m = [s for s in stmts_of(init.node) if isinstance(s, ast.Assign) and norm(s.targets[0]) == "kw['methods']"] if init else []
        ok = len(m) == 1 and repo.try_fold(m[0].value, route) in ((q,), [q])
        rep.check('R06.d', '%s::%s' % (ROUTE, q), ok, 'convenience class %s declares method %s' % (q, q) if ok else
                  'convenience route class %s declares %s' % (q, norm(m[0].value) if m else None), route, ci.node)


def check_wildcard_agreement(rep, rule, repo, app, route, mmf):
    """"Admits every method" has one representation, shared by the constructors that store ``.methods`` and the readers
    that test it: match_method refuses only when the set is truthy (judged above), so the wildcard is *a falsy value* --
    not a set enumerating the methods the framework happens to know (a request method outside the enumeration would be
    refused by a route that declares none).

      * BoundRoute.__init__, which stores the set its match_method reads: on every path on which the methods of the route
        being bound are not known to be truthy, what it stores is that value itself or another falsy value;
      * the null route -- the route that ends every dispatch -- declares no methods (its class hands none to
        Route.__init__) and is bound into the class whose constructor and match_method were judged: so its match_method
        cannot answer False, and the loop of dispatch always ends with a response."""
    bi = route.func('BoundRoute.__init__')
    ps = bi.params()
    if len(ps) < 2:
        raise AnalysisError('BoundRoute.__init__: the parameter holding the route being bound was not found')
    rprm = ps[1]
    res = lambda e: resolve_local(bi.node, e)
    own = lambda e: isinstance(res(e), ast.Attribute) and res(e).attr == 'methods' and norm(res(res(e).value)) == rprm

    def when_absent(e, depth=0):
        """what ``e`` is when <route>.methods is falsy: 'falsy' (that value itself, or another empty value), 'truthy' (a value
        that is not empty), None (not known)"""
        e = res(e)
        if depth > 6:
            return None
        if own(e):
            return 'falsy'
        if isinstance(e, ast.Constant):
            return 'truthy' if e.value else 'falsy'
        if isinstance(e, (ast.Set, ast.List, ast.Tuple)):
            return None if any(isinstance(x, ast.Starred) for x in e.elts) else 'truthy' if e.elts else 'falsy'
        if isinstance(e, ast.Call) and call_name(e) in ('set', 'frozenset', 'list', 'tuple', 'sorted') and not e.keywords and len(e.args) <= 1:
            return when_absent(e.args[0], depth + 1) if e.args else 'falsy'
        if isinstance(e, ast.Call) and call_tail(e) == 'copy' and not e.args and not e.keywords and isinstance(e.func, ast.Attribute):
            return when_absent(e.func.value, depth + 1)
        if isinstance(e, ast.BoolOp):
            for v in e.values:
                a = when_absent(v, depth + 1)
                if a is None:
                    return None
                if (a == 'truthy') is isinstance(e.op, ast.Or):
                    return a            # ``or``: the first truthy operand; ``and``: the first falsy one
            return a
        if isinstance(e, ast.IfExp):
            t, pol = strip_not(e.test)
            if own(t):
                return when_absent(e.orelse if pol else e.body, depth + 1)
            a, b = when_absent(e.body, depth + 1), when_absent(e.orelse, depth + 1)
            return a if a == b else None
        if isinstance(e, (ast.Name, ast.Attribute)):
            names = set(n.id for n in ast.walk(e) if isinstance(n, ast.Name))
            local = set(n.id for n in walk_body(bi.node) if isinstance(n, ast.Name) and isinstance(n.ctx, (ast.Store, ast.Del))) | set(ps)
            if not (names & local):
                unf = object()
                v = repo.try_fold(e, bi.mod, unf)
                if v is not unf and isinstance(v, (set, frozenset, list, tuple, dict, str, bytes, type(None))):
                    return 'truthy' if v else 'falsy'
        return None
    stores = [s for s in stmts_of(bi.node) if isinstance(s, ast.Assign) and any(norm(t) == 'self.methods' for t in s.targets)]
    if not stores:
        raise AnalysisError('BoundRoute.__init__: the store to self.methods was not found')
    for s_ in stores:
        cs = conds(bi, s_)
        if any(p is True and own(t) for t, p in cs):
            rep.ok(rule, fkey(bi, 'no methods stay no methods: %s' % norm(s_)[:60]), 'stored for a route that declares methods', route, s_)
            continue
        a = when_absent(s_.value)
        if a is None:
            raise AnalysisError('BoundRoute.__init__: what %s stores for a route without methods is not followed' % short(s_))
        ok = a == 'falsy'
        rep.check(rule, fkey(bi, 'no methods stay no methods: %s' % norm(s_)[:60]), ok,
                  'a route without methods is bound without methods: match_method reads that as "every method"' if ok else
                  'a route that declares no methods is bound with a non-empty set (%s), but match_method (and the dispatch state) read only '
                  'a falsy set as "every method": a request method outside that set is refused by every such route -- by the null route '
                  'as well, so dispatch ends without a result' % short(s_.value), route, s_)
    # the null route
    ai = app.func('Application.__init__')
    made = [s for s in stmts_of(ai.node) if isinstance(s, ast.Assign) and any(norm(t) == 'self._null_route' for t in s.targets)]
    if len(made) != 1:
        raise AnalysisError('Application.__init__: the construction of self._null_route was not found')
    v = resolve_local(ai.node, made[0].value)
    if not (isinstance(v, ast.Call) and call_tail(v) == 'bind' and isinstance(v.func, ast.Attribute)):
        raise AnalysisError('Application.__init__: self._null_route is not <null route class>(...).bind(...)')
    mk = resolve_local(ai.node, v.func.value)
    kind, m_, nrc = repo.resolve(app, call_name(mk)) if isinstance(mk, ast.Call) and isinstance(mk.func, ast.Name) else (None, None, None)
    if kind != 'class' or not isinstance(nrc, ClassInfo):
        raise AnalysisError('Application.__init__: the class of the null route was not found')

    def declares_none(call, fi):
        """the methods argument of a constructor call: absent / a falsy constant -> True; anything else -> False; handed through
        ``**kw`` / ``*a`` of ``fi`` -> None"""
        for k in call.keywords:
            if k.arg == 'methods':
                unf = object()
                val = repo.try_fold(k.value, fi.mod, unf)
                return val is not unf and not val
        if any(k.arg is None for k in call.keywords) or any(isinstance(x, ast.Starred) for x in call.args):
            return None
        return True
    ok, why, at = None, '', nrc.node
    if mk.args or mk.keywords:
        ok = None
    else:
        ok = True
        for c in repo.mro(nrc):
            if not isinstance(c, ClassInfo) or c.name == 'Route':
                break
            init = c.methods.get('__init__')
            if init is None:
                continue
            ups = [x for x in walk_body(init.node) if isinstance(x, ast.Call) and call_tail(x) == '__init__']
            if len(ups) != 1:
                ok = None
                break
            d = declares_none(ups[0], init)
            at = ups[0]
            if d is False:
                ok = False
                break
            if d is None:
                # handed through the *a / **kw of the constructor itself, untouched: nothing is passed at the construction
                va, kw = init.node.args.vararg, init.node.args.kwarg
                stars = [k.value for k in ups[0].keywords if k.arg is None] + [x.value for x in ups[0].args if isinstance(x, ast.Starred)]
                own_stars = set(a_.arg for a_ in (va, kw) if a_ is not None)
                uses = [n for n in walk_body(init.node) if isinstance(n, ast.Name) and n.id in own_stars]
                if not all(isinstance(x, ast.Name) and x.id in own_stars for x in stars) or len(uses) != len(stars):
                    ok = None
                    break
    if ok is None:
        raise AnalysisError('%s: which methods the null route declares is not followed' % nrc.name)
    rep.check(rule, fkey(ai, 'the null route declares no methods'), ok,
              'the null route (%s) declares no methods: it admits every request method' % nrc.name if ok else
              'the null route (%s) declares methods: a request with another method is refused by the route that has to end every dispatch, and '
              'dispatch returns no response' % nrc.name, route if ok or at is not nrc.node else app, at)
    # ... and is bound into the class whose constructor / match_method were judged
    bound_cls = None
    for c in repo.mro(nrc):
        if not isinstance(c, ClassInfo):
            continue
        b = c.methods.get('bind')
        if b is None:
            continue
        rets = [r.value for r in returns_of(b)]
        if len(rets) == 1 and isinstance(rets[0], ast.Call) and call_tail(rets[0]) == 'bind' and isinstance(rets[0].func, ast.Attribute) and \
                isinstance(rets[0].func.value, ast.Call) and call_name(rets[0].func.value) == 'super':
            continue
        if len(rets) == 1 and isinstance(rets[0], ast.Call) and isinstance(rets[0].func, ast.Name):
            k2, m2, c2 = repo.resolve(c.mod if hasattr(c, 'mod') else route, rets[0].func.id)
            bound_cls = c2 if k2 == 'class' and isinstance(c2, ClassInfo) else None
        break
    if bound_cls is None:
        raise AnalysisError('%s.bind: the class a route is bound into was not found' % nrc.name)
    mm2, in2 = repo.find_method(bound_cls, 'match_method'), repo.find_method(bound_cls, '__init__')
    if mm2 is not mmf and mm2 is not None and all(isinstance(r.value, ast.Constant) and r.value.value is True for r in returns_of(mm2)) and returns_of(mm2):
        ok = True
    elif mm2 is mmf and in2 is bi:
        ok = True
    else:
        raise AnalysisError('%s: the match_method / constructor of the class the null route is bound into are not the ones judged' % bound_cls.name)
    rep.check(rule, fkey(ai, 'the null route admits every method'), ok,
              'the bound null route keeps "no methods" and %s.match_method refuses only a non-empty set: the loop of dispatch always ends '
              'with a route that answers' % bound_cls.name, app, made[0])


def _allow_rules(rep, repo, err):
    # ---- R06.e -----------------------------------------------------------
    eh = err.cls('ErrorHandler')
    dc, val = repo.class_attr(eh, 'method_not_allowed_type')
    k, m, mna = repo.resolve(err, norm(val)) if val is not None else (None, None, None)
    if k != 'class':
        raise AnalysisError('ErrorHandler.method_not_allowed_type does not resolve to a class')
    stores = []
    for c in repo.mro(mna):
        if not isinstance(c, ClassInfo) or c.mod is not err:
            continue
        for fi in c.methods.values():
            for s in stmts_of(fi.node):
                if isinstance(s, ast.Assign) and isinstance(s.targets[0], ast.Subscript) and isinstance(s.targets[0].slice, ast.Constant) \
                        and str(s.targets[0].slice.value).lower() == 'allow' and 'headers' in norm(s.targets[0].value):
                    stores.append((fi, s))
            for cl in walk_body(fi.node):
                if isinstance(cl, ast.Call) and call_tail(cl) in ('add', 'set', 'add_header') and 'headers' in norm(cl.func) and cl.args and \
                        isinstance(cl.args[0], ast.Constant) and str(cl.args[0].value).lower() == 'allow':
                    stores.append((fi, stmt_of(err, cl)))
    ok = bool(stores)
    detail = 'no store to an Allow header in %s or its bases' % mna.name
    if ok:
        fi, s = stores[0]
        # what the stored value is computed from, through the locals of the constructor
        dep = names_loaded(s) | set(n.attr for n in ast.walk(s) if isinstance(n, ast.Attribute))
        grew = True
        while grew:
            grew = False
            for x in stmts_of(fi.node):
                if isinstance(x, ast.Assign) and any(isinstance(t, ast.Name) and t.id in dep for t in x.targets):
                    more = (names_loaded(x.value) | set(n.attr for n in ast.walk(x.value) if isinstance(n, ast.Attribute))) - dep
                    if more:
                        dep |= more
                        grew = True
        ok = 'allowed_methods' in dep
        detail = 'the Allow value does not depend on allowed_methods: %s' % short(s)
        if ok:
            # after the response object is initialised (headers exist)
            sup = [stmt_of(err, c) for c in walk_body(fi.node) if isinstance(c, ast.Call) and call_tail(c) == '__init__' and 'super' in norm(c.func)]
            c2 = cfg_of(fi)
            ok = bool(sup) and c2.must_pass(c2.nodes_of_all(sup), c2.entry, c2.nodes_of(s))
            detail = 'the Allow header is stored before BaseResponse.__init__ created the headers'
        if ok:
            am = [x for x in stmts_of(fi.node) if isinstance(x, ast.Assign) and norm(x.targets[0]) == 'self.allowed_methods']
            prm = fi.params()[1]
            # every assignment takes the constructor argument, or is the empty set on the side where there is none
            ok = bool(am) and any(prm in names_loaded(x.value) for x in am) and \
                all(prm in names_loaded(x.value) or (norm(x.value) in ('set()', 'set([])', 'set(())') and implies_absent(conds(fi, x), prm)) for x in am)
            detail = 'self.allowed_methods is not the constructor argument'
    rep.check('R06.e', '%s::%s::Allow' % (ERR, mna.name), ok,
              'the 405 response stores a value derived from allowed_methods under the Allow header' if ok else detail, err,
              stores[0][1] if stores else mna.node)
    ok = mna.class_attrs.get('code') is not None and repo.try_fold(mna.class_attrs['code'], err) == 405
    rep.check('R06.e', '%s::%s::code' % (ERR, mna.name), ok, 'method_not_allowed_type has code 405' if ok else 'method_not_allowed_type is not a 405', err, mna.node)
