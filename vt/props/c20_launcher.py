"""C20, the launcher side (clastic/server.py): what the failsafe is built *from* and how long it is served.

  R20.g  what the child process wrote to stderr is what the error hook is given: in the loop that reads the child's
         stderr, a line that starts with the report prefix is parsed into the monitored-file list and every other line is
         collected; the two branches hang on the *same* ``startswith`` test (polarity read off the path conditions),
         the prefix that is tested is the prefix that is stripped and the prefix the child writes (one constant on both
         sides of the pipe); the container the lines are collected in is the container whose ``join`` is the hook's
         first argument -- the whole of it, not one element, not another local.
  R20.h  the failsafe is served and taken down again: the hook is only called where it is known to be given (path
         condition on the hook parameter); the server the hook returns is bound, and every path from the hook call back
         to the head of the restart loop passes each of the clean-up calls made on it (``shutdown`` / ``server_close``:
         a second failsafe cannot be bound to the address while the first still holds it, and the first would go on
         answering with the old text); in the function that calls ``flaw.create_app`` the application it returns is the
         one handed to the server constructor, that server's ``serve_forever`` is started, and that server is what is
         returned.

Everything is located by role (the hook is a parameter of restart_with_reloader called with two arguments, the reader
is the loop over ``<child>.stderr``, the collection is whatever receives the line, ...).  Where a construct cannot be
located the judgement is declined with a note, never guessed.  Nothing is evaluated.
"""
import ast

from ..core import norm, short
from ..astutil import assigned_value, walk_body, stmts_of, stmt_of, call_tail, call_name
from .common import cfg_of, fkey, conds, implies_present, returns_of


def _c20():
    from . import c20
    return c20


def _nested_scopes(mod, fi):
    return [g for q, g in sorted(mod.functions.items()) if q.startswith(fi.qualname + '.')]


def _strip_not(t, p):
    while isinstance(t, ast.UnaryOp) and isinstance(t.op, ast.Not):
        t, p = t.operand, not p
    return t, p


def _names_in(e):
    return set(n.id for n in ast.walk(e) if isinstance(n, ast.Name) and isinstance(n.ctx, ast.Load))


# ------------------------------------------------------------------------------------------------ R20.g the stderr reader
class _Reader(object):
    """One loop over the child's stderr: the scope it is written in, the names that hold (a form of) the current line,
    the prefix tests, the statements that collect the line and the ones that parse the report."""

    def __init__(self, scope, loop):
        self.scope, self.loop = scope, loop
        self.derived = set(n.id for n in ast.walk(loop.target) if isinstance(n, ast.Name))
        changed = True
        while changed:
            changed = False
            for st in ast.walk(loop):
                if isinstance(st, ast.Assign) and _names_in(st.value) & self.derived:
                    for t in st.targets:
                        for n in ast.walk(t):
                            if isinstance(n, ast.Name) and isinstance(n.ctx, ast.Store) and n.id not in self.derived and \
                                    not isinstance(t, (ast.Subscript, ast.Attribute)):
                                self.derived.add(n.id)
                                changed = True
        self.tests = [c for c in ast.walk(loop) if isinstance(c, ast.Call) and isinstance(c.func, ast.Attribute) and
                      c.func.attr == 'startswith' and isinstance(c.func.value, ast.Name) and c.func.value.id in self.derived
                      and len(c.args) == 1 and not c.keywords]
        self.collects, self.reports = [], []
        for st in ast.walk(loop):
            if isinstance(st, ast.Expr) and isinstance(st.value, ast.Call) and isinstance(st.value.func, ast.Attribute) and \
                    isinstance(st.value.func.value, ast.Name) and st.value.func.value.id not in self.derived and \
                    st.value.func.attr in ('append', 'appendleft', 'extend', 'add', 'insert') and st.value.args:
                arg = st.value.args[-1]
                if isinstance(arg, ast.Name) and arg.id in self.derived:
                    self.collects.append((st, st.value.func.value.id))
                elif _names_in(arg) & self.derived:
                    self.reports.append((st, st.value.func.value.id, arg))
            elif isinstance(st, (ast.Assign, ast.AugAssign)):
                targets = st.targets if isinstance(st, ast.Assign) else [st.target]
                for t in targets:
                    if isinstance(t, ast.Subscript) and isinstance(t.value, ast.Name) and t.value.id not in self.derived and \
                            _names_in(st.value) & self.derived:
                        self.reports.append((st, t.value.id, st.value))


def _readers(repo, server, owner):
    """[_Reader] for the loops over ``<something>.stderr`` in ``owner``, the functions nested in it, and the functions
    of the module it calls by name or hands to ``partial`` (with the mapping parameter -> argument of that call)."""
    base = _c20()
    out = []
    scopes = [(owner, None)] + [(g, None) for g in _nested_scopes(server, owner)]
    for c in walk_body(owner.node):
        if not isinstance(c, ast.Call):
            continue
        callee, args = c.func, list(c.args)
        if call_tail(c) == 'partial' and c.args:
            callee, args = c.args[0], list(c.args[1:])
        if not isinstance(callee, ast.Name) or callee.id in base._all_params(owner) or assigned_value(owner.node, callee.id):
            continue
        try:
            kind, m, g = repo.resolve(server, callee.id)
        except Exception:
            continue
        if kind != 'func' or m is not server or g.node is owner.node:
            continue
        gps = g.params()
        binding = dict((gps[i], a) for i, a in enumerate(args) if i < len(gps) and not isinstance(a, ast.Starred))
        for k in c.keywords:
            if k.arg in gps:
                binding[k.arg] = k.value
        if not any(s is g for s, _ in scopes):
            scopes.append((g, binding))
    for sc, binding in scopes:
        for st in walk_body(sc.node):
            if isinstance(st, (ast.For, ast.AsyncFor)) and \
                    any(isinstance(n, ast.Attribute) and n.attr == 'stderr' for n in ast.walk(st.iter)):
                r = _Reader(sc, st)
                r.binding = binding
                out.append(r)
    return out


def _owner_name(owner, reader, name):
    """The local of ``owner`` that ``name`` of the reader's scope denotes: ('name', canonical name), ('own', None) when
    it is a local the reader's scope makes for itself, (None, None) when it cannot be told."""
    base = _c20()
    sc = reader.scope
    if sc is owner:
        return 'name', base._canon_name(owner, ast.Name(id=name, ctx=ast.Load()))
    if reader.binding is None:           # nested in owner: a free variable is the owner's local
        if name in base._all_params(sc):
            return None, None
        if assigned_value(sc.node, name):
            declared = set()
            for n in walk_body(sc.node):
                if isinstance(n, ast.Nonlocal):
                    declared.update(n.names)
            return ('name', base._canon_name(owner, ast.Name(id=name, ctx=ast.Load()))) if name in declared else ('own', None)
        return 'name', base._canon_name(owner, ast.Name(id=name, ctx=ast.Load()))
    if name in reader.binding and not assigned_value(sc.node, name):
        a = reader.binding[name]
        if isinstance(a, ast.Name):
            return 'name', base._canon_name(owner, a)
        return None, None
    if assigned_value(sc.node, name) and name not in base._all_params(sc):
        return 'own', None
    return None, None


def _fold_str(repo, sc, e):
    base = _c20()
    v = base._fold(repo, sc, e)
    return v if isinstance(v, str) else None


def _stripped_prefixes(repo, sc, value, derived):
    """What the report expression strips off the line: [('text', str) | ('len', int)] read off ``line[len(P):]`` /
    ``line[<int>:]`` / ``line.split(P, 1)`` / ``.partition(P)`` / ``.replace(P, '')`` / ``.removeprefix(P)``."""
    base = _c20()
    out = []
    todo, seen = [value], set()
    while todo:
        e = todo.pop()
        for n in ast.walk(e):
            if isinstance(n, ast.Name) and n.id in derived and n.id not in seen:
                seen.add(n.id)
                for st, v, idx in assigned_value(sc.node, n.id):
                    if v is not None and isinstance(st, ast.Assign):
                        todo.append(v)
            if isinstance(n, ast.Subscript) and isinstance(n.slice, ast.Slice) and n.slice.lower is not None and \
                    isinstance(n.value, ast.Name) and n.value.id in derived:
                lo = base._deref(sc, n.slice.lower)
                if isinstance(lo, ast.Call) and call_name(lo) == 'len' and len(lo.args) == 1:
                    s = _fold_str(repo, sc, lo.args[0])
                    if s is not None:
                        out.append(('text', s))
                else:
                    k = base._fold(repo, sc, lo)
                    if isinstance(k, int) and not isinstance(k, bool):
                        out.append(('len', k))
            if isinstance(n, ast.Call) and isinstance(n.func, ast.Attribute) and isinstance(n.func.value, ast.Name) and \
                    n.func.value.id in derived and n.func.attr in ('split', 'partition', 'replace', 'removeprefix', 'lstrip') and n.args:
                s = _fold_str(repo, sc, n.args[0])
                if s is not None and n.func.attr != 'lstrip':
                    out.append(('text', s))
    return out


def _written_prefixes(repo, server, readers):
    """Constant strings named in what the module writes to ``sys.stderr`` outside the reader loops (the child's side of
    the pipe): [(function, write call, [folded strings])]."""
    base = _c20()
    in_readers = set(id(n) for r in readers for n in ast.walk(r.loop))
    out = []
    for q, fi in sorted(server.functions.items()):
        for c in walk_body(fi.node):
            if not (isinstance(c, ast.Call) and isinstance(c.func, ast.Attribute) and c.func.attr == 'write' and
                    norm(c.func.value).endswith('stderr') and len(c.args) == 1) or id(c) in in_readers:
                continue
            strs = []
            for n in ast.walk(base._deref(fi, c.args[0])):
                if isinstance(n, ast.Name) and isinstance(n.ctx, ast.Load):
                    s = _fold_str(repo, fi, n)
                    if s is not None:
                        strs.append(s)
            if strs:
                out.append((fi, c, strs))
    return out


def stderr_to_hook(rep, fs):
    base = _c20()
    repo = fs.repo
    server = repo.mod('clastic.server')
    rep.rule('R20.g', 'the lines the child wrote to stderr are sorted by one prefix test into the file-list report and the '
                      'error text, and the error hook is given the whole of the collected text')
    rwr = server.functions.get('restart_with_reloader')
    if rwr is None or not rwr.params():
        rep.notes.append('R20.g declined: restart_with_reloader(error_func) not found')
        return
    owner, hooks, X = base.locate_hook(repo, server, rwr)
    if len(hooks) != 1:
        rep.notes.append('R20.g declined: the call of the error hook (text, files) was not found')
        return
    hook = hooks[0]
    readers = [r for r in _readers(repo, server, owner) if r.tests or r.collects or r.reports]
    if not readers:
        rep.notes.append('R20.g declined: the loop reading the child\'s stderr was not found in %s or the functions it calls' % owner.qualname)
        return
    receivers = set()        # owner-level names of the containers the lines are collected in
    prefixes = set()
    for r in readers:
        sc = r.scope
        if len(set(norm(t) for t in r.tests)) != 1:
            rep.notes.append('R20.g declined: %s has no single prefix test on the line' % sc.qualname)
            continue
        test = r.tests[0]
        p = _fold_str(repo, sc, test.args[0])

        def polarity(st):
            for t, pol in conds(sc, st):
                t, pol = _strip_not(t, pol)
                if norm(t) == norm(test):
                    return pol
            return None
        for st, recv in r.collects:
            pol = polarity(st)
            rep.check('R20.g', fkey(sc, st), pol is not True,
                      'a line is collected as error text where it does not carry the report prefix' if pol is not True else
                      '%s runs where %s holds: the lines carrying the file-list report are collected as the error text (and the '
                      'others take the report branch)' % (short(st, 50), short(test, 50)), server, st)
            kind, name = _owner_name(owner, r, recv)
            if kind == 'own':
                rep.fail('R20.g', fkey(sc, 'collection %s' % recv),
                         '%s collects the lines in %s, a local of its own: the text the error hook is given never sees them'
                         % (sc.qualname, recv), server, st)
            elif kind == 'name' and name is not None:
                receivers.add(name)
        for st, recv, value in r.reports:
            pol = polarity(st)
            rep.check('R20.g', fkey(sc, st), pol is True,
                      'the file-list report is parsed from a line known to carry the prefix' if pol is True else
                      '%s runs %s: a line that is not the report is parsed as the file list' %
                      (short(st, 60), 'where %s does not hold' % short(test, 40) if pol is False else 'whatever the line starts with'),
                      server, st)
            if p is not None:
                for what, v in _stripped_prefixes(repo, sc, value, r.derived):
                    same = (v == p) if what == 'text' else (v == len(p))
                    rep.check('R20.g', fkey(sc, 'prefix stripped'), same,
                              'the prefix that is tested is the prefix that is stripped' if same else
                              'the line is tested for the prefix %r but %s is stripped off it: the report does not parse'
                              % (p, repr(v) if what == 'text' else '%d characters' % v), server, st)
        if p is not None:
            prefixes.add(p)
    if len(prefixes) == 1:
        p = next(iter(prefixes))
        for fi, c, strs in _written_prefixes(repo, server, readers):
            ok = p in strs
            rep.check('R20.g', fkey(fi, 'report prefix written'), ok,
                      'the child announces its file list with the prefix the parent looks for' if ok else
                      'the child writes its report with %r, the parent looks for %r: the monitored-file list never arrives'
                      % (strs, p), server, c)
    if owner is not rwr and not receivers:
        rep.notes.append('R20.g declined: the text handed to the hook in %s cannot be related to the reader' % owner.qualname)
        return
    if not receivers:
        rep.notes.append('R20.g declined: no statement collecting the lines of the child was found')
        return
    text = hook.args[0]
    if isinstance(text, ast.Name):
        v = base._single_value(owner, base._canon_name(owner, text))
        text = v if v is not None else text
    key = fkey(owner, 'error text')
    inner = None
    if isinstance(text, ast.Call) and isinstance(text.func, ast.Attribute) and text.func.attr == 'join' and len(text.args) == 1 and \
            isinstance(base._fold(repo, owner, text.func.value), str):
        inner = text.args[0]
        while isinstance(inner, ast.Call) and call_name(inner) in ('list', 'tuple', 'iter') and len(inner.args) == 1:
            inner = inner.args[0]
        if isinstance(inner, (ast.GeneratorExp, ast.ListComp)) and len(inner.generators) == 1 and not inner.generators[0].ifs and \
                isinstance(inner.elt, ast.Name) and norm(inner.elt) == norm(inner.generators[0].target):
            inner = inner.generators[0].iter
    if isinstance(inner, ast.Name):
        name = base._canon_name(owner, inner)
        ok = name in receivers
        rep.check('R20.g', key, ok, 'the hook is given the join of the collected lines (%s)' % name if ok else
                  'the hook is given the join of %s, but the child\'s lines are collected in %s' % (name, sorted(receivers)),
                  server, hook)
        return
    mentioned = set(base._canon_name(owner, ast.Name(id=n, ctx=ast.Load())) for n in _names_in(text))
    if not mentioned & receivers:
        rep.fail('R20.g', key, 'the text handed to the hook (%s) is not made from what was collected from the child\'s stderr (%s)'
                 % (short(text, 50), sorted(receivers)), server, hook)
        return
    picks_one = (isinstance(text, ast.Subscript) and not isinstance(text.slice, ast.Slice)) or \
        (isinstance(text, ast.Call) and isinstance(text.func, ast.Attribute) and text.func.attr in ('pop', 'popleft'))
    if picks_one and isinstance(text.value if isinstance(text, ast.Subscript) else text.func.value, ast.Name):
        rep.fail('R20.g', key, 'the hook is given one element of the collected lines (%s), not the text the child wrote' % short(text, 50),
                 server, hook)
        return
    rep.notes.append('R20.g declined: how %s is made from the collected lines cannot be followed' % short(text, 50))


# ------------------------------------------------------------------------------------------------ R20.h served and taken down
def _cleanup_calls(repo, server, owner, S):
    """{method name: [statements of ``owner``]} for the expression statements that call a method on the server ``S`` --
    directly, or through a function of the module that is handed ``S`` and calls methods on that parameter."""
    base = _c20()
    out = {}
    for st in stmts_of(owner.node):
        if not (isinstance(st, ast.Expr) and isinstance(st.value, ast.Call)):
            continue
        c = st.value
        if isinstance(c.func, ast.Attribute) and isinstance(c.func.value, ast.Name) and base._canon_name(owner, c.func.value) == S:
            out.setdefault(c.func.attr, []).append(st)
            continue
        g = base._module_callee(repo, owner, c)
        if g is None:
            continue
        gps = g.params()
        for i, a in enumerate(c.args):
            if isinstance(a, ast.Name) and base._canon_name(owner, a) == S and i < len(gps) and not assigned_value(g.node, gps[i]):
                for c2 in walk_body(g.node):
                    if isinstance(c2, ast.Call) and isinstance(c2.func, ast.Attribute) and isinstance(c2.func.value, ast.Name) and \
                            c2.func.value.id == gps[i]:
                        out.setdefault(c2.func.attr, []).append(st)
    return out


def _known_given(fi, node, name, depth=0):
    """The path conditions at ``node`` say the (never re-bound) parameter ``name`` is truthy / not None -- directly, or
    through a flag that holds there: a local bound by several plain assignments (the shape a predicate with several
    returns takes once it is inlined) was last bound at one of the sites whose value is not a false constant, so what
    holds at every such site (and the value assigned there) holds here, as far as it talks about ``name``."""
    from ..cfg import expand_conds
    if assigned_value(fi.node, name) or depth > 3:
        return False
    cs = conds(fi, node)
    if implies_present(cs, name):
        return True
    for t, pol in cs:
        t, pol = _strip_not(t, pol)
        if not (isinstance(t, ast.Name) and pol is True and t.id != name):
            continue
        binds = assigned_value(fi.node, t.id)
        if not binds or not all(isinstance(st, ast.Assign) and idx is None for st, v, idx in binds):
            continue
        sites = [(st, v) for st, v, idx in binds if not (isinstance(v, ast.Constant) and not v.value)]
        if sites and all(implies_present(expand_conds([(v, True)]), name) or _known_given(fi, st, name, depth + 1) for st, v in sites):
            return True
    return False


def served_and_taken_down(rep, fs):
    base = _c20()
    repo = fs.repo
    server = repo.mod('clastic.server')
    rep.rule('R20.h', 'the error hook is called only where it is given; the server it returns is shut down on every way back into the '
                      'restart loop; the server that is started and returned serves the application flaw.create_app built')
    # -- the function that builds the failsafe: create_app -> server constructor -> serve_forever, return
    builders = [(fi, c) for q, fi in sorted(server.functions.items()) for c in walk_body(fi.node)
                if isinstance(c, ast.Call) and call_tail(c) == 'create_app']
    if not builders:
        rep.notes.append('R20.h declined: no call of flaw.create_app found in server.py')
    for fi, c in builders:
        _builder_chain(rep, repo, server, fi, c)
    # -- the restart loop
    rwr = server.functions.get('restart_with_reloader')
    if rwr is None or not rwr.params():
        rep.notes.append('R20.h declined: restart_with_reloader(error_func) not found')
        return
    owner, hooks, X = base.locate_hook(repo, server, rwr)
    if len(hooks) != 1:
        rep.notes.append('R20.h declined: the call of the error hook (text, files) was not found')
        return
    hook = hooks[0]
    if owner is rwr:
        _hook_is_the_builder(rep, repo, server, rwr, hook.func.id, [fi for fi, c in builders])
    given = _known_given(owner, hook, hook.func.id)
    rep.check('R20.h', fkey(owner, 'hook given'), given,
              'the error hook is only called where it is known to be given' if given else
              'the error hook %s is called on a path where it may be None (the launcher was started without one): TypeError instead of '
              'the failsafe' % short(hook, 40), server, hook)
    st = stmt_of(server, hook)
    S = None
    if isinstance(st, ast.Assign) and st.value is hook and len(st.targets) == 1 and isinstance(st.targets[0], ast.Name):
        S = base._canon_name(owner, st.targets[0])
    elif isinstance(st, (ast.With, ast.AsyncWith)) and any(it.context_expr is hook or
                                                            (isinstance(it.context_expr, ast.Call) and hook in it.context_expr.args)
                                                            for it in st.items):
        rep.ok('R20.h', fkey(owner, 'error server taken down'), 'the error server is held by a with block', server, st)
        return
    if S is None:
        if isinstance(st, ast.Expr) and st.value is hook:
            rep.fail('R20.h', fkey(owner, 'error server taken down'),
                     'the server the error hook returns is dropped (%s): it can never be shut down, the next start finds the address taken '
                     'and the old page keeps being served' % short(st, 50), server, st)
        else:
            rep.notes.append('R20.h declined: what becomes of the server returned by %s cannot be followed' % short(hook, 40))
        return
    if any(isinstance(w, (ast.With, ast.AsyncWith)) and
           any(S in set(base._canon_name(owner, n) for n in ast.walk(it.context_expr) if isinstance(n, ast.Name)) for it in w.items)
           for w in stmts_of(owner.node)):
        rep.ok('R20.h', fkey(owner, 'error server taken down'), 'the error server is held by a with block', server, st)
        return
    cleanup = _cleanup_calls(repo, server, owner, S)
    if not cleanup:
        rep.fail('R20.h', fkey(owner, 'error server taken down'),
                 'no method is ever called on the server the error hook returned (%s): it is never shut down' % S, server, st)
        return
    cfg = cfg_of(owner)
    loops = base._enclosing_loops(owner, st)
    if loops:
        dsts = [n for l in loops for n in cfg.nodes_of(l)]
        where = 'back to the head of the restart loop'
    else:
        dsts = [cfg.exit]
        where = 'out of %s' % owner.qualname
    srcs = [m for n in cfg.nodes_of(st) for m in cfg.succ[n] if (n, m) not in cfg.exc_edges]
    for meth in sorted(cleanup):
        through = cfg.nodes_of_all(cleanup[meth])
        ok = cfg.must_pass(through, src=srcs, dst=dsts)
        rep.check('R20.h', fkey(owner, 'error server %s' % meth), ok,
                  'every way %s passes %s.%s()' % (where, S, meth) if ok else
                  'there is a way from the error hook %s that skips %s.%s(): the old failsafe keeps the address (and keeps answering with '
                  'the old text) while the program is started again' % (where, S, meth), server, cleanup[meth][0])


def _hook_is_the_builder(rep, repo, server, rwr, hookname, builders):
    """What reaches the hook parameter of restart_with_reloader is the function that builds the failsafe: every call of
    restart_with_reloader in the module passes the hook on (as a parameter of the calling function), and every call of
    that function passes a builder (a function that calls flaw.create_app)."""
    base = _c20()
    ps = rwr.params()
    if hookname not in ps or not builders:
        return
    builder_nodes = set(id(b.node) for b in builders)

    def resolves_to_builder(fi, a):
        a = base._deref(fi, a)
        if not isinstance(a, ast.Name):
            return None
        scope = fi
        while scope is not None:
            g = server.functions.get('%s.%s' % (scope.qualname, a.id))
            if g is not None:
                return id(g.node) in builder_nodes
            up = scope.qualname.rpartition('.')[0]
            scope = server.functions.get(up) if up else None
        g = server.functions.get(a.id)
        if g is not None:
            return id(g.node) in builder_nodes
        return None

    def follow(callee, pname, depth=0):
        """Judge every call of ``callee`` in the module for its parameter ``pname``."""
        if depth > 3:
            return
        from ..astutil import argn
        cps = callee.params()
        for q, fi in sorted(server.functions.items()):
            for c in walk_body(fi.node):
                if not (isinstance(c, ast.Call) and isinstance(c.func, ast.Name) and c.func.id == callee.name) or \
                        any(isinstance(a, ast.Starred) for a in c.args) or any(k.arg is None for k in c.keywords):
                    continue
                a = argn(c, pname, cps.index(pname))
                key = fkey(fi, 'hook passed to %s' % callee.name)
                if a is None or (isinstance(a, ast.Constant) and a.value is None):
                    rep.fail('R20.h', key, '%s calls %s without the error hook: a start-up that fails is never answered with the failsafe'
                             % (fi.qualname, short(c, 50)), server, c)
                    continue
                p = base._param_behind(fi, a)
                if p is not None:
                    rep.ok('R20.h', key, '%s passes its own hook parameter %s on' % (fi.qualname, p), server, c)
                    follow(fi, p, depth + 1)
                    continue
                v = resolves_to_builder(fi, a)
                if v is None:
                    rep.notes.append('R20.h declined: what %s passes as the error hook (%s) cannot be followed' % (fi.qualname, short(a, 40)))
                    continue
                rep.check('R20.h', key, v, 'the hook is the function that builds the failsafe' if v else
                          '%s passes %s as the error hook, which does not build the failsafe (it never calls flaw.create_app)'
                          % (fi.qualname, short(a, 40)), server, c)
    follow(rwr, hookname)


def _builder_chain(rep, repo, server, fi, create_call):
    base = _c20()
    st = stmt_of(server, create_call)
    # the call the application is handed to
    A = None
    if isinstance(st, ast.Assign) and st.value is create_call and len(st.targets) == 1 and isinstance(st.targets[0], ast.Name):
        A = base._canon_name(fi, st.targets[0])
    ctor = None
    for c in walk_body(fi.node):
        if not isinstance(c, ast.Call) or c is create_call:
            continue
        for a in list(c.args) + [k.value for k in c.keywords]:
            if a is create_call or (A is not None and isinstance(a, ast.Name) and base._canon_name(fi, a) == A):
                ctor = c
    key = fkey(fi, 'failsafe served')
    if ctor is None:
        if A is None and not (isinstance(st, ast.Expr) and st.value is create_call):
            rep.notes.append('R20.h declined: what becomes of %s in %s cannot be followed' % (short(create_call, 40), fi.qualname))
            return
        rep.fail('R20.h', key, 'the application %s returns is handed to nothing in %s: whatever is served there, it is not the failsafe'
                 % (short(create_call.func, 30), fi.qualname), server, create_call)
        return
    cst = stmt_of(server, ctor)
    S = None
    if isinstance(cst, ast.Assign) and cst.value is ctor and len(cst.targets) == 1 and isinstance(cst.targets[0], ast.Name):
        S = base._canon_name(fi, cst.targets[0])
    rets = returns_of(fi)
    if S is None:
        if isinstance(cst, ast.Return) and cst.value is ctor:
            rep.fail('R20.h', key, 'the server built for the failsafe is returned without its serve_forever ever being started', server, cst)
        else:
            rep.notes.append('R20.h declined: what becomes of %s in %s cannot be followed' % (short(ctor, 40), fi.qualname))
        return
    started = [n for n in walk_body(fi.node) if isinstance(n, ast.Attribute) and n.attr == 'serve_forever' and
               isinstance(n.value, ast.Name) and base._canon_name(fi, n.value) == S]
    rep.check('R20.h', key, bool(started),
              'the application create_app built is given to %s and that server is started' % short(ctor.func, 30) if started else
              'serve_forever of the server built for the failsafe (%s) is never started: nothing answers' % S, server, ctor)
    good = bool(rets) and all(isinstance(r.value, ast.Name) and base._canon_name(fi, r.value) == S for r in rets)
    rep.check('R20.h', fkey(fi, 'failsafe server returned'), good,
              'the server that is started is the one returned to the restart loop' if good else
              '%s does not return the server it started (%s): the restart loop cannot shut the failsafe down'
              % (fi.qualname, S), server, rets[0] if rets else fi.node)
