"""C15, rule R15.e -- header-backed attributes of the next() result are optional and must not be dereferenced blindly.

werkzeug's response descriptors ``content_type``, ``content_encoding``, ``content_length``, ``location``, ... are
``header_property`` objects: reading one returns the header's value **or None when the header is absent** (read from
the pinned werkzeug source: ``_DictAccessorProperty.__get__`` returns ``self.default``, which is None unless the
descriptor is created with a default).  A built-in middleware that calls a method on such a value, tests membership
in it or subscripts it, without having established that it is not None, raises ``AttributeError`` / ``TypeError`` for
a perfectly valid response without that header -- the middleware turns that response into a 500 (finding F15:
``GzipMiddleware`` with an IE user agent and a response without Content-Type).

Decided: in every built-in middleware ``request`` function, for every value derived from ``next()``: each dereference
of ``resp.<nullable attribute>`` (directly or through a local assigned from exactly that attribute) is dominated by a
test that the value is truthy / not None, or is short-circuited by it (``x and x.startswith(..)``), or the value was
defaulted first (``resp.content_type or ''``).
"""
import ast

from ..core import AnalysisError, norm, short
from .common import cfg_of, conds, fkey, walk_body, implies_present, stmts_of


def nullable_response_attrs(repo):
    """{attribute name: defining werkzeug class} for header_property descriptors without a non-None default."""
    out = {}
    for modname in ('werkzeug.wrappers.common_descriptors', 'werkzeug.wrappers.etag', 'werkzeug.wrappers.base_response'):
        m = repo.try_mod(modname)
        if m is None:
            continue
        for ci in m.classes.values():
            for name, v in ci.class_attrs.items():
                if isinstance(v, ast.Call) and norm(v.func).rpartition('.')[2] == 'header_property':
                    dflt = v.args[1] if len(v.args) > 1 else None
                    for k in v.keywords:
                        if k.arg == 'default':
                            dflt = k.value
                    if dflt is None or (isinstance(dflt, ast.Constant) and dflt.value is None):
                        out[name] = ci
    if len(out) < 5 or 'content_type' not in out:
        raise AnalysisError('werkzeug header_property descriptors not found (%d)' % len(out))
    return out


def _deref_kind(mod, node):
    """How the value of expression ``node`` is dereferenced by its parent, or None."""
    par = mod.parents.get(node)
    if isinstance(par, ast.Attribute) and par.value is node:
        gp = mod.parents.get(par)
        if isinstance(gp, ast.Call) and gp.func is par:
            return 'method call .%s()' % par.attr
        return 'attribute .%s' % par.attr
    if isinstance(par, ast.Subscript) and par.value is node:
        return 'subscript'
    if isinstance(par, ast.Compare) and any(c is node for c in par.comparators) and \
            any(isinstance(op, (ast.In, ast.NotIn)) for op in par.ops):
        return 'membership test'
    if isinstance(par, ast.Call) and isinstance(par.func, ast.Name) and par.func.id in ('len', 'iter', 'sorted', 'list', 'tuple', 'set') \
            and node in par.args:
        return '%s()' % par.func.id
    return None


def _short_circuited(mod, node, text):
    """``text and <... node ...>`` / ``not text or <...>``: an earlier operand of an enclosing BoolOp establishes it."""
    cur = node
    while True:
        par = mod.parents.get(cur)
        if par is None or isinstance(par, ast.stmt):
            return False
        if isinstance(par, ast.BoolOp):
            idx = [i for i, v in enumerate(par.values) if v is cur]
            if idx:
                earlier = par.values[:idx[0]]
                if isinstance(par.op, ast.And) and any(norm(e) == text or norm(e) == '%s is not None' % text for e in earlier):
                    return True
                if isinstance(par.op, ast.Or) and any(norm(e) in ('not %s' % text, '%s is None' % text) for e in earlier):
                    return True
        if isinstance(par, ast.IfExp) and (cur is par.body) and norm(par.test) in (text, '%s is not None' % text):
            return True
        cur = par


def check_nullable_derefs(rep, rule):
    from .c15 import middleware_functions, next_derived
    repo = rep.repo
    nullable = nullable_response_attrs(repo)
    n_funcs = n_reads = 0
    for fi in middleware_functions(repo):
        nd = next_derived(fi)
        if not nd:
            continue
        n_funcs += 1
        mod = fi.mod
        # locals that hold exactly such an attribute's value
        carriers = {}
        for s in stmts_of(fi.node):
            if isinstance(s, ast.Assign) and len(s.targets) == 1 and isinstance(s.targets[0], ast.Name):
                v = s.value
                if isinstance(v, ast.Attribute) and isinstance(v.value, ast.Name) and v.value.id in nd and v.attr in nullable:
                    carriers.setdefault(s.targets[0].id, []).append(v.attr)
                else:
                    carriers.setdefault(s.targets[0].id, []).append(None)
        carriers = dict((k, v[0]) for k, v in carriers.items() if len(v) == 1 and v[0] is not None)
        for n in walk_body(fi.node):
            attr = None
            if isinstance(n, ast.Attribute) and isinstance(n.value, ast.Name) and n.value.id in nd and n.attr in nullable \
                    and isinstance(n.ctx, ast.Load):
                attr = n.attr
            elif isinstance(n, ast.Name) and n.id in carriers and isinstance(n.ctx, ast.Load):
                attr = carriers[n.id]
            if attr is None:
                continue
            n_reads += 1
            kind = _deref_kind(mod, n)
            if kind is None:
                continue
            text = norm(n)
            ok = implies_present(conds(fi, n), text) or _short_circuited(mod, n, text)
            rep.check(rule, fkey(fi, '%s %s' % (text, kind)), ok,
                      '%s (%s) only where the header is known to be present' % (text, kind) if ok else
                      '%s is None when the response has no %s header (werkzeug %s.%s is a header_property without default), and it is used '
                      'here as %s without a test: a valid response without that header raises inside the middleware and is replaced by a 500'
                      % (text, attr.replace('_', '-').title(), nullable[attr].name, attr, kind), mod, n)
    rep.ok(rule, 'clastic.middleware::nullable header attributes',
           '%d built-in middleware functions, %d reads of %d nullable werkzeug response attributes inspected'
           % (n_funcs, n_reads, len(nullable)))
    if n_funcs < 4:
        raise AnalysisError('only %d middleware functions with a next() result found (floor 4)' % n_funcs)
