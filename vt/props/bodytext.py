"""Total encoding of response bodies built from arbitrary text (rules R08.h, R17.h, R20.g).

werkzeug encodes a ``str`` body strictly (``value.encode(self.charset)`` in ``BaseResponse.set_data`` / ``__init__`` and in
``iter_encoded``): text that contains a lone surrogate -- an exception message, a file name decoded with
``surrogateescape``, any ``str`` an endpoint returns -- raises ``UnicodeEncodeError`` *while the response is being built*.

  * C08 (R08.h): the response in question is the 500 being made from an uncaught exception, inside the ``except`` clause
    of ``Application.dispatch``: the exception leaves the WSGI callable (finding F16).  Decided for ``HTTPException`` and
    every subclass in the tree: every expression that reaches the response body -- the ``response`` argument of the
    base-class constructor call, the right-hand side of ``self.data = ..`` / ``self.response = ..``, the argument of
    ``self.set_data(..)`` -- is ``bytes`` from ``<text>.encode(<charset>, <handler>)`` with a handler that cannot fail
    (``replace``, ``backslashreplace``, ``xmlcharrefreplace``, ``ignore``, ``namereplace``), a bytes constant, or the
    result of a method all of whose returns are of that kind.
  * C17 (R17.h): ``render_basic`` "turns any endpoint return value -- text, .. arbitrary objects -- into a 200 response
    without raising" (finding F17): in the basic and tabular renderers no text is encoded strictly and no text built by
    ``str()`` / ``repr()`` / ``%`` / ``.format`` / ``.join`` / a template is handed to ``Response(..)`` as ``str``.
    (JSON text from an encoder that escapes non-ASCII is not text in this sense and is not judged here.)
  * C20 (R20.g): the failsafe page "answers every path with a 200 page .. whatever that text is" (finding F18): the
    template renderer that produces the page hands bytes from a total encoding to ``Response(..)``.

The werkzeug side (strict encoding of ``str`` bodies) is read from the pinned werkzeug source: if ``set_data`` no longer
encodes with the bare charset, the rules report an analysis gap instead of judging.
"""
import ast

from ..core import AnalysisError, norm, short
from .common import fkey, stmts_of, returns_of, conds, has_cond, isinstance_test

ERR = 'clastic.errors'
TOTAL_HANDLERS = ('replace', 'backslashreplace', 'xmlcharrefreplace', 'ignore', 'namereplace')


def _werkzeug_encodes_strictly(repo):
    """BaseResponse.set_data: ``value = value.encode(self.charset)`` (no error handler) for str input."""
    m = repo.try_mod('werkzeug.wrappers.base_response')
    if m is None:
        raise AnalysisError('werkzeug.wrappers.base_response not found: cannot read how a str body is encoded')
    fi = m.functions.get('BaseResponse.set_data')
    if fi is None:
        raise AnalysisError('werkzeug BaseResponse.set_data not found')
    for n in ast.walk(fi.node):
        if isinstance(n, ast.Call) and isinstance(n.func, ast.Attribute) and n.func.attr == 'encode':
            if len(n.args) == 1 and not n.keywords:
                return True
    return False


def _single_assign(fnode, name):
    vals = [s.value for s in stmts_of(fnode) if isinstance(s, ast.Assign) and len(s.targets) == 1 and norm(s.targets[0]) == name]
    return vals[0] if len(vals) == 1 else None


def _kind(repo, ci, fi, e, depth=0, at=None):
    """'total' | 'strict' | 'text' | 'unknown' for an expression handed to the response body."""
    if depth > 6:
        return 'unknown', e
    if isinstance(e, ast.Constant):
        return ('total', e) if isinstance(e.value, bytes) else (('text', e) if isinstance(e.value, str) else ('unknown', e))
    if isinstance(e, ast.Name):
        assigns = [s for s in stmts_of(fi.node) if isinstance(s, ast.Assign) and len(s.targets) == 1 and norm(s.targets[0]) == e.id]
        if not assigns:
            return 'unknown', e
        if at is not None:
            if _sanitised_before(repo, fi, e.id, at):
                return 'total', e
            last = _last_binding_in_block(fi, e.id, at)
            if last is not None:
                assigns = [last]
        ks = []
        for a in assigns:
            v = a.value
            if isinstance(v, ast.Name) and len(assigns) > 1:
                # ``out = text`` on the branch where ``isinstance(text, bytes)`` holds: already bytes
                cs = conds(fi, a)
                if has_cond(cs, lambda t: isinstance_test(t, v.id, 'bytes'), True):
                    ks.append(('total', v))
                    continue
            ks.append(_kind(repo, ci, fi, v, depth + 1, a))
        for want in ('text', 'strict', 'unknown'):
            for k in ks:
                if k[0] == want:
                    return k
        return ks[0]
    if isinstance(e, ast.IfExp):
        ks = [_kind(repo, ci, fi, x, depth + 1) for x in (e.body, e.orelse)]
        for want in ('text', 'strict', 'unknown'):
            for k in ks:
                if k[0] == want:
                    return k
        return ks[0]
    if isinstance(e, ast.Call) and isinstance(e.func, ast.Attribute) and e.func.attr == 'encode':
        handler = None
        if len(e.args) >= 2:
            handler = e.args[1]
        for k in e.keywords:
            if k.arg == 'errors':
                handler = k.value
        if handler is None:
            return 'strict', e
        try:
            hv = repo.fold(handler, fi.mod)
        except Exception:
            hv = None
        if isinstance(hv, str):
            return ('total', e) if hv in TOTAL_HANDLERS else ('strict', e)
        return 'unknown', e
    if isinstance(e, ast.Call) and isinstance(e.func, ast.Attribute) and isinstance(e.func.value, ast.Name) and e.func.value.id == 'self':
        meth = repo.find_method(ci, e.func.attr)
        if meth is not None and not meth.mod.external:
            # a serialiser (to_text / to_html / ..) returns text; an encoding helper returns bytes on every path
            rets = [r for r in returns_of(meth) if r.value is not None]
            if not rets:
                return 'unknown', e
            ks = [_kind(repo, repo_class_of(repo, meth, ci), meth, r.value, depth + 1) for r in rets]
            for want in ('text', 'strict', 'unknown'):
                for k in ks:
                    if k[0] == want:
                        return (want, e) if want != 'unknown' else ('text' if _looks_textual(meth) else 'unknown', e)
            return 'total', e
        return 'unknown', e
    if isinstance(e, ast.Call) and isinstance(e.func, ast.Name) and _dyn_dispatch_kind(repo, ci, fi, e) is not None:
        return _dyn_dispatch_kind(repo, ci, fi, e), e      # ``_method = getattr(self, 'to_' + fmt); _method()``: a serialiser's text
    if isinstance(e, ast.Call) and isinstance(e.func, ast.Name):
        kind, m, obj = repo.resolve(fi.mod, e.func.id)
        if kind == 'func' and m is not None and not m.external:
            rets = [r for r in returns_of(obj) if r.value is not None]
            ks = [_kind(repo, ci, obj, r.value, depth + 1) for r in rets]
            if ks and all(k[0] == 'total' for k in ks):
                return 'total', e
            for want in ('text', 'strict'):
                for k in ks:
                    if k[0] == want:
                        return want, e
        if e.func.id in ('str', 'repr', 'unicode'):
            return 'text', e
        if e.func.id == 'bytes':
            return 'unknown', e
        return 'unknown', e
    if isinstance(e, (ast.JoinedStr, ast.BinOp)):
        # string building: '%s' % .., a + b, f-strings
        if isinstance(e, ast.BinOp) and isinstance(e.op, (ast.Mod, ast.Add)):
            l = _kind(repo, ci, fi, e.left, depth + 1)
            if l[0] == 'text' or isinstance(e.op, ast.Mod):
                return 'text', e
            return l
        return 'text', e
    if isinstance(e, ast.Call) and isinstance(e.func, ast.Attribute) and e.func.attr in ('join', 'format'):
        return 'text', e
    return 'unknown', e


def _looks_textual(meth):
    """A method whose returns are string building of some kind (join / format / % / f-string / a str constant)."""
    for r in returns_of(meth):
        v = r.value
        if isinstance(v, ast.JoinedStr) or (isinstance(v, ast.Constant) and isinstance(v.value, str)) or \
                (isinstance(v, ast.BinOp) and isinstance(v.op, (ast.Mod, ast.Add))) or \
                (isinstance(v, ast.Call) and isinstance(v.func, ast.Attribute) and v.func.attr in ('join', 'format', 'render')):
            return True
    return False


def repo_class_of(repo, meth, default):
    for c in meth.mod.classes.values():
        if meth.name in c.methods and c.methods[meth.name] is meth:
            return c
    return default


def _dyn_dispatch_kind(repo, ci, fi, e):
    """``_method = getattr(self, 'to_' + fmt_name)`` / ``_method()``: the serialisers ``to_*`` of the class -- text."""
    if isinstance(e, ast.Call) and isinstance(e.func, ast.Name) and not e.args:
        v = _single_assign(fi.node, e.func.id)
        if isinstance(v, ast.Call) and isinstance(v.func, ast.Name) and v.func.id == 'getattr' and len(v.args) >= 2 and \
                norm(v.args[0]) == 'self':
            return 'text'
        if isinstance(v, ast.Attribute) and norm(v.value) == 'self':
            return 'text'
    return None


def check_total_body_encoding(rep, rule):
    repo = rep.repo
    mod = repo.mod(ERR)
    base = mod.cls('HTTPException')
    if not _werkzeug_encodes_strictly(repo):
        raise AnalysisError('werkzeug BaseResponse.set_data does not encode str bodies with the bare charset any more: '
                            'the premise of R08.h has to be re-read')
    classes = [base] + [c for c in repo.subclasses(base) if not c.mod.external]
    n_sinks = 0
    for ci in classes:
        for mname, fi in sorted(ci.methods.items()):
            for n in ast.walk(fi.node):
                sink = None
                if isinstance(n, ast.Call):
                    f = n.func
                    # super(..).__init__(response=..) / BaseResponse.__init__(self, response)
                    if isinstance(f, ast.Attribute) and f.attr == '__init__' and mname == '__init__':
                        is_super = isinstance(f.value, ast.Call) and isinstance(f.value.func, ast.Name) and f.value.func.id == 'super'
                        if is_super and ci is base:
                            for k in n.keywords:
                                if k.arg == 'response':
                                    sink = ('constructor body', k.value)
                            if sink is None and n.args:
                                sink = ('constructor body', n.args[0])
                    elif isinstance(f, ast.Attribute) and f.attr == 'set_data' and norm(f.value) == 'self' and n.args:
                        sink = ('set_data', n.args[0])
                elif isinstance(n, ast.Assign):
                    for t in n.targets:
                        if isinstance(t, ast.Attribute) and norm(t.value) == 'self' and t.attr in ('data', 'response'):
                            sink = ('self.%s' % t.attr, n.value)
                if sink is None:
                    continue
                n_sinks += 1
                what, e = sink
                if isinstance(e, ast.Name) and has_cond(conds(fi, n), lambda t: isinstance_test(t, e.id, 'bytes'), True):
                    kind, at = 'total', e        # on the branch where the value is already bytes
                else:
                    kind, at = _kind(repo, ci, fi, e, 0, n)
                if kind == 'unknown':
                    dk = _dyn_dispatch_kind(repo, ci, fi, e)
                    if dk is not None:
                        kind = dk
                if kind == 'unknown':
                    raise AnalysisError('%s: cannot tell whether %s is text or encoded bytes' % (fi.key, short(e)))
                ok = kind == 'total'
                rep.check(rule, fkey(fi, '%s <- %s' % (what, short(e, 40))), ok,
                          'the body is bytes from an encoding that cannot fail' if ok else
                          '%s reaches the response body (%s): werkzeug encodes it strictly, so an error detail containing a lone '
                          'surrogate (an exception message, a surrogate-escaped file name) raises UnicodeEncodeError while the '
                          'error response is being built -- the exception leaves the WSGI callable instead of a 500'
                          % ('a str' if kind == 'text' else 'a strictly encoded text', what), mod if fi.mod is mod else fi.mod, n)
    if n_sinks == 0:
        raise AnalysisError('HTTPException: no place where the response body is set was found')
    return n_sinks


# ---------------------------------------------------------------------------------------------- renderers (R17.h, R20.g)
_CODECS = ('utf8', 'utf-8', 'utf_8', 'ascii', 'latin-1', 'latin1', 'utf-16', 'utf-32')


def _is_str_encode(repo, fi, call):
    """``x.encode('utf8')`` / ``x.encode(self.charset)`` / ``x.encode(encoding=..)`` -- as opposed to ``encoder.encode(obj)``."""
    if not (isinstance(call, ast.Call) and isinstance(call.func, ast.Attribute) and call.func.attr == 'encode'):
        return False
    if any(k.arg in ('encoding', 'errors') for k in call.keywords):
        return True
    if not call.args:
        return not call.keywords and True     # ``x.encode()``: str.encode with the default codec (a JSON encoder needs an argument)
    a = call.args[0]
    try:
        v = repo.fold(a, fi.mod)
    except Exception:
        v = None
    if isinstance(v, str):
        return v.lower() in _CODECS
    return isinstance(a, ast.Attribute) and a.attr in ('charset', 'encoding') and len(call.args) <= 2 and \
        not (isinstance(call.func.value, ast.Attribute) and 'encoder' in call.func.value.attr)


def _encode_is_total(repo, fi, call):
    handler = call.args[1] if len(call.args) >= 2 else None
    for k in call.keywords:
        if k.arg == 'errors':
            handler = k.value
    if handler is None:
        return False
    try:
        hv = repo.fold(handler, fi.mod)
    except Exception:
        hv = None
    return isinstance(hv, str) and hv in TOTAL_HANDLERS


def _text_kind(repo, fi, e, at, depth=0):
    """'total' | 'strict' | 'text' | 'other' for the first argument of a ``Response(..)`` call in a renderer."""
    if depth > 6:
        return 'other'
    if isinstance(e, ast.Constant):
        if isinstance(e.value, bytes):
            return 'total'
        if isinstance(e.value, str):
            try:
                e.value.encode('utf-8')
                return 'total'          # a constant that encodes: nothing arbitrary in it
            except UnicodeEncodeError:
                return 'text'
        return 'other'
    if isinstance(e, ast.Call) and isinstance(e.func, ast.Attribute) and e.func.attr == 'encode' and _is_str_encode(repo, fi, e):
        return 'total' if _encode_is_total(repo, fi, e) else 'strict'
    if isinstance(e, ast.Call) and isinstance(e.func, ast.Name) and e.func.id in ('str', 'repr', 'unicode', 'format'):
        return 'text'
    if isinstance(e, ast.JoinedStr):
        return 'text'
    if isinstance(e, ast.BinOp) and isinstance(e.op, ast.Mod):
        return 'text'
    if isinstance(e, ast.BinOp) and isinstance(e.op, ast.Add):
        ks = [_text_kind(repo, fi, x, at, depth + 1) for x in (e.left, e.right)]
        return 'text' if 'text' in ks else ('strict' if 'strict' in ks else ks[0])
    if isinstance(e, ast.Call) and isinstance(e.func, ast.Attribute) and e.func.attr in ('join', 'format', 'render', 'to_html', 'to_text'):
        if e.func.attr == 'join' and isinstance(e.func.value, ast.Constant) and isinstance(e.func.value.value, bytes):
            return 'other'
        return 'text'
    if isinstance(e, ast.Name):
        cs = conds(fi, at)
        if has_cond(cs, lambda t: isinstance_test(t, e.id, 'bytes'), True):
            return 'total' if not _strict_source(repo, fi, e.id) else 'strict'
        if _sanitised_before(repo, fi, e.id, at):
            return 'total'
        assigns = [s for s in stmts_of(fi.node) if isinstance(s, ast.Assign) and len(s.targets) == 1 and norm(s.targets[0]) == e.id]
        if not assigns:
            return 'other'
        last = _last_binding_in_block(fi, e.id, at)
        if last is not None:
            assigns = [last]          # an unconditional re-binding earlier in the same statement list decides
        ks = [_text_kind(repo, fi, a.value, a, depth + 1) for a in assigns]
        for want in ('text', 'strict', 'other'):
            if want in ks:
                return want
        return 'total'
    return 'other'


def _last_binding_in_block(fi, name, at):
    """The plain assignment ``name = ..`` that precedes the use in the same statement list with nothing in between that
    could re-bind the name (None when there is none)."""
    from ..astutil import stmt_of
    st = at if isinstance(at, ast.stmt) else stmt_of(fi.mod, at)
    parent = fi.mod.parents.get(st)
    for field in ('body', 'orelse', 'finalbody'):
        b = getattr(parent, field, None)
        if isinstance(b, list) and st in b:
            for j in range(b.index(st) - 1, -1, -1):
                s = b[j]
                if isinstance(s, ast.Assign) and len(s.targets) == 1 and norm(s.targets[0]) == name:
                    return s
                if any(isinstance(n, ast.Name) and n.id == name and isinstance(n.ctx, (ast.Store, ast.Del)) for n in ast.walk(s)):
                    return None
    return None


def _sanitised_before(repo, fi, name, at):
    """``if isinstance(name, str): name = name.encode(cs, <total handler>)`` earlier in the statement list that contains the
    use, with no other binding of ``name`` in between: at the use, ``name`` is not text any more."""
    from ..astutil import stmt_of
    st = at if isinstance(at, ast.stmt) else stmt_of(fi.mod, at)
    parent = fi.mod.parents.get(st)
    block = None
    for field in ('body', 'orelse', 'finalbody'):
        b = getattr(parent, field, None)
        if isinstance(b, list) and st in b:
            block = b
    if block is None:
        return False
    i = block.index(st)
    for j in range(i - 1, -1, -1):
        s = block[j]
        neg_bytes = isinstance(s, ast.If) and isinstance(s.test, ast.UnaryOp) and isinstance(s.test.op, ast.Not) and \
            isinstance_test(s.test.operand, name, 'bytes')
        if isinstance(s, ast.If) and not s.orelse and \
                (isinstance_test(s.test, name, 'str') or isinstance_test(s.test, name, 'unicode') or neg_bytes):
            sets = [x for x in s.body if isinstance(x, ast.Assign) and len(x.targets) == 1 and norm(x.targets[0]) == name]
            if len(sets) == 1 and len(s.body) == 1 and isinstance(sets[0].value, ast.Call) and \
                    _is_str_encode(repo, fi, sets[0].value) and norm(sets[0].value.func.value) == name and \
                    _encode_is_total(repo, fi, sets[0].value):
                return True
        if any(isinstance(n, ast.Name) and n.id == name and isinstance(n.ctx, (ast.Store, ast.Del)) for n in ast.walk(s)):
            return False
    return False


def _strict_source(repo, fi, name):
    """Is some assignment of ``name`` a strict ``.encode`` of text?"""
    for s in stmts_of(fi.node):
        if isinstance(s, ast.Assign) and len(s.targets) == 1 and norm(s.targets[0]) == name and \
                isinstance(s.value, ast.Call) and _is_str_encode(repo, fi, s.value) and not _encode_is_total(repo, fi, s.value):
            return True
    return False


def _response_ctor(repo, fi, call):
    if not isinstance(call, ast.Call):
        return False
    f = call.func
    name = f.id if isinstance(f, ast.Name) else (f.attr if isinstance(f, ast.Attribute) else None)
    return name in ('Response', 'BaseResponse') and bool(call.args or any(k.arg == 'response' for k in call.keywords))


def check_render_bodies(rep, rule, targets, floor):
    """``targets``: [(module name, [qualified function names])].  Judges, in those functions (nested functions included),
    every strict ``.encode`` of text and every ``Response(<text>)``."""
    repo = rep.repo
    if not _werkzeug_encodes_strictly(repo):
        raise AnalysisError('werkzeug BaseResponse.set_data does not encode str bodies with the bare charset any more: '
                            'the premise of %s has to be re-read' % rule)
    judged = 0
    for modname, quals in targets:
        mod = repo.mod(modname)
        for q in quals:
            fi = mod.func(q)
            for n in ast.walk(fi.node):
                if isinstance(n, ast.Call) and _is_str_encode(repo, fi, n) and not isinstance(n.func.value, ast.Constant):
                    ok = _encode_is_total(repo, fi, n)
                    judged += 1
                    rep.check(rule, fkey(fi, 'encode %s' % short(n.func.value, 30)), ok,
                              'text is encoded with a handler that cannot fail' if ok else
                              '%s encodes text strictly: a lone surrogate in it (a str an endpoint returned, a surrogate-escaped file '
                              'name) raises UnicodeEncodeError in the renderer instead of producing the 200 response' % short(n, 50),
                              fi.mod, n)
                elif _response_ctor(repo, fi, n):
                    arg = n.args[0] if n.args else [k.value for k in n.keywords if k.arg == 'response'][0]
                    # the function that lexically contains the call (a nested render closure has its own assignments)
                    inner = fi
                    enc = fi.mod.enclosing_function(n)
                    if enc is not None and enc is not fi.node:
                        inner = fi.mod.func_of_node(enc) or fi
                    kind = _text_kind(repo, inner, arg, n)
                    if kind == 'other':
                        continue           # not text built here (bytes passed through, a JSON encoder's output, an iterator)
                    if kind == 'strict':
                        continue           # judged at the .encode call itself
                    judged += 1
                    ok = kind == 'total'
                    rep.check(rule, fkey(inner, 'Response(%s)' % short(arg, 40)), ok,
                              'the body handed to the response is bytes from an encoding that cannot fail (or a constant)' if ok else
                              'Response(%s): a str built from arbitrary values is handed to werkzeug, which encodes it strictly: a lone '
                              'surrogate in it raises UnicodeEncodeError instead of producing the 200 response' % short(arg, 50),
                              inner.mod, n)
    if judged < floor:
        raise AnalysisError('%s: only %d text bodies / encodings found in the renderers (floor %d)' % (rule, judged, floor))
    return judged
