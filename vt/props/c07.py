"""C07 -- Trailing-slash redirects lead to the same resource in one hop.

Decided:
  R07.a  when a redirect may be issued: the single redirect(...) in dispatch is dominated by: pattern
         matched, method admitted, route.is_branch, normalised path != request path, slash_mode ==
         S_REDIRECT; the strict branch records a not-found error and continues without executing; with
         neither mode the path falls through to execute (rewrite); the canonicity test compares
         normalize_path(request path) and the request path in the same representation (both decoded, or both
         through the same URL-quoting call) -- a canonical path must be a fixed point of the test;
  R07.b  the Location is escaped: the path component (derived from request.path via normalize_path)
         passes through a URL-quoting function whose ``safe`` set does not contain '?', '#' or '%' before
         it is concatenated; the query component derives from request.query_string and is not re-quoted;
         the prefix derives from request.url_root.  (werkzeug's redirect() only applies
         iri_to_uri(safe_conversion=True), which leaves ?, # and % alone -- read from the pinned source --
         so it is not a sanitiser for this rule.)
  R07.e  the methods a route admits do not depend on earlier requests: the only writers of a ``.methods`` set are the
         constructors of Route / BoundRoute; the method that receives ``route.methods`` from dispatch (to build the 405's
         Allow) neither changes that object nor keeps it in a field it updates in place;
  R07.c  inheritance plumbing: BoundRoute.slash_mode = app.slash_mode if inherit_slashes else
         route.slash_mode and is the mode the pattern is compiled with; NullRoute binds with
         inherit_slashes=False and is constructed with S_REWRITE; every keyword a caller can put into the
         bind kwargs is popped by BoundRoute.__init__ (kwarg-name agreement); what add() itself enters under
         'inherit_slashes' lies below the caller's keywords (an explicit False wins) and is the route factory's own setting.
Declined: idempotence of normalize_path / "canonical path is a fixed point" as value statements;
behaviour of werkzeug's redirect().
"""
import ast
import re

from ..core import AnalysisError, norm, short
from .dispatch import DispatchView, strip_not, Defs, resolve_local, run_group
from ..astutil import argn
from .common import (cfg_of, fkey, conds, has_cond, cond_texts, stmts_of, walk_body, call_tail, call_name, returns_of,
                     stmt_of, kwarg, names_loaded)

APP, ROUTE = 'clastic.application', 'clastic.route'
QUOTERS = {'url_quote', 'quote', 'url_quote_plus_path', 'quote_from_bytes'}


def bind_kwargs_written(fi):
    """[(key, node, value expr or None)]: the literal keys ``fi`` puts into the keyword mapping it hands to a
    ``.bind(..)`` / ``bind_all(..)`` / ``BoundRoute(..)`` call -- explicit keywords of that call, the keys of the
    ``**mapping`` (dict display / dict(..) / later .update / .setdefault / item stores, through the local that holds it),
    and item stores / setdefaults whose key runs over a constant tuple (``for k in ('a', 'b'): kw.setdefault(k, ..)``)."""
    from .. import layers
    out, seen = [], set()
    calls = [c for c in walk_body(fi.node) if isinstance(c, ast.Call) and call_tail(c) in ('bind', 'bind_all', 'BoundRoute') and
             any(k.arg is None for k in c.keywords)]
    for c in calls:
        for k in c.keywords:
            if k.arg is not None:
                out.append((k.arg, c, k.value))
                continue
            x = k.value
            if isinstance(x, ast.Name):
                if x.id in seen:
                    continue
                seen.add(x.id)
                lay = layers.layers_of_var(fi.node, x.id)
                var = x.id
                for lp in [s for s in stmts_of(fi.node) if isinstance(s, ast.For) and isinstance(s.target, ast.Name) and
                           isinstance(s.iter, (ast.Tuple, ast.List)) and all(isinstance(e, ast.Constant) for e in s.iter.elts)]:
                    for n in ast.walk(lp):
                        key_expr = None
                        if isinstance(n, ast.Call) and norm(n.func) == '%s.setdefault' % var and n.args:
                            key_expr = n.args[0]
                        elif isinstance(n, ast.Assign) and isinstance(n.targets[0], ast.Subscript) and norm(n.targets[0].value) == var:
                            key_expr = n.targets[0].slice
                        if isinstance(key_expr, ast.Name) and key_expr.id == lp.target.id:
                            out.extend((e.value, n, None) for e in lp.iter.elts)
            else:
                lay = layers.layers_of_expr(x)
            for l in lay:
                if l.kind == 'literal':
                    out.extend((key, l.node, (l.values or {}).get(key)) for key in l.keys)
    return out


def bind_kwarg_agreement(rep, rule):
    """Keys written into bind kwargs by callers are a subset of the keys BoundRoute.__init__ pops."""
    repo = rep.repo
    route, app = repo.mod(ROUTE), repo.mod(APP)
    bi = route.func('BoundRoute.__init__')
    kwname = bi.node.args.kwarg.arg if bi.node.args.kwarg is not None else 'kwargs'
    popped = {}
    for c in walk_body(bi.node):
        if isinstance(c, ast.Call) and norm(c.func) == '%s.pop' % kwname and c.args and isinstance(c.args[0], ast.Constant):
            popped[c.args[0].value] = c.args[1] if len(c.args) > 1 else None
    written = []
    for mod, q in ((app, 'Application.add'), (app, 'SubApplication.bind_all'), (route, 'NullRoute.bind')):
        fi = mod.func(q)
        seen = set()
        for key, node, val in bind_kwargs_written(fi):
            if key not in seen:
                seen.add(key)
                written.append((mod, fi, key, node))
    for mod, fi, key, node in written:
        rep.check(rule, fkey(fi, "kwargs[%r]" % key), key in popped,
                  "bind keyword %r is consumed by BoundRoute.__init__" % key if key in popped else
                  "%s passes bind keyword %r which BoundRoute.__init__ does not pop (TypeError at bind, or the flag is ignored under another name)"
                  % (fi.qualname, key), mod, node)
    ok = any(isinstance(s, ast.If) and norm(s.test) == kwname and any(isinstance(r, ast.Raise) for r in ast.walk(s)) for s in stmts_of(bi.node))
    rep.check(rule, fkey(bi, 'leftover kwargs'), ok, 'unknown bind keywords are rejected' if ok else 'unknown bind keywords are silently ignored', route, bi.node)
    return popped, written


def run(rep):
    repo = rep.repo
    app, route = repo.mod(APP), repo.mod(ROUTE)
    rep.decide('R07.a dominance conditions of the redirect / strict / rewrite branches; R07.b Location escaping (taint); '
               'R07.c slash-mode inheritance plumbing')
    rep.decline('idempotence of normalize_path and one-hop as value statements; werkzeug.redirect behaviour')
    rep.assume('werkzeug.urls.url_quote percent-encodes every character outside its safe set (default "/:")')
    rep.rule('R07.a', 'CFG dominance of redirect / strict continue / rewrite fallthrough in Application.dispatch')
    rep.rule('R07.b', 'taint: request.path-derived text reaches redirect() only through a URL-quoting call')
    rep.rule('R07.c', 'slash_mode selection and kwarg-name agreement of bind keywords')

    def redirect_rules():
        dv = DispatchView(repo)
        cfg, f = dv.cfg, dv.fi
        rv = dv.route_var
        # ---- R07.a -----------------------------------------------------------
        if len(dv.redirect_calls) != 1:
            raise AnalysisError('Application.dispatch: expected exactly one redirect(...) call, found %d' % len(dv.redirect_calls))
        rc = dv.redirect_calls[0]
        rst = stmt_of(app, rc)
        cs = dv.conds(rst)
        npc = [c for c in walk_body(f.node) if isinstance(c, ast.Call) and call_name(c) == 'normalize_path']
        more_canon = []          # further locals holding normalize_path(request path, ..), computed again
        if len(npc) > 1:
            # the canonical form is a function of the (decoded) request path -- the text the pattern was matched against and
            # the canonicity decision is taken on.  Canonicalising any other text (the raw request target, a quoted or
            # re-cased path) gives a "canonical path" that need not be the canonical form of the request path.
            on_req = [c for c in npc if argn(c, 'path', 0) is not None and dv.is_request_attr(argn(c, 'path', 0), 'path')]
            for c in npc:
                if c not in on_req:
                    rep.fail('R07.a', fkey(f, 'canonical form of ' + norm(argn(c, 'path', 0) or c)[:40]),
                             'dispatch canonicalises %s, which is not the decoded request path the canonicity test is taken on: what it '
                             'yields need not be the canonical form of the requested path (the Location can name a path that is itself '
                             'redirected again)' % short(argn(c, 'path', 0) or c), app, c)
            if not on_req or len(set(norm(c) for c in on_req)) != 1:
                raise AnalysisError('dispatch: expected exactly one normalize_path(request path, ..) call, found %d' % len(on_req))
            for c in on_req[1:]:
                st_ = stmt_of(app, c)
                if not (isinstance(st_, ast.Assign) and st_.value is c and len(st_.targets) == 1 and isinstance(st_.targets[0], ast.Name)):
                    raise AnalysisError('dispatch: a repeated normalize_path(...) is not bound to a local')
                more_canon.append(st_.targets[0].id)
            npc = on_req[:1]
        if len(npc) != 1:
            raise AnalysisError('dispatch: expected exactly one normalize_path(...) call, found %d' % len(npc))
        npc = npc[0]
        nps = stmt_of(app, npc)
        if not (isinstance(nps, ast.Assign) and len(nps.targets) == 1 and isinstance(nps.targets[0], ast.Name)):
            raise AnalysisError('dispatch: the result of normalize_path(...) is not bound to a local')
        npv = nps.targets[0].id
        np_path = argn(npc, 'path', 0)

        def unwrap(e, depth=0):
            """(kind, wrappers): kind is 'canon' when ``e`` is the normalize_path(request path, ..) call, 'req' when it is the
            request path; either may sit inside a chain of calls applied to it (``url_quote(<canon>)``, ``<req>.rstrip('/')``),
            listed outermost first.  (None, []) for anything else."""
            if isinstance(e, ast.Call) and (e is npc or norm(e) == norm(npc)):
                return 'canon', []
            if np_path is not None and not isinstance(e, ast.Call) and (norm(e) == norm(np_path) or dv.is_request_attr(e, 'path')):
                return 'req', []
            if depth > 4 or not isinstance(e, ast.Call):
                return None, []
            kws = tuple(sorted((k.arg or '**', norm(k.value)) for k in e.keywords))
            if e.args and not isinstance(e.args[0], ast.Starred):
                k_, ws = unwrap(e.args[0], depth + 1)
                if k_:
                    return k_, [('call', call_tail(e), tuple(norm(a) for a in e.args[1:]), kws)] + ws
            if isinstance(e.func, ast.Attribute):
                k_, ws = unwrap(e.func.value, depth + 1)
                if k_:
                    return k_, [('method', e.func.attr, tuple(norm(a) for a in e.args), kws)] + ws
            return None, []
        np_kind, np_wrappers = unwrap(nps.value)
        if np_kind != 'canon':
            raise AnalysisError('dispatch: normalize_path(...) is used inside a larger expression that is not a chain of calls on its result')

        def canonical_compare(t):
            """(wrappers around the canonical path, wrappers around the request path) when ``t`` is an (in)equality between
            the two, else None"""
            if not (isinstance(t, ast.Compare) and len(t.ops) == 1 and isinstance(t.ops[0], (ast.Eq, ast.NotEq))):
                return None
            (ka, wa), (kb, wb) = unwrap(t.left), unwrap(t.comparators[0])
            if (ka, kb) == ('canon', 'req'):
                return wa, wb
            if (ka, kb) == ('req', 'canon'):
                return wb, wa
            return None

        def same_representation(wc, wr):
            """the two operands of the canonicity test are comparable: both as they are (decoded), or both through the same
            URL-quoting calls (percent-encoding with a fixed safe set is injective)"""
            return wc == wr and all(w[0] == 'call' and w[1] in QUOTERS for w in wc)

        def is_noncanonical(t):
            """polarity under which comparison ``t`` -- the canonicity test -- says: normalize_path(request path, ..) differs
            from the request path.  (Whether the test compares the two in the same representation is judged once, by the
            obligation 'canonical test operands'; the control-flow rules below are about the outcome of the test.)"""
            if canonical_compare(t) is None:
                return None
            return isinstance(t.ops[0], ast.NotEq)

        def is_mode(t, const):
            """polarity under which comparison ``t`` says: the route's slash mode is ``const``"""
            if not (isinstance(t, ast.Compare) and len(t.ops) == 1 and isinstance(t.ops[0], (ast.Eq, ast.NotEq))):
                return None
            a_, b_ = t.left, t.comparators[0]
            for x, y in ((a_, b_), (b_, a_)):
                if norm(x) == '%s.slash_mode' % rv and norm(y) == const:
                    return isinstance(t.ops[0], ast.Eq)
            return None

        def holds(cs_, pred):
            return any(pred(t) is not None and pred(t) is p for t, p in cs_)
        checks = [
            ('pattern matched', dv.matched_conds(cs)),
            ('method admitted', dv.method_ok_conds(cs)),
            ('route is a branch', has_cond(cs, lambda t: dv.is_route_attr(t, 'is_branch'), True)),
            ('path is not canonical', holds(cs, is_noncanonical)),
            ('redirect mode', holds(cs, lambda t: is_mode(t, 'S_REDIRECT'))),
        ]
        for label, ok in checks:
            rep.check('R07.a', fkey(f, 'redirect requires: ' + label), ok,
                      'redirect(...) is dominated by "%s"' % label if ok else
                      'a slash redirect can be issued although "%s" does not hold (conditions: %s)' % (label, '; '.join(cond_texts(cs))), app, rst)
        # the canonicity test compares like with like: wherever dispatch compares the canonical path with the request path, both
        # operands are in the same representation.  (A canonical path must be a fixed point: comparing a transformed -- quoted,
        # stripped, re-cased -- canonical path with the request path as it came in makes some canonical paths "non-canonical".)
        mixed, n_cmp, seen_cmp = [], 0, set()
        for nid in [n.id for n in cfg.nodes if n.kind == 'branch' and cfg.reachable(n.id)]:
            for t_, p_ in dv.branch_conds(nid):
                t_ = strip_not(t_)[0]
                cc = canonical_compare(t_)
                if cc is None or norm(t_) in seen_cmp:
                    continue
                seen_cmp.add(norm(t_))
                n_cmp += 1
                if not same_representation(*cc):
                    mixed.append((t_, cc))

        def _chain(ws):
            return ' after ' + ', then '.join('%s%s(..)' % ('.' if w[0] == 'method' else '', w[1]) for w in reversed(ws)) if ws else ' as it is'
        if n_cmp:
            rep.check('R07.a', fkey(f, 'canonical test operands'), not mixed,
                      'the canonicity test compares normalize_path(request path) and the request path in the same representation' if not mixed else
                      'the test that decides whether a path is canonical (%s) compares the canonical path%s with the request path%s: the two '
                      'are in different representations, so a canonical path containing a character that transformation changes (a quoted '
                      'space, %%, ?, #, non-ASCII) is judged non-canonical -- redirect mode redirects it to itself, strict mode answers 404'
                      % (short(mixed[0][0], 70), _chain(mixed[0][1][0]), _chain(mixed[0][1][1])), app, nps)
        ok = isinstance(rst, ast.Return) and rst.value is rc
        if not ok and isinstance(rst, ast.Assign) and rst.value is rc and len(rst.targets) == 1 and isinstance(rst.targets[0], ast.Name):
            # the response is held in a local together with an outcome tag and returned further down (``outcome, result =
            # REDIRECT, redirect(..)`` ... ``if outcome == REDIRECT: return result``): it is still "returned immediately" when
            # every execution that passes the binding -- branches the tag rules out are not taken -- leaves dispatch through a
            # ``return <that local>`` that can only read this binding, before the loop goes on or the route is executed
            carrier = rst.targets[0].id
            src = cfg.nodes_of(rst)
            good = []
            for r_ in returns_of(f):
                if isinstance(r_.value, ast.Name) and r_.value.id == carrier:
                    va = dv.value_at(carrier, r_)
                    if va is not None and len(va) == 1 and va[0][0] is rst:
                        good.append(r_)
            after = [m for n_ in src for m in cfg.succ[n_] if (n_, m) not in cfg.exc_edges]
            stray = cfg.reach(after, avoid=dv.infeasible_branches(src) | set(cfg.nodes_of_all(good)), normal_only=True) & \
                (set(dv.head) | {cfg.exit} | set(cfg.nodes_of(dv.exec_st)))
            ok = bool(good) and not stray
        rep.check('R07.a', fkey(f, 'redirect returned'), ok, 'the redirect response is returned immediately' if ok else
                  'the redirect response is not returned directly', app, rst)
        np_branch = argn(npc, 'is_branch', 1)
        ok = np_path is not None and dv.is_request_attr(np_path, 'path') and norm(np_path) == norm(dv.match_call.args[0]) and np_branch is not None and \
            (dv.is_route_attr(np_branch, 'is_branch') or
             (isinstance(np_branch, ast.Constant) and np_branch.value is True and has_cond(dv.conds(nps), lambda t: dv.is_route_attr(t, 'is_branch'), True)))
        rep.check('R07.a', fkey(f, 'canonical form'), ok, 'canonical path = normalize_path(request path, route.is_branch)' if ok else
                  'normalize_path is not applied to (url_path, route.is_branch)', app, nps)
        # strict
        bnodes = [n.id for n in cfg.nodes if n.kind == 'branch' and cfg.reachable(n.id)]

        def says(cs_, pred, want=True):
            return any(pred(t) is not None and (pred(t) is p) is want for t, p in cs_)
        is_strict = lambda t: is_mode(t, 'S_STRICT')
        is_branch_t = lambda t: True if dv.is_route_attr(t, 'is_branch') else None
        # entry points of the region "the mode is strict and the path is not canonical"
        region = [nid for nid in bnodes if says(dv.branch_conds(nid, full=True), is_strict) and says(dv.branch_conds(nid, full=True), is_noncanonical)]
        strict_t = [n for n in region if not any(n in cfg.reach([m], avoid=dv.head, include_src=False) for m in region if m != n)]
        addx = dv.calls_stmt('add_exception', dv.ds_var)
        addx_nf = []
        for s in addx:
            a = s.value.args[0]
            srcs = [x.value for x in stmts_of(f.node) if isinstance(x, ast.Assign) and norm(x.targets[0]) == norm(a)]
            if isinstance(a, ast.Name) and len(srcs) > 1:
                # a local with several bindings (an outcome's payload): the ones that can be read here, named temporaries followed
                va = dv.value_at(a.id, s)
                if va is not None:
                    srcs = [dv.resolve(v_) for st_, v_ in va]
            if any(isinstance(v, ast.Call) and norm(v.func).endswith('not_found_type') for v in srcs) or \
                    (isinstance(a, ast.Call) and norm(a.func).endswith('not_found_type')):
                addx_nf.append(s)
        exec_nodes = cfg.nodes_of(dv.exec_st)
        # (branches that an outcome tag set on the way rules out are not taken)
        dead = dv.infeasible_branches(strict_t) if strict_t else set()
        thru = set(cfg.nodes_of_all(addx_nf))
        ok = bool(strict_t) and bool(addx_nf) and \
            not ((set(dv.head) | {cfg.exit}) & cfg.reach(strict_t, avoid=thru | dead, normal_only=True)) and \
            not (set(exec_nodes) & cfg.reach(strict_t, avoid=set(dv.head) | dead))
        rep.check('R07.a', fkey(f, 'strict mode'), ok,
                  'strict mode: a non-canonical path records a not-found error and the route is not executed' if ok else
                  'strict mode does not reliably skip the route with a recorded not-found error', app, addx_nf[0] if addx_nf else dv.loop)
        # rewrite: some way leads from the loop header to execute without redirecting, without recording the strict-mode error and
        # without ever taking a branch that says "the path is canonical" or "the route is a leaf"
        blocked = [nid for nid in bnodes if says(dv.branch_conds(nid), is_noncanonical, False) or says(dv.branch_conds(nid), is_branch_t, False)]
        avoid = set(dv.head) | set(blocked) | set(cfg.nodes_of(rst)) | set(cfg.nodes_of_all(addx_nf))
        ok = bool(blocked) and bool(set(exec_nodes) & cfg.reach(dv.iter_nodes, avoid=avoid, normal_only=True))
        rep.check('R07.a', fkey(f, 'rewrite mode'), ok, 'in neither mode (rewrite) the route is executed directly' if ok else
                  'rewrite mode does not fall through to execute', app, dv.exec_st)
        # canonical paths never redirect: the != test is the only way in (already dominated) ; leaf routes never redirect (is_branch)
        rep.floor('R07.a', 9)

        # ---- R07.b -----------------------------------------------------------
        arg = rc.args[0]
        # A Location assembled by a helper of the analysed tree (``location = build_location(request, norm_path)``): the
        # helper's assignments and returns are read as assignments of dispatch -- parameters replaced by the arguments, the
        # helper's locals renamed apart, constants of the helper's module folded where it is another module -- so that the
        # pieces below are judged on the text that is actually concatenated.  Only helpers that do nothing but bind locals
        # and return (inside if / try arms at most) are followed; anything else stays the opaque call it is.
        import copy as _copy
        extra, _hn = [], [0]
        _disp_locals = set(n.id for n in walk_body(f.node) if isinstance(n, ast.Name) and isinstance(n.ctx, (ast.Store, ast.Del))) | \
            set(x.arg for x in f.node.args.args + f.node.args.kwonlyargs)

        def all_stmts():
            return list(stmts_of(f.node)) + extra

        def _ends(stmts):
            if not stmts:
                return False
            l_ = stmts[-1]
            if isinstance(l_, ast.Return):
                return l_.value is not None
            if isinstance(l_, ast.If):
                return _ends(l_.body) and _ends(l_.orelse)
            if isinstance(l_, ast.Try):
                return not l_.finalbody and (_ends(l_.orelse) if l_.orelse else _ends(l_.body)) and all(_ends(h.body) for h in l_.handlers)
            return False

        def expand_helper(call, target, mod, depth=0):
            if depth > 3 or not isinstance(call.func, ast.Name) or any(isinstance(x, ast.Starred) for x in call.args) or \
                    any(k.arg is None for k in call.keywords):
                return False
            name = call.func.id
            if mod is app and name in _disp_locals:
                return False
            hm, hq = mod, name
            if name not in mod.functions:
                hm, hq = mod._moved(name)
                if hm is None or hm.external:
                    return False
            fi_ = hm.functions.get(hq)
            if fi_ is None or '.' in hq or len(hm.assigns.get(hq, [])) != 1 or not isinstance(fi_.node, ast.FunctionDef) or fi_.node.decorator_list:
                return False
            fn = fi_.node
            a_ = fn.args
            if a_.vararg or a_.kwarg or a_.kwonlyargs or a_.posonlyargs or len(call.args) > len(a_.args):
                return False
            params = [x.arg for x in a_.args]
            bind = dict(zip(params, call.args))
            for k in call.keywords:
                if k.arg not in params or k.arg in bind:
                    return False
                bind[k.arg] = k.value
            if set(bind) != set(params):
                return False          # defaults are not followed
            body = fn.body[1:] if fn.body and isinstance(fn.body[0], ast.Expr) and isinstance(fn.body[0].value, ast.Constant) else fn.body
            if not _ends(body):
                return False
            for n in ast.walk(fn):
                if n is not fn and isinstance(n, (ast.FunctionDef, ast.AsyncFunctionDef, ast.ClassDef, ast.Lambda, ast.ListComp, ast.SetComp,
                                                  ast.DictComp, ast.GeneratorExp, ast.Yield, ast.YieldFrom, ast.Await, ast.Global, ast.Nonlocal,
                                                  ast.NamedExpr)):
                    return False
            stores = set(n.id for st in body for n in ast.walk(st) if isinstance(n, ast.Name) and isinstance(n.ctx, (ast.Store, ast.Del)))
            if stores & set(params):
                return False
            _hn[0] += 1
            rename = dict((n, 'h%d__%s' % (_hn[0], n)) for n in stores)

            class _S(ast.NodeTransformer):
                def visit_Name(self_, n):
                    if n.id in bind:
                        return _copy.deepcopy(bind[n.id])
                    if n.id in rename:
                        return ast.copy_location(ast.Name(id=rename[n.id], ctx=n.ctx), n)
                    if hm is not app and isinstance(n.ctx, ast.Load):
                        v_ = repo.try_fold(n, hm)
                        if isinstance(v_, str):
                            return ast.copy_location(ast.Constant(value=v_), n)
                    return n

            def sub(e):
                return ast.fix_missing_locations(_S().visit(_copy.deepcopy(e)))
            out = []

            def emit(tname, v, like):
                if isinstance(v, ast.Call) and isinstance(v.func, ast.Name):
                    mark = len(extra)
                    if expand_helper(v, tname, hm, depth + 1):
                        out.extend(extra[mark:])
                        del extra[mark:]
                        return
                st_ = ast.Assign(targets=[ast.Name(id=tname, ctx=ast.Store())], value=v)
                out.append(ast.fix_missing_locations(ast.copy_location(st_, like)))

            def walk(stmts):
                for s_ in stmts:
                    if isinstance(s_, ast.Assign) and len(s_.targets) == 1 and isinstance(s_.targets[0], ast.Name):
                        emit(rename[s_.targets[0].id], sub(s_.value), s_)
                    elif isinstance(s_, ast.Return) and s_.value is not None:
                        emit(target, sub(s_.value), s_)
                    elif isinstance(s_, ast.If):
                        if not (walk(s_.body) and walk(s_.orelse)):
                            return False
                    elif isinstance(s_, ast.Try) and not s_.finalbody and not any(h.name for h in s_.handlers):
                        if not (walk(s_.body) and all(walk(h.body) for h in s_.handlers) and walk(s_.orelse)):
                            return False
                    else:
                        return False
                return True
            if not walk(body):
                return False
            extra.extend(out)
            return True
        _e = arg
        if isinstance(_e, ast.Name):
            _src = [s.value for s in stmts_of(f.node) if isinstance(s, ast.Assign) and norm(s.targets[0]) == _e.id]
            if len(_src) == 1:
                _e = _src[0]
        if isinstance(_e, ast.Call) and expand_helper(_e, 'h0__location', app):
            arg = ast.copy_location(ast.Name(id='h0__location', ctx=ast.Load()), _e)

        _PCT, _BRACE = re.compile(r'%(?:s|r|d|%)'), re.compile(r'\{([A-Za-z_]\w*)?\}|\{\{|\}\}')

        def _interleave(fmt, directive, args, depth, named=None):
            """template text and arguments of ``fmt % args`` / ``fmt.format(*args, **named)`` in the order they appear in the result"""
            fallback = [fmt]
            for x in list(args) + list((named or {}).values()):
                fallback.extend(pieces(x, depth + 1))
            if not isinstance(fmt, ast.Constant):
                folded = repo.try_fold(fmt, app)       # a template kept in a module-level constant
                if isinstance(folded, str):
                    fmt = ast.copy_location(ast.Constant(value=folded), fmt)
            if not (isinstance(fmt, ast.Constant) and isinstance(fmt.value, str)):
                return fallback
            rest = directive.sub('', fmt.value)
            if any(ch in rest for ch in ('%' if directive is _PCT else '{}')):
                return fallback      # a directive this model does not split (width, mapping key, conversion, ...)
            out, pos, i = [], 0, 0
            for m in directive.finditer(fmt.value):
                lit = fmt.value[pos:m.start()]
                if m.group(0) in ('%%', '{{', '}}'):
                    lit += m.group(0)[0]
                if lit:
                    out.append(ast.copy_location(ast.Constant(value=lit), fmt))
                pos = m.end()
                if m.group(0) in ('%%', '{{', '}}'):
                    continue
                if directive is _BRACE and m.group(1):
                    if not named or m.group(1) not in named:
                        return fallback
                    out.extend(pieces(named[m.group(1)], depth + 1))
                    continue
                if i >= len(args):
                    return fallback
                out.extend(pieces(args[i], depth + 1))
                i += 1
            if fmt.value[pos:]:
                out.append(ast.copy_location(ast.Constant(value=fmt.value[pos:]), fmt))
            if i != len(args):
                return fallback
            return out

        def pieces(e, depth=0):
            """Flatten a string-building expression into its concatenated pieces."""
            if depth > 8:
                return [e]
            if isinstance(e, ast.Name):
                srcs = [s.value for s in all_stmts() if isinstance(s, ast.Assign) and norm(s.targets[0]) == e.id]
                if len(srcs) == 1 and e.id not in taint_roots:
                    return pieces(srcs[0], depth + 1)
                return [e]
            if isinstance(e, ast.Call) and isinstance(e.func, ast.Attribute) and e.func.attr == 'join' and len(e.args) == 1:
                inner = pieces(e.args[0], depth + 1)
                return inner
            if isinstance(e, (ast.List, ast.Tuple)):
                out = []
                for x in e.elts:
                    out.extend(pieces(x, depth + 1))
                return out
            if isinstance(e, ast.BinOp) and isinstance(e.op, ast.Add):
                return pieces(e.left, depth + 1) + pieces(e.right, depth + 1)
            if isinstance(e, ast.BinOp) and isinstance(e.op, ast.Mod):
                r = e.right.elts if isinstance(e.right, ast.Tuple) else [e.right]
                return _interleave(e.left, _PCT, r, depth)
            if isinstance(e, ast.JoinedStr):
                out = []
                for v in e.values:
                    out.extend(pieces(v.value if isinstance(v, ast.FormattedValue) else v, depth + 1))
                return out
            if isinstance(e, ast.Call) and isinstance(e.func, ast.Attribute) and e.func.attr == 'format':
                if any(k.arg is None for k in e.keywords) or any(isinstance(x, ast.Starred) for x in e.args):
                    out = [e.func.value]
                    for x in list(e.args) + [k.value for k in e.keywords]:
                        out.extend(pieces(x, depth + 1))
                    return out
                return _interleave(e.func.value, _BRACE, list(e.args), depth, dict((k.arg, k.value) for k in e.keywords))
            return [e]
        # locals carrying (decoded) request-path text: bound to request.path or to the normalised path, or computed from such a
        # local by anything but a URL-quoting call
        req_path = '%s.path' % dv.request
        # (the local bound to normalize_path(..) itself holds decoded text; when the call is wrapped at its binding, the local holds
        # whatever the wrapper returns: it is expanded like any other named temporary and judged as an expression)
        taint_roots, tainted_names = ({npv}, {npv}) if not np_wrappers else (set(), set())
        taint_roots |= set(more_canon)
        tainted_names |= set(more_canon)
        from ..astutil import assigned_value
        all_locals = set(n.id for n in walk_body(f.node) if isinstance(n, ast.Name) and isinstance(n.ctx, ast.Store))
        for name in all_locals:
            for st_, val_, idx_ in assigned_value(f.node, name):
                v_ = val_.elts[idx_] if isinstance(idx_, int) and isinstance(val_, (ast.Tuple, ast.List)) and len(val_.elts) > idx_ else val_
                if isinstance(v_, ast.expr) and norm(v_) == req_path:
                    taint_roots.add(name)
                    tainted_names.add(name)
        grew = True
        while grew:
            grew = False
            for s_ in all_stmts():
                if isinstance(s_, ast.Assign) and len(s_.targets) == 1 and isinstance(s_.targets[0], ast.Name) and s_.targets[0].id not in tainted_names \
                        and not (isinstance(s_.value, ast.Call) and call_tail(s_.value) in QUOTERS) \
                        and (req_path in norm(s_.value) or names_loaded(s_.value) & tainted_names):
                    tainted_names.add(s_.targets[0].id)
                    grew = True
        ps = pieces(arg)

        def is_path_tainted(e):
            names = names_loaded(e)
            return bool(names & tainted_names) or req_path in norm(e)
        path_pieces = [p for p in ps if is_path_tainted(p)]
        # names derived from request.query_string (fixpoint over the assignments of dispatch)
        qvars = set()
        grew = True
        while grew:
            grew = False
            for s_ in all_stmts():
                if isinstance(s_, ast.Assign) and len(s_.targets) == 1 and isinstance(s_.targets[0], ast.Name) and \
                        s_.targets[0].id not in qvars and ('query_string' in norm(s_.value) or names_loaded(s_.value) & qvars):
                    qvars.add(s_.targets[0].id)
                    grew = True

        def is_query(e):
            return 'query_string' in norm(e) or bool(names_loaded(e) & qvars)
        query_pieces = [p for p in ps if is_query(p) and not is_path_tainted(p)]
        root_pieces = [p for p in ps if 'url_root' in norm(p) or 'host_url' in norm(p)]
        ok = len(path_pieces) >= 1
        rep.check('R07.b', fkey(f, 'Location has the canonical path'), ok and any(npv in names_loaded(p) or any(n is npc for n in ast.walk(p)) for p in path_pieces),
                  'the Location is built from the canonical path' if ok else 'the Location does not contain the canonical path', app, rst)
        for p in path_pieces:
            good = isinstance(p, ast.Call) and call_tail(p) in QUOTERS and p.args and is_path_tainted(p.args[0])
            why = ''
            if good:
                safe = kwarg(p, 'safe') or (p.args[3] if len(p.args) > 3 and call_tail(p) == 'url_quote' else None) or \
                    (p.args[1] if len(p.args) > 1 and call_tail(p) == 'quote' else None)
                if safe is not None:
                    sv = repo.try_fold(safe, app)
                    if not isinstance(sv, str) or any(ch in sv for ch in '?#%'):
                        good = False
                        why = ' (its safe set %r lets ?, # or %% through)' % (sv,)
            rep.check('R07.b', fkey(f, 'path piece ' + norm(p)), good,
                      'decoded path is URL-quoted before entering the Location: %s' % short(p) if good else
                      'the decoded request path reaches redirect() without URL-quoting%s: a segment containing ?, # or %% makes the '
                      'Location name a different resource' % why, app, rst)
        def query_form_ok(e, selfname=None, depth=0):
            """request.query_string, possibly decoded, possibly percent-encoded by a quoter whose safe set keeps the
            query's own structure ('%', '&', '=', '+') -- i.e. an already encoded query is not encoded twice."""
            if depth > 4:
                return False
            if norm(e) == 'request.query_string' or (selfname and isinstance(e, ast.Name) and e.id == selfname):
                return True
            if isinstance(e, ast.Name) and e.id != selfname and e.id not in taint_roots:
                one = [s_.value for s_ in all_stmts() if isinstance(s_, ast.Assign) and norm(s_.targets[0]) == e.id]
                return len(one) == 1 and query_form_ok(one[0], selfname, depth + 1)
            if isinstance(e, ast.Call) and isinstance(e.func, ast.Attribute) and e.func.attr == 'decode':
                return query_form_ok(e.func.value, selfname, depth + 1)
            if isinstance(e, ast.Call) and call_tail(e) in QUOTERS and e.args:
                safe = kwarg(e, 'safe') or (e.args[3] if len(e.args) > 3 and call_tail(e) == 'url_quote' else None) or \
                    (e.args[1] if len(e.args) > 1 and call_tail(e) == 'quote' else None)
                sv = repo.try_fold(safe, app) if safe is not None else None
                return isinstance(sv, str) and all(ch in sv for ch in '%&=+') and query_form_ok(e.args[0], selfname, depth + 1)
            return False
        ok = len(query_pieces) == 1
        if ok:
            q = query_pieces[0]
            if isinstance(q, ast.Name):
                asg = [s_.value for s_ in all_stmts() if isinstance(s_, ast.Assign) and norm(s_.targets[0]) == q.id]
                ok = bool(asg) and all(query_form_ok(v, q.id) for v in asg) and any(query_form_ok(v) for v in asg)
            else:
                ok = query_form_ok(q)
        rep.check('R07.b', fkey(f, 'query piece'), ok, 'the query string is passed through unchanged (not re-quoted)' if ok else
                  'the query string is missing from the Location, altered or re-quoted: %s' % [norm(q) for q in query_pieces], app, rst)
        ok = len(root_pieces) == 1 and norm(root_pieces[0]).startswith('request.url_root')
        rep.check('R07.b', fkey(f, 'prefix piece'), ok, 'the prefix is request.url_root (scheme, host, script root)' if ok else
                  'the Location prefix is not request.url_root', app, rst)
        # order: root, path, '?', query
        order = [('root' if p in root_pieces else 'path' if p in path_pieces else 'query' if p in query_pieces else
                  ('?' if isinstance(p, ast.Constant) and p.value == '?' else 'other')) for p in ps]
        order = [o for o in order if o != 'other']
        ok = order == ['root', 'path', '?', 'query']
        rep.check('R07.b', fkey(f, 'piece order'), ok, 'Location = root + quoted path + "?" + query' if ok else 'Location pieces are ordered %s' % order, app, rst)
        # werkzeug redirect is not a sanitiser: fact check on the pinned source
        wu = repo.mod('werkzeug.utils')
        rd = wu.func('redirect')
        fact = any(isinstance(c, ast.Call) and call_tail(c) == 'iri_to_uri' and isinstance(kwarg(c, 'safe_conversion'), ast.Constant)
                   for c in walk_body(rd.node))
        rep.check('R07.b', 'werkzeug.utils::redirect', fact, 'model: redirect() applies iri_to_uri(safe_conversion=True) only (no quoting of ?, #, %)' if fact else
                  'werkzeug redirect() model out of date', wu, rd.node)
        rep.floor('R07.b', 6)


    def plumbing_rules():
        check_slash_plumbing(rep, 'R07.c')
        rep.floor('R07.c', 12)

    def canonical_form_rules():
        check_normalize_path(rep, 'R07.d')
    rep.rule('R07.d', 'shape of normalize_path: drop empty segments, one leading slash, one trailing slash iff branch')

    def method_set_rules():
        # "the redirect is issued only for methods the route admits": the admitted methods are the declared ones for every request
        from .dispatch import check_method_sets_stable
        check_method_sets_stable(rep, 'R07.e')
    rep.rule('R07.e', 'a route\'s method set is fixed after set-up: who-may-mutate .methods; what dispatch hands to the dispatch state is only read / copied')
    # each group is analysed on its own: a construct one group cannot follow does not hide the verdicts of the others
    for group in (redirect_rules, plumbing_rules, canonical_form_rules, method_set_rules):
        run_group(rep, group)


_SHARED = '<names sharing a display of empties>'


class _NP(object):
    """Abstract interpretation of normalize_path over the shapes a canonical path can be built from.

    Values: ('segs', lead, trail)  a list: lead x '' + <non-empty parts of path.split('/')> + trail x ''
            ('str', lead, trail)   a string: lead x '/' + '/'.join(<non-empty parts>) + trail x '/'
            ('const', v), ('other',)
    Lists are mutable objects shared between the names bound to them (``append`` / ``insert`` are seen through
    aliases).  Every path through the function is followed separately, recording what it assumed about the segment
    list (empty or not) and about is_branch."""

    def __init__(self, fi):
        self.fi = fi
        ps = fi.params()
        self.path, self.branch = ps[0], ps[1]
        self.outcomes = []      # (facts, value or None)   None = fell off the end / unmodelled statement
        self.unmodelled = []
        self.seg_defs = 0

    # -- expressions: list of (facts, value) alternatives ------------------------------------------------
    def _is_split(self, e):
        return norm(e) == "%s.split('/')" % self.path

    def _segments(self, e):
        if isinstance(e, ast.ListComp) and len(e.generators) == 1 and self._is_split(e.generators[0].iter) and \
                isinstance(e.generators[0].target, ast.Name) and norm(e.elt) == e.generators[0].target.id:
            x = e.generators[0].target.id
            return [norm(i) for i in e.generators[0].ifs] in ([x], ["%s != ''" % x], ['len(%s)' % x], ['len(%s) > 0' % x])
        if isinstance(e, ast.Call) and call_name(e) == 'list' and len(e.args) == 1 and not e.keywords:
            f_ = e.args[0]
            return isinstance(f_, ast.Call) and call_name(f_) == 'filter' and len(f_.args) == 2 and not f_.keywords and \
                norm(f_.args[0]) in ('None', 'bool', 'len') and self._is_split(f_.args[1])
        return False

    def ev(self, e, st, facts):
        if isinstance(e, ast.Constant):
            return [(facts, ('const', e.value))]
        if isinstance(e, ast.Name):
            return [(facts, st.get(e.id, ('other',)))]
        if self._segments(e):
            self.seg_defs += 1
            return [(facts, ['segs', 0, 0])]
        if isinstance(e, (ast.List, ast.Tuple)) and all(isinstance(x, ast.Constant) and x.value == '' for x in e.elts):
            return [(facts, ('empties', len(e.elts)))]      # [''] / ('',) / [] / (): a display of (no) empty segments
        if isinstance(e, ast.Call) and self._is_chain(e.func) and e.args and not e.keywords and not any(isinstance(a_, ast.Starred) for a_ in e.args):
            # itertools.chain(a, b, ..): the items of a, then of b, ... -- a new sequence, like a + b + ..
            alts = self.ev(e.args[0], st, facts)
            for nxt in e.args[1:]:
                alts = [(f2, self.add(self._fresh(a_), b_)) for f1, a_ in alts for f2, b_ in self.ev(nxt, st, f1)]
            return [(f1, self._fresh(v)) for f1, v in alts]
        if isinstance(e, ast.IfExp):
            out = []
            for f2, pol in self.test(e.test, st, facts):
                out.extend(self.ev(e.body if pol else e.orelse, st, f2))
            return out
        if isinstance(e, ast.BinOp) and isinstance(e.op, ast.Add):
            out = []
            for f1, a_ in self.ev(e.left, st, facts):
                for f2, b_ in self.ev(e.right, st, f1):
                    out.append((f2, self.add(a_, b_)))
            return out
        if isinstance(e, ast.Call) and isinstance(e.func, ast.Attribute) and e.func.attr == 'join' and len(e.args) == 1 and not e.keywords and \
                isinstance(e.func.value, ast.Constant) and e.func.value.value == '/':
            return [(f1, ('str', v[1], v[2]) if isinstance(v, list) else ('other',)) for f1, v in self.ev(e.args[0], st, facts)]
        return [(facts, ('other',))]

    def _is_chain(self, f):
        """``f`` names itertools.chain in the function's module"""
        if isinstance(f, ast.Name):
            return self.fi.mod.repo.resolve(self.fi.mod, f.id)[2] == 'itertools.chain'
        return isinstance(f, ast.Attribute) and f.attr == 'chain' and isinstance(f.value, ast.Name) and \
            self.fi.mod.repo.resolve(self.fi.mod, f.value.id)[::2] == ('module', 'itertools')

    @staticmethod
    def _fresh(v):
        return list(v) if isinstance(v, list) else v

    @staticmethod
    def add(a_, b_):
        if a_[0] == 'empties' and b_[0] == 'empties':
            return ('empties', a_[1] + b_[1])
        if a_[0] == 'empties' and isinstance(b_, list):
            return ['segs', b_[1] + a_[1], b_[2]]          # a new list
        if isinstance(a_, list) and b_[0] == 'empties':
            return ['segs', a_[1], a_[2] + b_[1]]
        if a_[0] == 'const' and a_[1] == '/' and b_[0] == 'str':
            return ('str', b_[1] + 1, b_[2])
        if a_[0] == 'str' and b_[0] == 'const' and b_[1] == '/':
            return ('str', a_[1], a_[2] + 1)
        if a_[0] == 'str' and b_[0] == 'const' and b_[1] == '':
            return a_
        if b_[0] == 'str' and a_[0] == 'const' and a_[1] == '':
            return b_
        return ('other',)

    def test(self, t, st, facts):
        """[(facts, outcome)] for the feasible outcomes of test ``t``"""
        pol = True
        while isinstance(t, ast.UnaryOp) and isinstance(t.op, ast.Not):
            t, pol = t.operand, not pol
        key = None
        if isinstance(t, ast.Name) and t.id == self.branch and t.id not in st:
            key = 'branch'
        elif isinstance(t, ast.Name) and isinstance(st.get(t.id), list) and st[t.id][1] == 0 and st[t.id][2] == 0:
            key = 'nonempty'
        if key is None:
            return [(dict(facts, opaque=True), True), (dict(facts, opaque=True), False)]
        out = []
        for truth in (True, False):
            if facts.get(key) in (None, truth):
                out.append((dict(facts, **{key: truth}), truth is pol))
        return out

    # -- statements --------------------------------------------------------------------------------------
    def run(self):
        for st, facts in self.block(self.fi.node.body, {}, {}):
            self.outcomes.append((facts, None))

    def block(self, stmts, st, facts):
        """runs the statements; returns the [(state, facts)] that fall off the end"""
        import copy
        live = [(st, facts)]
        for s in stmts:
            nxt = []
            for st1, f1 in live:
                nxt.extend(self.stmt(s, st1, f1))
            live = nxt
        return live

    def stmt(self, s, st, facts):
        import copy
        if isinstance(s, ast.Expr) and isinstance(s.value, ast.Constant):
            return [(st, facts)]
        if isinstance(s, ast.Pass):
            return [(st, facts)]
        if isinstance(s, ast.Return):
            for f1, v in self.ev(s.value, st, facts) if s.value is not None else [(facts, ('const', None))]:
                self.outcomes.append((f1, tuple(v) if isinstance(v, list) else v))
            return []
        if isinstance(s, ast.Assign) and len(s.targets) == 1 and isinstance(s.targets[0], ast.Name):
            out = []
            for f1, v in self.ev(s.value, st, facts):
                st2 = copy.deepcopy(st)
                if isinstance(s.value, ast.Name) and isinstance(st.get(s.value.id), list):
                    v = st2[s.value.id]          # alias of the same list object
                elif isinstance(s.value, ast.Name) and v[0] == 'empties':
                    # a second name for a display of empties (possibly a list): extending either in place is not followed
                    st2[_SHARED] = st2.get(_SHARED, frozenset()) | {s.value.id, s.targets[0].id}
                st2[s.targets[0].id] = v
                out.append((st2, f1))
            return out
        if isinstance(s, ast.AugAssign) and isinstance(s.target, ast.Name) and isinstance(s.op, ast.Add) and \
                s.target.id not in st.get(_SHARED, ()):
            out = []
            for f1, v in self.ev(s.value, st, facts):
                st2 = copy.deepcopy(st)
                cur = st2.get(s.target.id, ('other',))
                if isinstance(cur, list) and v[0] == 'empties':
                    cur[2] += v[1]               # in-place extension of the list object
                else:
                    st2[s.target.id] = self.add(cur, v)
                out.append((st2, f1))
            return out
        if isinstance(s, ast.Expr) and isinstance(s.value, ast.Call) and isinstance(s.value.func, ast.Attribute) and \
                isinstance(s.value.func.value, ast.Name) and isinstance(st.get(s.value.func.value.id), list) and not s.value.keywords:
            c = s.value
            st2 = copy.deepcopy(st)
            obj = st2[c.func.value.id]
            if c.func.attr == 'append' and [norm(a_) for a_ in c.args] == ["''"]:
                obj[2] += 1
                return [(st2, facts)]
            if c.func.attr == 'insert' and [norm(a_) for a_ in c.args] == ['0', "''"]:
                obj[1] += 1
                return [(st2, facts)]
        if isinstance(s, ast.If):
            out = []
            for f1, pol in self.test(s.test, st, facts):
                import copy as _c
                out.extend(self.block(s.body if pol else s.orelse, _c.deepcopy(st), f1))
            return out
        self.unmodelled.append(s)
        self.outcomes.append((dict(facts, unmodelled=True), None))
        return []


def check_normalize_path(rep, rule):
    """The canonical form is: the non-empty segments of path.split('/') joined with '/', behind exactly one leading
    slash, followed by exactly one trailing slash exactly when is_branch; '/' when there are no segments.  The
    function is followed path by path over list- and string-building operations (``[''] + segs``, ``.append('')``,
    ``'/'.join(..)``, ``'/' + s``, ``s += '/'``, conditional expressions), so either construction is recognised.
    (Decides the *construction*, from which idempotence follows; the value-level fixed-point claim itself is declined.)"""
    from .. import effects
    repo = rep.repo
    route = repo.mod(ROUTE)
    fi = route.func('normalize_path')
    if len(fi.params()) < 2:
        raise AnalysisError('normalize_path: expected parameters (path, is_branch)')
    np_ = _NP(fi)
    np_.run()
    outs = np_.outcomes
    ok = bool(outs) and all(v is not None and not f.get('opaque') for f, v in outs) and \
        all(v[0] in ('const', 'str') for f, v in outs if v is not None)
    rep.check(rule, fkey(fi, 'returns'), ok, "every path returns '/' or a '/'-joined string built from the segment list" if ok else
              "normalize_path does not return '/' / '/'.join(segments)", route, (np_.unmodelled or [fi.node])[0])
    if not ok:
        return
    built = [(f, v) for f, v in outs if v[0] == 'str']
    ok = bool(built) and np_.seg_defs >= 1
    rep.check(rule, fkey(fi, 'segments'), ok, 'segments = the non-empty parts of path.split(\'/\') (repeated slashes vanish)' if ok else
              'the segment list is not "non-empty parts of path.split(\'/\')"', route, fi.node)
    roots = [(f, v) for f, v in outs if v[0] == 'const']
    ok = bool(roots) and all(v[1] == '/' and f.get('nonempty') is False for f, v in roots) and \
        all(f.get('nonempty') is True for f, v in built)
    rep.check(rule, fkey(fi, 'root'), ok, "no segments => '/'" if ok else "the '/' result is not returned exactly when there are no segments", route, fi.node)
    ok = bool(built) and all(v[1] == 1 for f, v in built)
    rep.check(rule, fkey(fi, 'leading slash'), ok, "exactly one leading '' is prepended (one leading slash)" if ok else
              'the canonical form does not get exactly one leading slash', route, fi.node)
    ok = bool(built) and all(f.get('branch') in (True, False) and v[2] == (1 if f['branch'] else 0) for f, v in built) and \
        set(f.get('branch') for f, v in built) == {True, False}
    rep.check(rule, fkey(fi, 'trailing slash'), ok, "a trailing '' is appended exactly when is_branch" if ok else
              'the trailing slash is not added exactly when is_branch', route, fi.node)
    local_names = set(n.id for n in walk_body(fi.node) if isinstance(n, ast.Name) and isinstance(n.ctx, ast.Store)) - set(fi.params())
    others = [e for e in effects.effects_in(fi.node) if e.root not in local_names]
    ok = not others
    rep.check(rule, fkey(fi, 'nothing else'), ok, 'no other operation touches the segment list; the function is pure' if ok else
              'normalize_path performs further operations on the segments / has side effects', route, fi.node)


def check_slash_plumbing(rep, rule):
    repo = rep.repo
    app, route = repo.mod(APP), repo.mod(ROUTE)
    bi = route.func('BoundRoute.__init__')
    sm = [s for s in stmts_of(bi.node) if isinstance(s, ast.Assign) and norm(s.targets[0]) == 'self.slash_mode']
    bcfg_ = cfg_of(bi)
    defs_ = Defs(bcfg_, bi.node)
    # the alternatives self.slash_mode can receive, each with the conditions under which it is chosen
    alts = []
    for s in sm:
        if isinstance(s.value, ast.IfExp):
            alts.append((s.value.body, conds(bi, s) + [(s.value.test, True)]))
            alts.append((s.value.orelse, conds(bi, s) + [(s.value.test, False)]))
            continue
        rd = None
        if isinstance(s.value, ast.Name):
            nodes_ = bcfg_.nodes_of(s)
            rd = defs_.reaching(s.value.id, nodes_[0]) if len(nodes_) == 1 else None
        if rd:
            for dst, val, mid in rd:
                alts.append((val, [(t, p) for t, p in bcfg_.conds_at_stmt(dst) if not bcfg_._kills(t, mid)]))
        else:
            alts.append((s.value, conds(bi, s)))
    from ..cfg import expand_conds
    alts = [(v, expand_conds(cs)) for v, cs in alts]
    # the flag, by role: the local(s) bound to ``<bind keywords>.pop('inherit_slashes', ..)``, or the pop itself
    kwname_ = bi.node.args.kwarg.arg if bi.node.args.kwarg is not None else 'kwargs'
    is_pop = lambda e: isinstance(e, ast.Call) and norm(e.func) == '%s.pop' % kwname_ and e.args and isinstance(e.args[0], ast.Constant) and \
        e.args[0].value == 'inherit_slashes'
    flag_names = set()
    for s_ in stmts_of(bi.node):
        if not (isinstance(s_, ast.Assign) and len(s_.targets) == 1):
            continue
        pairs_ = []
        t_, v_ = s_.targets[0], s_.value
        if isinstance(t_, ast.Name):
            pairs_.append((t_, v_))
        elif isinstance(t_, (ast.Tuple, ast.List)) and isinstance(v_, (ast.Tuple, ast.List)) and len(t_.elts) == len(v_.elts) and \
                not any(isinstance(x_, ast.Starred) for x_ in list(t_.elts) + list(v_.elts)):
            pairs_ += [(a_, b_) for a_, b_ in zip(t_.elts, v_.elts) if isinstance(a_, ast.Name)]      # ``a, b = pop(..), pop(..)``
        for a_, b_ in pairs_:
            if is_pop(b_):
                stores_ = [n_ for n_ in ast.walk(bi.node) if isinstance(n_, ast.Name) and n_.id == a_.id and isinstance(n_.ctx, (ast.Store, ast.Del))]
                if len(stores_) == 1:
                    flag_names.add(a_.id)
    grew_ = True
    while grew_:          # plain copies of the flag (``inherit = opts_inherit_slashes``)
        grew_ = False
        for s_ in stmts_of(bi.node):
            if isinstance(s_, ast.Assign) and len(s_.targets) == 1 and isinstance(s_.targets[0], ast.Name) and isinstance(s_.value, ast.Name) and \
                    s_.value.id in flag_names and s_.targets[0].id not in flag_names:
                ds_, clean_ = defs_.of(s_.targets[0].id)
                if clean_ and len(ds_) == 1:
                    flag_names.add(s_.targets[0].id)
                    grew_ = True
    inh = lambda t: (isinstance(t, ast.Name) and t.id in flag_names) or is_pop(t)
    want = {True: '%s.slash_mode' % bi.params()[2], False: '%s.slash_mode' % bi.params()[1]}
    ok = len(alts) == 2 and all(any(norm(v) == want[pol] and has_cond(cs, inh, pol) for v, cs in alts) for pol in (True, False))
    rep.check(rule, fkey(bi, 'self.slash_mode'), ok, 'slash_mode = app.slash_mode if inherit_slashes else route.slash_mode' if ok else
              'BoundRoute.slash_mode is not selected by inherit_slashes between the application\'s and the route\'s mode', route, sm[0] if sm else bi.node)
    cp = [c for c in walk_body(bi.node) if isinstance(c, ast.Call) and call_name(c) == '_compile_path_pattern']
    ok = len(cp) == 1 and [norm(a) for a in cp[0].args] == ['self.pattern', 'self.slash_mode'] and sm and \
        cfg_of(bi).must_pass(cfg_of(bi).nodes_of_all(sm), cfg_of(bi).entry, cfg_of(bi).nodes_of(stmt_of(route, cp[0])))
    rep.check(rule, fkey(bi, 'pattern compiled with the mode'), ok, 'the bound pattern is compiled for the selected mode' if ok else
              'the bound pattern is not compiled with self.slash_mode', route, cp[0] if cp else bi.node)
    check_bound_regex(rep, rule)
    _rest_of_slash_plumbing(rep, rule, bi, sm)


def check_bound_regex(rep, rule):
    """... on every path, and it is the only source of the regex / converters the bound route matches with
    (re-using an already bound route's regex keeps the *old* application's slash mode in the matcher)."""
    repo = rep.repo
    route = repo.mod(ROUTE)
    bi = route.func('BoundRoute.__init__')
    cp = [c for c in walk_body(bi.node) if isinstance(c, ast.Call) and call_name(c) == '_compile_path_pattern']
    bcfg = cfg_of(bi)
    writers = [s for s in stmts_of(bi.node) if isinstance(s, ast.Assign) and
               any(norm(x) in ('self.regex', 'self.converters') for t in s.targets for x in (t.elts if isinstance(t, ast.Tuple) else [t]))]
    cp_st = stmt_of(route, cp[0]) if len(cp) == 1 else None

    def from_compile(w):
        """writer ``w`` stores the compile call's results: the call statement itself, or ``self.regex = r`` /
        ``self.converters = c`` with r, c the locals unpacked from the call (first / second result)"""
        if w is cp_st:
            tg = w.targets[0]
            return isinstance(tg, ast.Tuple) and [norm(x) for x in tg.elts] == ['self.regex', 'self.converters']
        from ..astutil import assigned_value
        if not (len(w.targets) == 1 and isinstance(w.value, ast.Name) and norm(w.targets[0]) in ('self.regex', 'self.converters')):
            return False
        av = assigned_value(bi.node, w.value.id)
        return len(av) == 1 and av[0][0] is cp_st and av[0][1] is cp[0] and av[0][2] == (0 if norm(w.targets[0]) == 'self.regex' else 1)
    stored = set(norm(x) for w in writers for t in w.targets for x in (t.elts if isinstance(t, ast.Tuple) else [t]) if norm(x) in ('self.regex', 'self.converters'))
    ok = len(cp) == 1 and isinstance(cp_st, ast.Assign) and bcfg.must_pass(bcfg.nodes_of(cp_st), bcfg.entry, bcfg.exit, normal_only=True) and \
        bool(writers) and all(from_compile(w) for w in writers) and stored == {'self.regex', 'self.converters'} and \
        len(writers) == (1 if cp_st in writers else 2) and \
        all(bcfg.must_pass(bcfg.nodes_of(w), bcfg.entry, bcfg.exit, normal_only=True) for w in writers)
    rep.check(rule, fkey(bi, 'regex always recompiled'), ok,
              'self.regex / self.converters come from compiling the prefixed pattern for this binding\'s mode, on every path' if ok else
              'a bound route can take its regex / converters from somewhere else than _compile_path_pattern(self.pattern, self.slash_mode) '
              '(e.g. re-used from the route being re-bound): pattern, prefix or slash mode of the matcher then disagree with the binding',
              route, writers[0] if writers else bi.node)
    mpf = route.func('BoundRoute.match_path')
    uses = [n for n in walk_body(mpf.node) if isinstance(n, ast.Attribute) and isinstance(n.value, ast.Name) and n.value.id == 'self']
    ok = {'regex', 'converters'} <= set(n.attr for n in uses) and not any(n.attr.startswith('_') for n in uses)
    rep.check(rule, fkey(mpf, 'matches with the compiled regex'), ok, 'match_path uses exactly self.regex and self.converters' if ok else
              'match_path matches with %s' % sorted(set(n.attr for n in uses)), route, mpf.node)


def _forced_bind_key(fi, key, value_ok):
    """``fi`` passes ``key`` to the bind call it delegates to, with a value satisfying ``value_ok``, and nothing the
    caller supplied can override it: in the ``**mapping`` of the call the key's literal layer comes after every layer
    taken from another mapping (``kw[key] = v``; ``dict(kw, key=v)``; ``{**kw, key: v}``), or it is an explicit keyword."""
    from .. import layers
    calls = [c for c in walk_body(fi.node) if isinstance(c, ast.Call) and call_tail(c) in ('bind', 'bind_all', 'BoundRoute')]
    if not calls:
        return False
    for c in calls:
        good = False
        for k in c.keywords:
            if k.arg == key:
                good = value_ok(k.value)
            elif k.arg is None:
                lay = layers.layers_of_var(fi.node, k.value.id) if isinstance(k.value, ast.Name) else layers.layers_of_expr(k.value)
                last_src = max([i for i, l in enumerate(lay) if l.kind == 'source'] or [-1])
                hits = [(i, l) for i, l in enumerate(lay) if l.kind == 'literal' and key in (l.keys or []) and not l.below]
                if hits:
                    i, l = hits[-1]
                    good = i > last_src and value_ok((l.values or {}).get(key))
        if not good:
            return False
    return True


def check_callers_slash_option_wins(rep, rule):
    """``add(entry, inherit_slashes=False)`` is how a route / an embedded application keeps its own slash mode in an
    application of another mode.  The mode a route is bound with follows the caller's keyword only if what add() itself
    enters under 'inherit_slashes' into the keyword dict it binds with lies *below* the caller's keywords -- a default that
    fills in when the caller passed nothing (``setdefault`` / ``if k not in kw``), never an entry written over, or
    sometimes over, what the caller passed (False is a legal value) -- and that default is the route factory's own
    setting, True when it has none.  (The layer model of the keyword dict is the one R10.e uses for the same dict.)"""
    from .c10 import _add_view, KwDict
    repo = rep.repo
    app = repo.mod(APP)
    ad, afl, rf, ball, bone = _add_view(app)
    calls = ball + bone
    kws = set(norm(k.value) for c in calls for k in c.keywords if k.arg is None)
    if len(kws) != 1 or not calls:
        raise AnalysisError('Application.add: the bind calls do not pass one keyword dict (%s)' % sorted(kws))
    akd = KwDict(ad, afl, kws.pop(), [stmt_of(app, c) for c in calls])
    how, v, st = akd.lookup('inherit_slashes')
    if how == 'unknown':
        raise AnalysisError("Application.add: what the bind keyword 'inherit_slashes' ends up as could not be established")
    ok = how in ('default', 'caller', 'absent')
    rep.check(rule, fkey(ad, "caller's inherit_slashes wins"), ok,
              'add() enters inherit_slashes only below the caller\'s keywords: an explicit inherit_slashes=False keeps the route\'s own slash mode' if ok else
              'add() %s the caller\'s inherit_slashes with %s: add(entry, inherit_slashes=False) binds the entry with the '
              'application\'s slash mode all the same, so a strict / rewrite route in a redirect-mode application answers a non-canonical '
              'path with a slash redirect' % ('sometimes overwrites' if how == 'conditional' else 'overwrites', short(v, 40) if v is not None else '?'),
              app, st or ad.node)
    if how == 'default':
        ok = afl.text(v, st) == "getattr(%s, 'inherit_slashes', True)" % rf
        rep.check(rule, fkey(ad, 'inherit_slashes default'), ok, 'without the keyword, add() takes the route factory\'s own setting (True when it has none)' if ok else
                  'the default add() enters for inherit_slashes is %s, not the route factory\'s own setting with True as the fallback' % short(v, 50),
                  app, st or ad.node)


def _rest_of_slash_plumbing(rep, rule, bi, sm):
    repo = rep.repo
    app, route = repo.mod(APP), repo.mod(ROUTE)
    popped, written = bind_kwarg_agreement(rep, rule)
    d = popped.get('inherit_slashes')
    ok = isinstance(d, ast.Constant) and d.value is True
    rep.check(rule, fkey(bi, 'inherit_slashes default'), ok, 'routes inherit the application\'s mode by default' if ok else
              'inherit_slashes does not default to True', route, bi.node)
    nb = route.func('NullRoute.bind')
    ok = _forced_bind_key(nb, 'inherit_slashes', lambda v: isinstance(v, ast.Constant) and v.value is False)
    rep.check(rule, fkey(nb, 'inherit_slashes=False'), ok, 'the null route never inherits (stays rewrite): 404/405 are not redirected' if ok else
              'NullRoute.bind no longer forces inherit_slashes=False', route, nb.node)
    ni = route.func('NullRoute.__init__')
    sup = [c for c in walk_body(ni.node) if isinstance(c, ast.Call) and call_tail(c) == '__init__']
    ok = len(sup) == 1 and norm(kwarg(sup[0], 'slash_mode')) == 'S_REWRITE'
    rep.check(rule, fkey(ni, 'S_REWRITE'), ok, 'the null route is a rewrite-mode route' if ok else 'NullRoute is not constructed with S_REWRITE', route, ni.node)
    sa = app.func('SubApplication.__init__')
    a = sa.node.args
    dflt = dict(zip([x.arg for x in a.args][len(a.args) - len(a.defaults):], a.defaults))
    ok = isinstance(dflt.get('inherit_slashes'), ast.Constant) and dflt['inherit_slashes'].value is True and \
        any(isinstance(s, ast.Assign) and norm(s.targets[0]) == 'self.inherit_slashes' and norm(s.value) == 'inherit_slashes' for s in stmts_of(sa.node))
    rep.check(rule, fkey(sa, 'inherit_slashes'), ok, 'SubApplication(inherit_slashes=True) stores its flag' if ok else
              'SubApplication does not store inherit_slashes (default True)', app, sa.node)
    check_callers_slash_option_wins(rep, rule)
    ba = app.func('SubApplication.bind_all')
    fw = [(k, n, v) for k, n, v in bind_kwargs_written(ba) if k == 'inherit_slashes']
    ok = bool(fw) and all(v is not None and norm(v) == 'self.inherit_slashes' for k, n, v in fw)
    rep.check(rule, fkey(ba, 'inherit_slashes forwarded'), ok, 'the embedding flag is forwarded to every re-bound route' if ok else
              'bind_all does not forward self.inherit_slashes', app, ba.node)
    for mod, q, want in ((app, 'Application.__init__', 'S_REDIRECT'), (route, 'Route.__init__', 'S_REDIRECT')):
        fi = mod.func(q)
        pops = [c for c in walk_body(fi.node) if isinstance(c, ast.Call) and norm(c.func) == 'kwargs.pop' and c.args and
                isinstance(c.args[0], ast.Constant) and c.args[0].value == 'slash_mode']
        ok = len(pops) == 1 and len(pops[0].args) == 2 and norm(pops[0].args[1]) == want
        rep.check(rule, fkey(fi, 'slash_mode default'), ok, '%s defaults to %s' % (q, want) if ok else '%s slash_mode default changed' % q, mod, fi.node)
    consts = dict((n, repo.try_fold(ast.Name(id=n, ctx=ast.Load()), route)) for n in ('S_REDIRECT', 'S_REWRITE', 'S_STRICT'))
    ok = len(set(consts.values())) == 3 and None not in consts.values()
    rep.check(rule, '%s::slash mode constants' % ROUTE, ok, 'three distinct slash modes: %s' % consts if ok else 'slash mode constants collide: %s' % consts, route)
