"""C05 -- URL patterns match exactly the paths their mini-language describes.

The heart of this property -- pattern p matches path s iff ... for all p x s -- is equality of two
languages, one of which is built at run time by _compile_path_pattern from the pattern text; the
matching semantics *as a whole* are declined.  Decided (shape of the code and of its constant tables):

  R05.a  type tables: DEFAULT_CONVS pairs each type name with the converter and the pattern constant of
         the same type; every pattern constant cannot consume '/', cannot match the empty string, has no
         anchors / back-references; automata inclusion (lower bounds only): -?[0-9]+ in INT,
         -?[0-9]+(\\.[0-9]+)? in FLOAT, INT in FLOAT, STR == [^/]+;
  R05.b  operator tables: _OP_ARITY_MAP and _OP_OPTIONALITY_MAP have the same keys; ':' is normalised to
         '' before the lookups; the operator is the quantifier of the segment group, and its (min, max)
         from the regex AST agrees with the flags: optional <=> min == 0, multi <=> max > 1;
  R05.c  rejection discipline: five guarded ``raise InvalidPattern`` (no leading slash, '//', duplicate
         binding, unknown type via KeyError, unknown operator via KeyError); Route.__init__ compiles the
         pattern on every normal path before storing it;
  R05.d  anchoring and no-raise matching: the compiled expression is '^' ... '$'; separator '/+' (or '/'
         in strict mode) and trailing '/*' outside strict mode; in match_path every converter call is under
         a handler catching ValueError and TypeError that returns None; a failed regex match returns None;
  R05.e  converter shape: multi => list built from value.split('/')[1:], optional-and-empty => [] / None
         before any conversion; arity/optionality flags reach build_converter under the right keywords;
  R05.f  segment structure: for every operator x type pattern x separator, the instantiated _SEG_TMPL is
         language-equal (NFA product) to (SEP TYPE)QUANT built independently from the documented meaning.
Declined: greedy/backtracking interaction between adjacent bindings, slash tolerance over all paths,
conversion values.
"""
import ast
import re

from ..core import AnalysisError, norm, short
from .. import regexq
from .common import (cfg_of, fkey, conds, has_cond, cond_texts, stmts_of, walk_body, call_tail, call_name, returns_of,
                     raises_of, raise_type, stmt_of, kwarg, protected_by)
from ..cfg import enclosing_tries

ROUTE = 'clastic.route'
CANON = {'int': r'-?[0-9]+', 'float': r'-?[0-9]+(\.[0-9]+)?'}
DOC_QUANT = {'': '', '?': '?', '*': '*', '+': '+'}


def check_match_path_no_raise(rep, rule):
    """Every converter call in BoundRoute.match_path really runs under a handler catching ValueError and TypeError
    that returns None (a lazily evaluated call -- generator expression consumed later, lambda -- is not protected by
    the try it is written in)."""
    repo = rep.repo
    route = repo.mod(ROUTE)
    mp = route.func('BoundRoute.match_path')
    conv_vars = set()
    for n in ast.walk(mp.node):
        if isinstance(n, ast.For) and 'converters' in norm(n.iter):
            conv_vars |= set(x.id for x in ast.walk(n.target) if isinstance(x, ast.Name))
        if isinstance(n, ast.comprehension) and 'converters' in norm(n.iter):
            conv_vars |= set(x.id for x in ast.walk(n.target) if isinstance(x, ast.Name))
    conv_calls = [c for c in ast.walk(mp.node) if isinstance(c, ast.Call) and
                  ((isinstance(c.func, ast.Name) and c.func.id in conv_vars) or
                   (isinstance(c.func, ast.Subscript) and 'converters' in norm(c.func.value)))]
    if not conv_calls:
        raise AnalysisError('match_path: converter call not found')
    for c in conv_calls:
        for exc in ('ValueError', 'TypeError'):
            h = protected_by(mp, c, exc)
            ok = h is not None and all(isinstance(r.value, ast.Constant) and r.value.value is None for r in ast.walk(h) if isinstance(r, ast.Return)) and \
                isinstance(h.body[-1], ast.Return)
            rep.check(rule, fkey(mp, 'converter under except %s' % exc), ok, 'a %s from a converter means "no match" (returns None)' % exc if ok else
                      'a %s raised by a converter escapes match_path (not under a handler at the point where it actually runs): the request '
                      'fails instead of trying the next route' % exc, route, c)
    # nothing else in match_path can raise on request data outside the handler: the regex match itself is total
    return len(conv_calls)


def run(rep):
    repo = rep.repo
    route = repo.mod(ROUTE)
    rep.decide('R05.a type tables and pattern constants; R05.b operator tables vs quantifiers; R05.c five rejections; '
               'R05.d anchoring / separators / no-raise matching; R05.e converter shapes; R05.f segment structure (automata)')
    rep.decline('pattern x path matching semantics as a whole (language of a regex assembled at run time); greedy '
                'backtracking between adjacent bindings; conversion values')
    rep.assume('re._parser gives the syntax tree the re module compiles')
    rep.rule('R05.a', 'table agreement + regex-AST queries + automata inclusion on the type pattern constants')
    rep.rule('R05.b', 'operator tables agree with the quantifier each operator becomes')
    rep.rule('R05.c', 'guarded raise InvalidPattern for each documented defect; Route.__init__ compiles first')
    rep.rule('R05.d', "'^'...'$', separators per mode, handlers in match_path")
    rep.rule('R05.e', 'build_converter branches')
    rep.rule('R05.f', 'language equality of the instantiated segment template with an independent specification')

    # ---- R05.a -----------------------------------------------------------
    dc = route.assigns.get('DEFAULT_CONVS', [])
    if len(dc) != 1 or not isinstance(dc[0], ast.List):
        raise AnalysisError('DEFAULT_CONVS literal list not found')
    convs = {}
    for e in dc[0].elts:
        if not (isinstance(e, ast.Tuple) and len(e.elts) == 3 and isinstance(e.elts[0], ast.Constant)):
            raise AnalysisError('DEFAULT_CONVS entry %s' % norm(e))
        convs[e.elts[0].value] = (norm(e.elts[1]), norm(e.elts[2]), e)
    want = {'int': ('int', '_INT_PATTERN'), 'float': ('float', '_FLOAT_PATTERN'), 'str': ('str', '_STR_PATTERN'), 'unicode': ('str', '_STR_PATTERN')}
    for t, (wc, wp) in want.items():
        got = convs.get(t)
        ok = got is not None and (got[0] == wc or (wc == 'str' and got[0] in ('str', 'unicode'))) and got[1] == wp
        rep.check('R05.a', '%s::DEFAULT_CONVS[%s]' % (ROUTE, t), ok, "type '%s' -> converter %s, pattern %s" % (t, got[0] if got else None, got[1] if got else None) if ok else
                  "type '%s' is paired with converter/pattern %s (expected %s/%s)" % (t, got[:2] if got else None, wc, wp), route, got[2] if got else dc[0])
    # registration loop feeds both maps from the same tuple
    rc = route.func('_register_converter')
    ps = rc.params()
    stores = dict((norm(s.targets[0]), norm(s.value)) for s in stmts_of(rc.node) if isinstance(s, ast.Assign))
    ok = stores.get('TYPE_CONV_MAP[%s]' % ps[0]) == ps[1] and stores.get('TYPE_PATT_MAP[%s]' % ps[0]) == ps[2]
    rep.check('R05.a', fkey(rc), ok, 'converter and pattern are registered under the same name' if ok else
              '_register_converter cross-wires the tables: %s' % stores, route, rc.node)
    loops = [s for s in route.tree.body if isinstance(s, ast.For) and norm(s.iter) == 'DEFAULT_CONVS']
    ok = len(loops) == 1 and any(isinstance(c, ast.Call) and call_name(c) == '_register_converter' and
                                 [norm(a) for a in c.args] == [norm(x) for x in loops[0].target.elts] for c in ast.walk(loops[0]))
    rep.check('R05.a', '%s::registration loop' % ROUTE, ok, 'every DEFAULT_CONVS entry is registered as (name, func, pattern)' if ok else
              'DEFAULT_CONVS is not registered entry by entry in order', route, loops[0] if loops else None)
    pats = {}
    for name in ('_INT_PATTERN', '_FLOAT_PATTERN', '_STR_PATTERN'):
        try:
            pats[name] = route.const(name)
        except Exception as e:
            raise AnalysisError('cannot fold %s: %s' % (name, e))
        p = pats[name]
        rep.check('R05.a', '%s::%s::no slash' % (ROUTE, name), not regexq.can_consume(p, '/'),
                  '%s cannot consume "/" (a value never swallows the next segment)' % name if not regexq.can_consume(p, '/') else
                  '%s = %r can consume "/": one binding can swallow following segments' % (name, p), route)
        lo, hi = regexq.width(p)
        rep.check('R05.a', '%s::%s::non-empty' % (ROUTE, name), lo >= 1, '%s cannot match the empty string (min width %d)' % (name, lo) if lo >= 1 else
                  '%s = %r matches the empty string' % (name, p), route)
        bad = regexq.has_anchor_or_backref(p)
        rep.check('R05.a', '%s::%s::plain' % (ROUTE, name), not bad, '%s has no anchors / back-references / look-arounds' % name if not bad else
                  '%s = %r contains anchors or back-references' % (name, p), route)
    incl = [(CANON['int'], pats['_INT_PATTERN'], 'canonical integers in INT'), (CANON['float'], pats['_FLOAT_PATTERN'], 'canonical decimals in FLOAT'),
            (pats['_INT_PATTERN'], pats['_FLOAT_PATTERN'], 'INT in FLOAT'), (r'[^/]+', pats['_STR_PATTERN'], 'every non-empty slash-free segment in STR'),
            (pats['_STR_PATTERN'], r'[^/]+', 'STR only slash-free segments')]
    for a, b, label in incl:
        ok, w = regexq.included(a, b)
        rep.check('R05.a', '%s::inclusion::%s' % (ROUTE, label), ok, 'automata inclusion holds: %s' % label if ok else
                  'language inclusion fails (%s): %r is matched by %r but not by %r' % (label, w, a, b), route)
    rep.floor('R05.a', 18)

    # ---- R05.b -----------------------------------------------------------
    try:
        arity = route.const('_OP_ARITY_MAP')
        opt = route.const('_OP_OPTIONALITY_MAP')
        seg = route.const('_SEG_TMPL')
    except Exception as e:
        raise AnalysisError('cannot fold operator tables: %s' % e)
    rep.check('R05.b', '%s::operator tables keys' % ROUTE, set(arity) == set(opt), 'both operator tables have keys %s' % sorted(arity) if set(arity) == set(opt) else
              'operator tables disagree on their keys: %s vs %s' % (sorted(arity), sorted(opt)), route)
    need = {'', '?', ':', '+', '*'}
    rep.check('R05.b', '%s::operators' % ROUTE, set(arity) == need, 'the documented operators are all present' if set(arity) == need else
              'operators %s (documented: %s)' % (sorted(arity), sorted(need)), route)
    cp = route.func('_compile_path_pattern')
    ccfg = cfg_of(cp)
    fmt_calls = [c for c in walk_body(cp.node) if isinstance(c, ast.Call) and call_tail(c) == 'format' and norm(c.func.value) == '_SEG_TMPL']
    if len(fmt_calls) != 1:
        raise AnalysisError('_compile_path_pattern: _SEG_TMPL.format call not found')
    fc = fmt_calls[0]
    kw = dict((k.arg, norm(k.value)) for k in fc.keywords)
    opvar = kw.get('arity')
    lookups = [s for s in stmts_of(cp.node) if isinstance(s, ast.Assign) and isinstance(s.value, ast.Subscript)
               and norm(s.value.value) in ('_OP_ARITY_MAP', '_OP_OPTIONALITY_MAP')]
    ok = opvar is not None and len(lookups) == 2 and all(norm(s.value.slice) == opvar for s in lookups)
    rep.check('R05.b', fkey(cp, 'operator is the quantifier'), ok, 'the looked-up operator %s is used verbatim as the group quantifier' % opvar if ok else
              'the quantifier put into the segment (%s) is not the operator looked up in the tables' % opvar, route, fc)
    norm_st = [s for s in stmts_of(cp.node) if isinstance(s, ast.Assign) and norm(s.targets[0]) == opvar and isinstance(s.value, ast.Constant)
               and s.value.value == '' and has_cond(conds(cp, s), lambda t: norm(t) == "%s == ':'" % opvar, True)]
    ok = len(norm_st) == 1 and all(ccfg.must_pass(ccfg.nodes_of(stmt_of(route, norm_st[0])) + [n.id for n in ccfg.nodes if n.kind == 'branch' and norm(n.test) == "%s == ':'" % opvar and n.pol is False],
                                                  ccfg.entry, ccfg.nodes_of(s)) for s in lookups)
    rep.check('R05.b', fkey(cp, "':' normalised"), ok, "':' is normalised to '' before the table lookups (and before it could become a quantifier)" if ok else
              "the ':' operator is not normalised to '' before use", route, norm_st[0] if norm_st else cp.node)
    for op_ in sorted(arity):
        if op_ == ':':
            ok = arity[':'] == arity[''] and opt[':'] == opt['']
            rep.check('R05.b', "%s::operator ':'" % ROUTE, ok, "':' has the flags of ''" if ok else "':' and '' disagree", route)
            continue
        rx = seg.format(name='x', sep='/', pattern='[^/]+', arity=op_)
        try:
            lo, hi, greedy = regexq.group_quantifier(rx, 'x')
        except AnalysisError as e:
            rep.fail('R05.b', "%s::operator %r" % (ROUTE, op_), 'segment template with operator %r: %s' % (op_, e), route)
            continue
        ok = (opt[op_] == (lo == 0)) and (arity[op_] == (hi > 1)) and greedy in ('greedy', 'none')
        rep.check('R05.b', "%s::operator %r" % (ROUTE, op_), ok,
                  'operator %r: quantifier {%s,%s}, optional=%s, multi=%s agree' % (op_, lo, 'inf' if hi == regexq.MAXREPEAT else hi, opt[op_], arity[op_]) if ok else
                  'operator %r becomes quantifier {%s,%s} but the tables say optional=%s multi=%s' % (op_, lo, hi, opt[op_], arity[op_]), route)
    # flags reach build_converter under the right keywords
    bc = [c for c in walk_body(cp.node) if isinstance(c, ast.Call) and call_name(c) == 'build_converter']
    src = dict((norm(s.targets[0]), norm(s.value.value)) for s in lookups)
    from ..astutil import argn
    bc_params = route.func('build_converter').params()
    pos_of = lambda n: bc_params.index(n) if n in bc_params else None
    ok = len(bc) == 1 and src.get(norm(argn(bc[0], 'multi', pos_of('multi')))) == '_OP_ARITY_MAP' and \
        src.get(norm(argn(bc[0], 'optional', pos_of('optional')))) == '_OP_OPTIONALITY_MAP'
    rep.check('R05.b', fkey(cp, 'flags to build_converter'), ok, 'multi <- arity table, optional <- optionality table' if ok else
              'build_converter receives the flags crossed or from the wrong table', route, bc[0] if bc else cp.node)
    ok = kw.get('pattern') is not None and any(isinstance(s, ast.Assign) and norm(s.targets[0]) == kw['pattern'] and 'TYPE_PATT_MAP[' in norm(s.value) for s in stmts_of(cp.node)) and \
        bc and any(isinstance(s, ast.Assign) and norm(s.targets[0]) == norm(bc[0].args[0]) and 'TYPE_CONV_MAP[' in norm(s.value) for s in stmts_of(cp.node))
    rep.check('R05.b', fkey(cp, 'type tables used'), bool(ok), 'pattern <- TYPE_PATT_MAP[type], converter <- TYPE_CONV_MAP[type]' if ok else
              'the segment pattern / converter do not come from the type tables', route, fc)
    rep.floor('R05.b', 9)

    # names by role: the converter map is the second element of the returned pair, the segment list is what sep joins
    cp_rets = [r for r in returns_of(cp) if isinstance(r.value, ast.Tuple) and len(r.value.elts) == 2]
    if len(cp_rets) != 1:
        raise AnalysisError('_compile_path_pattern: expected "return regex, converter_map"')
    VCM = norm(cp_rets[0].value.elts[1])
    # ---- R05.c -----------------------------------------------------------
    rz = [r for r in raises_of(cp) if raise_type(r) == 'InvalidPattern']
    found = {}
    pvar = cp.params()[0]
    for r in rz:
        cs = conds(cp, r)
        tries = [(t, part) for t, part in enclosing_tries(route, r, cp.node)]
        in_handler = [h for t, part in tries if part == 'handler' for h in t.handlers if r in list(ast.walk(h))]
        if has_cond(cs, lambda t: norm(t) == "%s.startswith('/')" % pvar, False):
            found['leading slash'] = r
        elif has_cond(cs, lambda t: norm(t) == "'//' in %s" % pvar, True):
            found["'//'"] = r
        elif has_cond(cs, lambda t: isinstance(t, ast.Compare) and isinstance(t.ops[0], ast.In) and norm(t.comparators[0]) == VCM, True):
            found['duplicate binding'] = r
        elif in_handler and 'KeyError' in norm(in_handler[0].type):
            tr = [t for t, part in tries if part == 'handler'][0]
            body = ' '.join(norm(b) for b in tr.body)
            if 'TYPE_CONV_MAP[' in body or 'TYPE_PATT_MAP[' in body:
                found['unknown type'] = r
            elif '_OP_ARITY_MAP[' in body or '_OP_OPTIONALITY_MAP[' in body:
                found['unknown operator'] = r
    for label in ('leading slash', "'//'", 'duplicate binding', 'unknown type', 'unknown operator'):
        rep.check('R05.c', fkey(cp, 'rejects: ' + label), label in found, 'InvalidPattern is raised for: %s' % label if label in found else
                  'no guarded "raise InvalidPattern" for: %s' % label, route, found.get(label, cp.node))
    dup_store = [s for s in stmts_of(cp.node) if isinstance(s, ast.Assign) and norm(s.targets[0]).startswith(VCM + '[')]
    ok = len(dup_store) == 1 and 'duplicate binding' in found
    rep.check('R05.c', fkey(cp, 'bindings recorded'), ok, 'every binding is recorded, so a second use of the name is seen' if ok else
              'bindings are not recorded in var_converter_map', route, cp.node)
    ri = route.func('Route.__init__')
    rcfg = cfg_of(ri)
    cc = [stmt_of(route, c) for c in walk_body(ri.node) if isinstance(c, ast.Call) and call_name(c) == '_compile_path_pattern'
          and norm(c.args[0]) == ri.params()[1]]
    pst = [s for s in stmts_of(ri.node) if isinstance(s, ast.Assign) and norm(s.targets[0]) == 'self.pattern']
    ok = len(cc) == 1 and len(pst) == 1 and rcfg.must_pass(rcfg.nodes_of(cc[0]), rcfg.entry, rcfg.exit, normal_only=True) and \
        protected_by(ri, cc[0], 'ValueError') is None
    rep.check('R05.c', fkey(ri, 'pattern compiled at construction'), ok, 'Route.__init__ compiles (validates) the pattern on every normal path; InvalidPattern propagates' if ok else
              'Route.__init__ does not always validate the pattern (or swallows InvalidPattern)', route, cc[0] if cc else ri.node)
    k, m, ip = repo.resolve(route, 'InvalidPattern')
    ok = k == 'class' and repo.is_subclass(ip, 'ValueError')
    rep.check('R05.c', '%s::InvalidPattern' % ROUTE, ok, 'InvalidPattern is a ValueError' if ok else 'InvalidPattern is no longer a ValueError', route)
    rep.floor('R05.c', 8)

    # ---- R05.d -----------------------------------------------------------
    comp = [c for c in walk_body(cp.node) if isinstance(c, ast.Call) and norm(c.func) == 're.compile']
    ok = len(comp) == 1 and isinstance(comp[0].args[0], ast.BinOp) and isinstance(comp[0].args[0].op, ast.Add) and \
        isinstance(comp[0].args[0].right, ast.Constant) and comp[0].args[0].right.value == '$' and len(comp[0].args) == 1 and not comp[0].keywords
    fpv = norm(comp[0].args[0].left) if ok else None
    rep.check('R05.d', fkey(cp, "ends with '$'"), ok, "the compiled expression ends with '$'" if ok else
              "re.compile is not given <expr> + '$' (trailing garbage after a match would be accepted)", route, comp[0] if comp else cp.node)
    if fpv:
        asg = [s for s in stmts_of(cp.node) if isinstance(s, (ast.Assign, ast.AugAssign)) and norm(s.targets[0] if isinstance(s, ast.Assign) else s.target) == fpv]
        first = asg[0] if asg else None
        ok = first is not None and isinstance(first, ast.Assign) and isinstance(first.value, ast.Constant) and first.value.value == '^' and \
            all(isinstance(s, ast.AugAssign) and isinstance(s.op, ast.Add) for s in asg[1:])
        rep.check('R05.d', fkey(cp, "starts with '^'"), ok, "the expression starts with '^' and is only appended to" if ok else
                  "the expression does not start with '^' / is re-assigned", route, first or cp.node)
        sepv = kw.get('sep')
        joins = [s for s in asg[1:] if isinstance(s.value, ast.Call) and call_tail(s.value) == 'join' and norm(s.value.func.value) == sepv
                 and isinstance(s.value.args[0], ast.Name)]
        rep.check('R05.d', fkey(cp, 'segments joined by sep'), len(joins) == 1, 'processed segments are joined with the mode\'s separator' if len(joins) == 1 else
                  'processed segments are not joined with sep', route, cp.node)
        tails = [s for s in asg[1:] if isinstance(s.value, ast.Constant) and s.value.value == '/*']
        ok = len(tails) == 1 and has_cond(conds(cp, tails[0]), lambda t: norm(t) == 'mode != S_STRICT', True) and \
            len(asg) == 3
        rep.check('R05.d', fkey(cp, "trailing '/*'"), ok, "outside strict mode trailing slashes are tolerated ('/*'), in strict mode nothing is added" if ok else
                  "the trailing '/*' is not added exactly when mode != S_STRICT", route, tails[0] if tails else cp.node)
    seps = [s for s in stmts_of(cp.node) if isinstance(s, ast.Assign) and norm(s.targets[0]) == kw.get('sep') and isinstance(s.value, ast.Constant)]
    vals = dict((s.value.value, conds(cp, s)) for s in seps)
    ok = set(vals) == {'/+', '/'} and has_cond(vals['/'], lambda t: norm(t) == 'mode == S_STRICT', True) and \
        not any('mode' in norm(t) for t, p in vals['/+'])
    rep.check('R05.d', fkey(cp, 'separators'), ok, "separator is '/+' (repeated slashes tolerated) and exactly '/' in strict mode" if ok else
              'separator per mode changed: %s' % sorted(vals), route, seps[0] if seps else cp.node)
    ok = kw.get('sep') is not None and bool(seps)
    rep.check('R05.d', fkey(cp, 'segment separator'), ok, 'bindings use the same separator' if ok else 'binding segments use another separator', route, fc)
    mp = route.func('BoundRoute.match_path')
    check_match_path_no_raise(rep, 'R05.d')
    from .c07 import check_bound_regex
    check_bound_regex(rep, 'R05.d')
    m_st = [s for s in stmts_of(mp.node) if isinstance(s, ast.Assign) and isinstance(s.value, ast.Call) and norm(s.value.func) == 'self.regex.match']
    from .common import implies_absent
    ok = len(m_st) == 1 and any(isinstance(r.value, ast.Constant) and r.value.value is None and
                                implies_absent(conds(mp, r), norm(m_st[0].targets[0])) for r in returns_of(mp))
    rep.check('R05.d', fkey(mp, 'no match => None'), ok, 'a failed regex match returns None' if ok else 'match_path does not return None for a failed match', route, mp.node)
    ok = m_st and norm(m_st[0].value.args[0]) == mp.params()[1]
    rep.check('R05.d', fkey(mp, 'matches the path'), bool(ok), 'the compiled regex is matched against the given path' if ok else 'regex.match is not applied to the path', route, mp.node)
    rep.floor('R05.d', 9)

    # ---- R05.e -----------------------------------------------------------
    bcv = route.func('build_converter')
    inner = dict((f.name, f) for q, f in route.functions.items() if q.startswith('build_converter.'))
    rets = returns_of(bcv)
    multi_ret = [r for r in rets if has_cond(conds(bcv, r), lambda t: norm(t) == 'multi', True)]
    single_ret = [r for r in rets if r not in multi_ret]
    ok = len(multi_ret) == 1 and len(single_ret) == 1 and norm(multi_ret[0].value) in inner and norm(single_ret[0].value) in inner
    rep.check('R05.e', fkey(bcv, 'selection'), ok, 'multi selects the list converter, otherwise the single converter' if ok else
              'build_converter does not select between a multi and a single converter on "multi"', route, bcv.node)
    if ok:
        mf, sf = inner[norm(multi_ret[0].value)], inner[norm(single_ret[0].value)]
        v = mf.params()[0]
        empties = [r for r in returns_of(mf) if isinstance(r.value, ast.List) and not r.value.elts]
        ok1 = len(empties) == 1 and has_cond(conds(mf, empties[0]), lambda t: norm(t) == 'not %s and optional' % v or norm(t) == 'optional and not %s' % v, True)
        conv = [r for r in returns_of(mf) if r not in empties]
        ok2 = len(conv) == 1 and isinstance(conv[0].value, ast.ListComp) and norm(conv[0].value.generators[0].iter) == "%s.split('/')[1:]" % v and \
            norm(conv[0].value.elt) == 'converter(%s)' % norm(conv[0].value.generators[0].target)
        rep.check('R05.e', fkey(mf, 'optional empty'), ok1, "an absent optional multi binding yields [] before any conversion" if ok1 else
                  'the multi converter does not return [] for an empty optional value', route, mf.node)
        rep.check('R05.e', fkey(mf, 'list of conversions'), ok2, "a multi binding yields [converter(v) for v in value.split('/')[1:]]" if ok2 else
                  "the multi converter is not [converter(v) for v in value.split('/')[1:]]", route, mf.node)
        v = sf.params()[0]
        nones = [r for r in returns_of(sf) if isinstance(r.value, ast.Constant) and r.value.value is None]
        ok1 = len(nones) == 1 and has_cond(conds(sf, nones[0]), lambda t: norm(t) in ('not %s and optional' % v, 'optional and not %s' % v), True)
        conv = [r for r in returns_of(sf) if r not in nones]
        ok2 = len(conv) == 1 and norm(conv[0].value) in ("converter(%s.replace('/', ''))" % v, "converter(%s.lstrip('/'))" % v, "converter(%s.strip('/'))" % v)
        rep.check('R05.e', fkey(sf, 'optional empty'), ok1, 'an absent optional single binding yields None before any conversion' if ok1 else
                  'the single converter does not return None for an empty optional value', route, sf.node)
        rep.check('R05.e', fkey(sf, 'conversion'), ok2, 'a single binding is converted from its segment without the separator' if ok2 else
                  'the single converter does not strip the separator before converting', route, sf.node)
    # default type
    dt = [s for s in stmts_of(cp.node) if isinstance(s, ast.Assign) and isinstance(s.value, ast.Constant) and isinstance(s.value.value, str)
          and s.value.value in convs and has_cond(conds(cp, s), lambda t: norm(t) == norm(s.targets[0]), False)]
    ok = len(dt) == 1 and convs[dt[0].value.value][1] == '_STR_PATTERN'
    rep.check('R05.e', fkey(cp, 'default type'), ok, 'a binding without a type is a string binding' if ok else 'the default binding type is not a registered string type', route, cp.node)
    # BINDING grammar
    try:
        b = None
        for v in route.assigns.get('BINDING', []):
            if isinstance(v, ast.Call) and norm(v.func) == 're.compile':
                b = repo.fold(v.args[0], route)
        gd = regexq.parse(b).state.groupdict
    except Exception as e:
        raise AnalysisError('BINDING regex: %s' % e)
    ok = {'name', 'op', 'type'} <= set(gd) and re.fullmatch(b, '<a>') and re.fullmatch(b, '<a?int>') is not None
    rep.check('R05.e', '%s::BINDING groups' % ROUTE, bool({'name', 'op', 'type'} <= set(gd)), 'BINDING exposes groups name / op / type' if {'name', 'op', 'type'} <= set(gd) else
              'BINDING lacks one of the groups name / op / type', route)
    used = [s for s in stmts_of(cp.node) if isinstance(s, ast.Assign) and isinstance(s.targets[0], ast.Tuple) and "parsed['name']" in norm(s.value)]
    ok = len(used) == 1 and [norm(t) for t in used[0].targets[0].elts] == ['name', 'type_name', 'op'] and \
        [norm(v) for v in used[0].value.elts] == ["parsed['name']", "parsed['type']", "parsed['op']"]
    rep.check('R05.e', fkey(cp, 'groups unpacked'), ok, 'name / type / op are taken from the groups of the same name' if ok else
              'the parsed binding groups are unpacked into the wrong variables', route, used[0] if used else cp.node)
    rep.floor('R05.e', 8)

    # ---- R05.f -----------------------------------------------------------
    n = 0
    for op_ in sorted(DOC_QUANT):
        for pname, p in sorted(pats.items()):
            for sep in ('/+', '/'):
                n += 1
                got = seg.format(name='x', sep=sep, pattern=p, arity=op_)
                spec = '(?:(?:%s)(?:%s))%s' % (sep, p, DOC_QUANT[op_])
                a, w1 = regexq.included(got, spec)
                b_, w2 = regexq.included(spec, got)
                ok = a and b_
                rep.check('R05.f', '%s::segment %r %s sep=%r' % (ROUTE, op_, pname, sep), ok,
                          'segment for operator %r = (sep value)%s exactly' % (op_, DOC_QUANT[op_] or '{1}') if ok else
                          'the segment generated for operator %r / %s / sep %r differs from (sep value)%s: witness %r' %
                          (op_, pname, sep, DOC_QUANT[op_], w1 if not a else w2), route)
    rep.floor('R05.f', 24)
