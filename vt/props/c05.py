"""C05 -- URL patterns match exactly the paths their mini-language describes.

The heart of this property -- pattern p matches path s iff ... for all p x s -- is equality of two
languages, one of which is built at run time by _compile_path_pattern from the pattern text; the
matching semantics *as a whole* are declined.  Decided (shape of the code and of its constant tables):

  R05.a  type tables: DEFAULT_CONVS pairs each type name with the converter and the pattern constant of
         the same type; every pattern constant cannot consume '/', cannot match the empty string, has no
         anchors / back-references; automata inclusion (lower bounds only): -?[0-9]+ in INT,
         -?[0-9]+(\\.[0-9]+)? in FLOAT, INT in FLOAT, STR == [^/]+;
  R05.b  operator tables: _OP_ARITY_MAP and _OP_OPTIONALITY_MAP have the same keys; ':' is normalised to
         '' before the lookups; the operator is the quantifier of the segment group, and its (min, max)
         from the regex AST agrees with the flags: optional <=> min == 0, multi <=> max > 1;
  R05.c  rejection discipline: five guarded ``raise InvalidPattern`` (no leading slash, '//', duplicate
         binding, unknown type and unknown operator via KeyError handler or membership test); every table
         lookup can only fail as InvalidPattern; Route.__init__ compiles the pattern on every normal path
         before storing it;
  R05.d  anchoring and no-raise matching: the compiled expression is '^' ... '$'; separator '/+' (or '/'
         in strict mode) and trailing '/*' outside strict mode; in match_path every converter call is under
         a handler catching ValueError and TypeError that returns None; a failed regex match returns None;
  R05.e  converter shape: multi => list built from value.split('/')[1:], optional-and-empty => [] / None
         before any conversion; arity/optionality flags reach build_converter under the right keywords;
  R05.f  segment structure: for every operator x type pattern x separator, the instantiated _SEG_TMPL is
         language-equal (NFA product) to (SEP TYPE)QUANT built independently from the documented meaning.
  R05.g  the joined list: created empty by the call, one element per part of pattern.split('/') -- the literal part
         itself, the segment of a binding glued (+=) to the element before it -- nothing else touches it; in strict mode it
         is joined whole, outside strict mode without its last element exactly when that is empty (followed by symbolic
         evaluation per mode: ``x[:-1]`` views, pop() / del, copies under other names); the list may be built in two stages
         (the loop fills a list of fragment lists -- ``C.append([part])``, ``C[-1].append(segment)`` -- and the joined list is
         ``[''.join(f) for f in C]``, built after the loop: the same clauses are read off the staging list); the converter
         map is created empty by the call, every binding is recorded, the duplicate test looks at every binding;
  R05.i  the inherit_slashes option (which decides the mode a route is compiled for) is, wherever a function hands it on to another
         object's bind() / bind_all(), read from a declaration, never a literal that would silence the declaring object's own default;
         the mode BoundRoute hands to the pattern compiler is read directly off the application being bound to (option set) or off
         the route being bound -- the parameter whose pattern is compiled -- (option not set), never off the original unbound route,
         an attribute chain or a constant;
  R05.h  match_path: the mapping a match returns holds, for every (name, converter) of self.converters, the converter applied
         once to the text captured for the group of that name (loop, dict comprehension, dict of pairs); the groups of the
         match are read only where the match is known to be one.
Declined: greedy/backtracking interaction between adjacent bindings, slash tolerance over all paths,
conversion values.

How the code is read (so that behaviour-preserving rewrites stay silent):
  * module-level tables are *folded* (loader.Repo.fold: concatenation of named pieces, comprehensions over
    literal tables, ``X += [...]``), never required to be literals; callables in DEFAULT_CONVS fold to symbols;
  * the expression handed to re.compile is obtained by a small path-sensitive symbolic evaluation of
    _compile_path_pattern under each slash-mode assumption (strict / not strict): '+', '+=', '%s' templates,
    str.format, f-strings, named temporaries (``is_strict = mode == S_STRICT``) and any nesting of the mode
    tests give the same symbolic string  '^' JOIN(sep, segments) tail '$';
  * variables of _compile_path_pattern are identified by role (what is passed to _SEG_TMPL.format, what
    indexes the tables, what is returned), never by name; group sources are followed through
    ``m.groupdict()['x']`` / ``m.group('x')`` / ``m['x']`` / ``a, b = m.group('x', 'y')``, held in a variable or read
    off the match in place;
  * a local bound once to a plain copy of another local (``op = raw_op``, also what inlining a helper that returns
    ``(name, op, type_name)`` leaves behind) stands for what the other held *when the copy was taken*: the ':'
    normalisation and the default type must have been applied on every path to the copy;
  * the binding parser may live in a helper of a new private module (the front-end expands ``helper(part)`` imported by name, see
    normalize.collect_imported_helpers); what that leaves -- ``b = None`` / ``b = m.group('name', 'op', 'type')`` in the arms of one
    test of the match, ``if b is None`` later -- is read as the test of the match itself (``_opt_fact``); BINDING is read in the module
    that defines it; a rejection may test the sister tables one by one (``k not in T1 or k not in T2``);
  * build_converter (and the class it may instantiate) is read in the module its definition lives in (route.py may import it back);
  * build_converter is read as a *model* (``_ConvModel``): which function runs for a multi / single binding and how it spells the
    converter, the optional flag and the captured text -- two closures, or an instance of a private callable class whose
    __init__ stores the flags once (the choice made in __init__ through an attribute bound to one of two methods, or at every
    call on a stored flag, the arms written out or in methods);
  * converters: conditions are compared as sets of facts (``optional and not value`` == ``not value and
    optional`` == nested ifs), single-assignment temporaries are inlined, the list of conversions may be a
    comprehension, ``list(map(...))`` or an explicit append loop.
"""
import ast
import copy
import re
import string

from ..core import AnalysisError, norm, short
from .. import regexq
from ..loader import Sym, Unfoldable
from ..astutil import argn, names_loaded, names_stored, assigned_value
from .common import (cfg_of, fkey, conds, has_cond, cond_texts, stmts_of, walk_body, call_tail, call_name, returns_of,
                     raises_of, raise_type, stmt_of, kwarg, protected_by, implies_absent, implies_present, handler_reraises_always)
from ..cfg import enclosing_tries, expand_conds

ROUTE = 'clastic.route'
CANON = {'int': r'-?[0-9]+', 'float': r'-?[0-9]+(\.[0-9]+)?'}
DOC_QUANT = {'': '', '?': '?', '*': '*', '+': '+'}
PATTERN_NAMES = ('_INT_PATTERN', '_FLOAT_PATTERN', '_STR_PATTERN')
TYPE_TABLES = ('TYPE_CONV_MAP', 'TYPE_PATT_MAP')
OP_TABLES = ('_OP_ARITY_MAP', '_OP_OPTIONALITY_MAP')


# ---- generic helpers ---------------------------------------------------------------------------

def _guarded(rep, fn, *args):
    """rep.guard, and additionally: an unexpected Python exception inside a rule group is an analysis gap,
    never a crash of the checker."""
    def group():
        try:
            return fn(*args)
        except AnalysisError:
            raise
        except Exception as e:   # pragma: no cover - defensive
            raise AnalysisError('internal error while analysing (%s: %s)' % (type(e).__name__, e))
    group.__name__ = fn.__name__
    return rep.guard(group)


def _stores(fnode, name):
    """Number of binding occurrences of ``name`` in the body of a function (nested function bodies excluded)."""
    n = 0
    for x in walk_body(fnode):
        if isinstance(x, ast.Name) and x.id == name and isinstance(x.ctx, (ast.Store, ast.Del)):
            n += 1
        elif isinstance(x, (ast.FunctionDef, ast.AsyncFunctionDef, ast.ClassDef)) and x.name == name:
            n += 1
        elif isinstance(x, ast.ExceptHandler) and x.name == name:
            n += 1
        elif isinstance(x, (ast.Import, ast.ImportFrom)):
            n += sum(1 for a in x.names if (a.asname or a.name.split('.')[0]) == name)
        elif isinstance(x, (ast.Global, ast.Nonlocal)) and name in x.names:
            n += 2   # bound somewhere else as well: never "single assignment"
    return n


def _all_params(fi):
    a = fi.node.args
    out = set(fi.params())
    if a.vararg:
        out.add(a.vararg.arg)
    if a.kwarg:
        out.add(a.kwarg.arg)
    return out


def _defs(fi, name, _depth=0):
    """Value expressions bound to local ``name``: [(stmt, value expr or None)]; element-wise for
    ``a, b = x, y``; None when the value cannot be told (loop target, unpacking of a call, ``+=`` ...)."""
    out = []
    for st, val, idx in assigned_value(fi.node, name):
        if idx is None and not isinstance(val, ast.AugAssign):
            out.append((st, val))
        elif isinstance(idx, int) and isinstance(val, (ast.Tuple, ast.List)) and isinstance(st, ast.Assign):
            tgt = [t for t in st.targets if isinstance(t, (ast.Tuple, ast.List)) and len(t.elts) > idx and
                   isinstance(t.elts[idx], ast.Name) and t.elts[idx].id == name]
            if tgt and len(tgt[0].elts) == len(val.elts) and not any(isinstance(e, ast.Starred) for e in list(tgt[0].elts) + list(val.elts)):
                out.append((st, val.elts[idx]))
            else:
                out.append((st, None))
        elif isinstance(idx, int) and isinstance(val, ast.Name) and isinstance(st, ast.Assign) and _depth < 2 and val.id != name:
            # a, b = pair  with  pair = (x, y)  bound once (``pair = None`` on a path that cannot reach the unpacking does not count)
            tgt = [t for t in st.targets if isinstance(t, (ast.Tuple, ast.List)) and len(t.elts) > idx and
                   isinstance(t.elts[idx], ast.Name) and t.elts[idx].id == name]
            pd = [v for s2, v in _defs(fi, val.id, _depth + 1) if not (isinstance(v, ast.Constant) and v.value is None)]
            if tgt and len(pd) == 1 and isinstance(pd[0], (ast.Tuple, ast.List)) and len(pd[0].elts) == len(tgt[0].elts) and \
                    not any(isinstance(e, ast.Starred) for e in list(tgt[0].elts) + list(pd[0].elts)):
                out.append((st, pd[0].elts[idx]))
            elif tgt and len(pd) == 1 and _is_multi_group(pd[0]) and len(pd[0].args) == len(tgt[0].elts) and \
                    not any(isinstance(e, ast.Starred) for e in tgt[0].elts):
                # a, b = pair  with  pair = m.group('x', 'y')
                out.append((st, ast.copy_location(ast.Call(func=pd[0].func, args=[pd[0].args[idx]], keywords=[]), pd[0])))
            else:
                out.append((st, None))
        elif isinstance(idx, int) and isinstance(st, ast.Assign) and _is_multi_group(val):
            # a, b = m.group('x', 'y'): element i is m.group(<i-th name>) (what re documents for several arguments)
            tgt = [t for t in st.targets if isinstance(t, (ast.Tuple, ast.List)) and len(t.elts) > idx and
                   isinstance(t.elts[idx], ast.Name) and t.elts[idx].id == name]
            if tgt and len(tgt[0].elts) == len(val.args) and not any(isinstance(e, ast.Starred) for e in tgt[0].elts):
                out.append((st, ast.copy_location(ast.Call(func=val.func, args=[val.args[idx]], keywords=[]), val)))
            else:
                out.append((st, None))
        else:
            out.append((st, None))
    return out


def _is_multi_group(e):
    return isinstance(e, ast.Call) and isinstance(e.func, ast.Attribute) and e.func.attr == 'group' and len(e.args) >= 2 and not e.keywords and \
        all(isinstance(a, ast.Constant) and isinstance(a.value, str) for a in e.args)


def _copy_root(fi, var):
    """(root, copies): follows ``var = other`` while the local is bound exactly once, by a plain copy of another local
    (alone or as an element of ``a, b = x, y``).  At each of its uses such a local holds what ``other`` held when the copy
    last ran, so what is known about ``other`` *at the copy* is known about ``var``.  copies: the copy statements, the one
    reading the root last."""
    copies, seen = [], set([var])
    params = _all_params(fi)
    while var not in params and _stores(fi.node, var) == 1:
        d = _defs(fi, var)
        if len(d) != 1 or not isinstance(d[0][0], ast.Assign) or not isinstance(d[0][1], ast.Name) or d[0][1].id in seen:
            break
        st, val = d[0]
        if not (val is st.value or (isinstance(st.value, (ast.Tuple, ast.List)) and any(val is e for e in st.value.elts))):
            break
        var = val.id
        seen.add(var)
        copies.append(st)
    return var, copies


def _single_def(fi, name):
    """The value of a local that is bound exactly once (by a plain or element-wise assignment), else None."""
    if name in _all_params(fi) or _stores(fi.node, name) != 1:
        return None
    d = _defs(fi, name)
    if len(d) == 1 and d[0][1] is not None:
        return d[0][1]
    return None


def _inline(fi, expr, stable=(), outer=None, depth=0):
    """Copy of ``expr`` in which single-assignment locals of ``fi`` are replaced by their value, provided every
    name the value reads is never re-bound (a parameter, a name in ``stable``, or a free variable that the
    enclosing function ``outer`` never re-binds)."""
    fn = fi.node
    params = _all_params(fi)

    def is_stable(n):
        if n in stable:
            return True
        k = _stores(fn, n)
        if k:
            return False
        if n in params:
            return True
        return outer is None or _stores(outer.node, n) == 0

    class T(ast.NodeTransformer):
        def visit_Name(self, node):
            if not isinstance(node.ctx, ast.Load) or depth > 8 or node.id in params or node.id in stable:
                return node
            d = _single_def(fi, node.id)
            if d is None:
                return node
            d2 = _inline(fi, d, stable, outer, depth + 1)
            if all(is_stable(n) for n in names_loaded(d2)):
                return d2
            return node

        def visit_Lambda(self, node):
            return node

    return T().visit(copy.deepcopy(expr))


def _opt_fact(fi, t, pol):
    """(t, pol) -> the equivalent fact about the test that decided an *optional result*, when ``t`` asks whether local ``v`` is None /
    empty and ``v`` is bound exactly twice, in the two arms of one ``if T: v = None / else: v = <a non-empty tuple>`` (what inlining a
    helper ``return None`` / ``return m.group('a', 'b')`` leaves behind): then ``v is None`` holds exactly when that arm was taken.
    Required: the ``if`` is an earlier statement of a block enclosing the test (so the test sees the value this run of the block gave
    it), and every name T reads is a parameter or bound once, by an earlier statement of the same block as the ``if``.
    Anything else: the fact unchanged."""
    inner, flip = t, False
    while isinstance(inner, ast.UnaryOp) and isinstance(inner.op, ast.Not):
        inner, flip = inner.operand, not flip
    if isinstance(inner, ast.Name):
        v, none_pol = inner.id, flip            # ``v`` true <=> not None ; ``not v`` true <=> None
    elif isinstance(inner, ast.Compare) and len(inner.ops) == 1 and isinstance(inner.left, ast.Name) and \
            isinstance(inner.comparators[0], ast.Constant) and inner.comparators[0].value is None and isinstance(inner.ops[0], (ast.Is, ast.IsNot)):
        v, none_pol = inner.left.id, (isinstance(inner.ops[0], ast.Is) != flip)
    else:
        return t, pol
    params = _all_params(fi)
    if v in params or _stores(fi.node, v) != 2:
        return t, pol
    mod = fi.mod
    for I in stmts_of(fi.node):
        if not isinstance(I, ast.If) or not I.orelse:
            continue
        arms = []
        for arm in (I.body, I.orelse):
            sts = [x for x in arm if isinstance(x, ast.Assign) and len(x.targets) == 1 and isinstance(x.targets[0], ast.Name) and x.targets[0].id == v]
            arms.append(sts[0].value if len(sts) == 1 else None)
        if arms[0] is None or arms[1] is None:
            continue
        is_none = [isinstance(a, ast.Constant) and a.value is None for a in arms]
        some = [(isinstance(a, ast.Tuple) and bool(a.elts) and isinstance(a.ctx, ast.Load)) or _is_multi_group(a) for a in arms]
        if not ((is_none[0] and some[1]) or (is_none[1] and some[0])):
            continue
        # the ``if`` is an earlier sibling of the statement holding the test (or of one of its ancestors)
        cur, ok = mod.parents.get(t), False
        while cur is not None and cur is not fi.node:
            par = mod.parents.get(cur)
            for fld in ('body', 'orelse', 'finalbody'):
                blk = getattr(par, fld, None)
                if isinstance(blk, list) and any(x is cur for x in blk) and any(x is I for x in blk):
                    ok = [x is I for x in blk].index(True) < [x is cur for x in blk].index(True)
            if ok:
                break
            cur = par
        if not ok:
            continue
        blk = [b for fld in ('body', 'orelse', 'finalbody') for b in [getattr(mod.parents.get(I), fld, None)] if isinstance(b, list) and any(x is I for x in b)]
        before = blk[0][:[x is I for x in blk[0]].index(True)] if blk else []
        stable = True
        for n in names_loaded(I.test):
            if n in params and not _stores(fi.node, n):
                continue
            k = _stores(fi.node, n)
            if k == 0:
                continue           # a global / builtin the function never binds
            d = _defs(fi, n)
            if k != 1 or len(d) != 1 or not any(x is d[0][0] for x in before):
                stable = False
        if not stable:
            continue
        # none_pol: the polarity of ``t`` under which v is None;  v is None <=> the None arm ran <=> T (body) / not T (orelse)
        holds_none = (pol == none_pol)
        return I.test, (holds_none if is_none[0] else not holds_none)
    return t, pol


def _item_stores(fi, name):
    """[(stmt, key expr)] for every ``name[key] = ...`` in the function (also as an element of a tuple target)."""
    out = []
    for st in stmts_of(fi.node):
        if isinstance(st, (ast.Assign, ast.AugAssign, ast.AnnAssign)):
            for t in (st.targets if isinstance(st, ast.Assign) else [st.target]):
                for x in (t.elts if isinstance(t, (ast.Tuple, ast.List)) else [t]):
                    if isinstance(x, ast.Subscript) and isinstance(x.value, ast.Name) and x.value.id == name:
                        out.append((st, x.slice))
    return out


def _bound_var(mod, node):
    """Name of the local an expression node is assigned to (``v = <node>`` or ``v, w = <node>, ...``), else None."""
    p = mod.parents.get(node)
    if isinstance(p, ast.Assign) and p.value is node and len(p.targets) == 1 and isinstance(p.targets[0], ast.Name):
        return p.targets[0].id
    if isinstance(p, (ast.Tuple, ast.List)):
        pp = mod.parents.get(p)
        if isinstance(pp, ast.Assign) and pp.value is p and len(pp.targets) == 1 and isinstance(pp.targets[0], (ast.Tuple, ast.List)) and \
                len(pp.targets[0].elts) == len(p.elts) and not any(isinstance(e, ast.Starred) for e in list(p.elts) + list(pp.targets[0].elts)):
            t = pp.targets[0].elts[list(p.elts).index(node)]
            if isinstance(t, ast.Name):
                return t.id
    return None


def _is_empty_display(e, kind):
    if kind == 'list':
        return (isinstance(e, ast.List) and not e.elts) or (isinstance(e, ast.Call) and norm(e) == 'list()')
    return (isinstance(e, ast.Dict) and not e.keys) or (isinstance(e, ast.Call) and norm(e) == 'dict()')


# ---- symbolic evaluation of the string handed to re.compile ---------------------------------------

def _lit(s):
    return ('s', (('lit', s),) if s else ())


def _toks(v):
    if v[0] == 's':
        return v[1]
    if v[0] == '?':
        return (('sym', v[1]),)
    return None


def _concat(*vals):
    out = []
    for v in vals:
        t = _toks(v)
        if t is None:
            return ('?', 'non-string operand')
        for tok in t:
            if tok[0] == 'lit' and out and out[-1][0] == 'lit':
                out[-1] = ('lit', out[-1][1] + tok[1])
            else:
                out.append(tok)
    return ('s', tuple(out))


def _show(v):
    if v is None:
        return '?'
    if v[0] == 's':
        parts = []
        for tok in v[1]:
            if tok[0] == 'lit':
                parts.append(repr(tok[1]))
            elif tok[0] == 'join':
                parts.append('%s.join(%s)' % (_show(('s', tok[1])), tok[2]))
            else:
                parts.append('<%s>' % tok[1])
        return ' + '.join(parts) or "''"
    if v[0] == 're':
        return 're.compile(%s)' % _show(v[1])
    if v[0] == 't':
        return '(%s)' % ', '.join(_show(x) for x in v[1])
    return '<%s>' % (v[1],)


def _is_minus_one(e):
    return isinstance(e, ast.UnaryOp) and isinstance(e.op, ast.USub) and isinstance(e.operand, ast.Constant) and e.operand.value == 1


def _drops_last(st):
    """name of the list a statement removes the last element from: ``x.pop()`` / ``x.pop(-1)`` / ``del x[-1]``"""
    if isinstance(st, ast.Expr) and isinstance(st.value, ast.Call) and isinstance(st.value.func, ast.Attribute) and st.value.func.attr == 'pop' and \
            isinstance(st.value.func.value, ast.Name) and not st.value.keywords and \
            (not st.value.args or (len(st.value.args) == 1 and _is_minus_one(st.value.args[0]))):
        return st.value.func.value.id
    if isinstance(st, ast.Delete) and len(st.targets) == 1 and isinstance(st.targets[0], ast.Subscript) and isinstance(st.targets[0].value, ast.Name) and \
            _is_minus_one(st.targets[0].slice):
        return st.targets[0].value.id
    return None


class _SymExec(object):
    """Path-sensitive symbolic evaluation of a function body under one assumption about the slash mode.  Tracked
    values are immutable (strings, booleans, compiled regexes, tuples of them), so only re-binding matters:
    loops and statements that are not interpreted forget every name they bind.  Values:
      ('s', tokens)   string; tokens: ('lit', text) | ('join', separator tokens, list expression[, (list, trims)]) | ('sym', text)
      ('b', bool)     known truth value        ('re', value, plain)   re.compile(value), plain = no flags
      ('t', values)   tuple                    ('?', text)            unknown
      ('L', list, trims)   the list object created by the display ``list`` (identified by its node), seen without its last
                      ``trims`` elements (``x[:-1]`` is a new view, ``x.pop()`` / ``del x[-1]`` changes the object for every name
                      that holds it); what a loop puts into the list is not tracked here
    Statements listed in ``watch`` leave a trace ``env['$seen'] = ((stmt, env at the statement), ...)`` on the paths that run them."""

    def __init__(self, repo, fi, mode_param, strict_value, strict):
        self.repo, self.fi, self.mod = repo, fi, fi.mod
        self.mode_param, self.strict_value, self.strict = mode_param, strict_value, strict
        self.locals = set(_all_params(fi)) | set(n for n in (x.id for x in walk_body(fi.node) if isinstance(x, ast.Name) and
                                                             isinstance(x.ctx, (ast.Store, ast.Del))))
        self.locals |= set(x.name for x in walk_body(fi.node) if isinstance(x, (ast.FunctionDef, ast.AsyncFunctionDef, ast.ClassDef)))
        if _stores(fi.node, mode_param):
            raise AnalysisError('%s: the mode parameter %s is re-bound' % (fi.qualname, mode_param))
        for x in ast.walk(fi.node):
            if isinstance(x, ast.Nonlocal):
                raise AnalysisError('%s: nonlocal re-binding is not followed' % fi.qualname)
        self.budget = 4000
        self.watch = ()

    # -- expressions
    def _is_strict_const(self, e):
        if isinstance(e, ast.Constant):
            return e.value == self.strict_value and isinstance(e.value, str)
        if isinstance(e, (ast.Name, ast.Attribute)):
            if isinstance(e, ast.Name) and e.id in self.locals:
                return False
            return self.repo.try_fold(e, self.mod, default=None) == self.strict_value
        return False

    def ev(self, e, env):
        if isinstance(e, ast.Constant):
            if isinstance(e.value, bool):
                return ('b', e.value)
            if isinstance(e.value, str):
                return _lit(e.value)
            return ('?', norm(e))
        if isinstance(e, ast.Name):
            if e.id in env:
                return env[e.id]
            if e.id not in self.locals:
                v = self.repo.try_fold(e, self.mod, default=None)
                if isinstance(v, str):
                    return _lit(v)
                if isinstance(v, bool):
                    return ('b', v)
            return ('?', e.id)
        if isinstance(e, ast.Compare) and len(e.ops) == 1 and isinstance(e.ops[0], (ast.Eq, ast.NotEq)):
            l, r = e.left, e.comparators[0]
            for a, b in ((l, r), (r, l)):
                if isinstance(a, ast.Name) and a.id == self.mode_param and self._is_strict_const(b):
                    return ('b', self.strict == isinstance(e.ops[0], ast.Eq))
            return ('?', short(e, 40))
        if isinstance(e, ast.UnaryOp) and isinstance(e.op, ast.Not):
            v = self.ev(e.operand, env)
            return ('b', not v[1]) if v[0] == 'b' else ('?', short(e, 40))
        if isinstance(e, ast.BoolOp):
            vs = [self.ev(x, env) for x in e.values]
            decisive = isinstance(e.op, ast.Or)
            if any(v[0] == 'b' and v[1] is decisive for v in vs):
                return ('b', decisive)
            if all(v[0] == 'b' for v in vs):
                return ('b', not decisive)
            return ('?', short(e, 40))
        if isinstance(e, ast.IfExp):
            t = self.ev(e.test, env)
            if t[0] == 'b':
                return self.ev(e.body if t[1] else e.orelse, env)
            return ('?', short(e, 40))
        if isinstance(e, ast.Tuple):
            return ('t', tuple(self.ev(x, env) for x in e.elts))
        if (isinstance(e, ast.List) and not e.elts) or (isinstance(e, ast.Call) and isinstance(e.func, ast.Name) and e.func.id == 'list' and
                                                       not e.args and not e.keywords and 'list' not in self.locals):
            return ('L', id(e), 0)
        if isinstance(e, ast.ListComp) or (isinstance(e, ast.Call) and isinstance(e.func, ast.Name) and e.func.id == 'list' and 'list' not in self.locals and
                                           len(e.args) == 1 and not e.keywords and
                                           (isinstance(e.args[0], ast.GeneratorExp) or (isinstance(e.args[0], ast.Call) and norm(e.args[0].func) == 'map' and
                                                                                      'map' not in self.locals))):
            return ('L', id(e), 0)       # a list of its own, built in place (what it holds is not tracked here)
        if isinstance(e, ast.Subscript) and isinstance(e.slice, ast.Slice):
            v = self.ev(e.value, env)
            sl = e.slice
            if v[0] == 'L' and sl.lower is None and sl.step is None and isinstance(sl.upper, ast.UnaryOp) and isinstance(sl.upper.op, ast.USub) and \
                    isinstance(sl.upper.operand, ast.Constant) and sl.upper.operand.value == 1:
                return ('L', v[1], v[2] + 1)
            return ('?', short(e, 40))
        if isinstance(e, ast.BinOp) and isinstance(e.op, ast.Add):
            l, r = self.ev(e.left, env), self.ev(e.right, env)
            if l[0] == 's' or r[0] == 's':
                return _concat(l, r)
            return ('?', short(e, 40))
        if isinstance(e, ast.BinOp) and isinstance(e.op, ast.Mod):
            return self._percent(e, env)
        if isinstance(e, ast.JoinedStr):
            parts = []
            for v in e.values:
                if isinstance(v, ast.Constant):
                    parts.append(_lit(str(v.value)))
                elif isinstance(v, ast.FormattedValue) and v.format_spec is None and v.conversion in (-1, 115):
                    parts.append(self.ev(v.value, env))
                else:
                    return ('?', short(e, 40))
            return _concat(*parts)
        if isinstance(e, ast.Call):
            f = e.func
            if norm(f) == 're.compile' and e.args and not isinstance(e.args[0], ast.Starred):
                return ('re', self.ev(e.args[0], env), len(e.args) == 1 and not e.keywords)
            if isinstance(f, ast.Attribute) and f.attr == 'join' and len(e.args) == 1 and not e.keywords:
                sepv = self.ev(f.value, env)
                a = e.args[0]
                base = a.value if isinstance(a, ast.Subscript) and isinstance(a.slice, ast.Slice) else a
                if _toks(sepv) is not None and isinstance(base, ast.Name):
                    lv = self.ev(a, env)
                    if lv[0] == 'L':
                        return ('s', (('join', _toks(sepv), norm(a), (lv[1], lv[2])),))
                    return ('s', (('join', _toks(sepv), norm(a)),))
                if _toks(sepv) is not None and isinstance(a, (ast.List, ast.Tuple)) and not any(isinstance(x, ast.Starred) for x in a.elts):
                    parts = []          # ''.join(['^', body, tail, '$'])
                    for i, x in enumerate(a.elts):
                        if i:
                            parts.append(sepv)
                        parts.append(self.ev(x, env))
                    return _concat(*parts) if parts else _lit('')
                return ('?', short(e, 40))
            if isinstance(f, ast.Attribute) and f.attr == 'format':
                return self._format(e, env)
            return ('?', short(e, 40))
        return ('?', short(e, 40))

    def _percent(self, e, env):
        t = self.ev(e.left, env)
        if not (t[0] == 's' and len(t[1]) == 1 and t[1][0][0] == 'lit'):
            return ('?', short(e, 40))
        tmpl = t[1][0][1]
        args = [self.ev(x, env) for x in e.right.elts] if isinstance(e.right, ast.Tuple) else [self.ev(e.right, env)]
        parts, i, cur = [], 0, ''
        k = 0
        while k < len(tmpl):
            ch = tmpl[k]
            if ch != '%':
                cur += ch
                k += 1
                continue
            nxt = tmpl[k + 1:k + 2]
            if nxt == '%':
                cur += '%'
            elif nxt == 's' and i < len(args):
                parts.append(_lit(cur))
                cur = ''
                parts.append(args[i])
                i += 1
            else:
                return ('?', short(e, 40))
            k += 2
        if i != len(args):
            return ('?', short(e, 40))
        parts.append(_lit(cur))
        return _concat(*parts)

    def _format(self, e, env):
        t = self.ev(e.func.value, env)
        if not (t[0] == 's' and len(t[1]) == 1 and t[1][0][0] == 'lit') or any(isinstance(a, ast.Starred) for a in e.args) or \
                any(k.arg is None for k in e.keywords):
            return ('?', short(e, 40))
        pos = [self.ev(a, env) for a in e.args]
        kws = dict((k.arg, self.ev(k.value, env)) for k in e.keywords)
        parts, auto = [], 0
        try:
            fields = list(string.Formatter().parse(t[1][0][1]))
        except ValueError:
            return ('?', short(e, 40))
        for text, field, spec, conv in fields:
            parts.append(_lit(text))
            if field is None:
                continue
            if spec or conv not in (None, 's'):
                return ('?', short(e, 40))
            if field == '':
                field = str(auto)
                auto += 1
            if field.isdigit() and int(field) < len(pos):
                parts.append(pos[int(field)])
            elif field in kws:
                parts.append(kws[field])
            else:
                return ('?', short(e, 40))
        return _concat(*parts)

    # -- statements
    def _forget(self, env, names):
        e2 = dict(env)
        for n in names:
            e2[n] = ('?', n)
        return e2

    def _bound_in(self, st):
        out = set(names_stored(st))
        for x in ast.walk(st):
            if isinstance(x, (ast.FunctionDef, ast.AsyncFunctionDef, ast.ClassDef)):
                out.add(x.name)
            elif isinstance(x, ast.ExceptHandler) and x.name:
                out.add(x.name)
            elif isinstance(x, (ast.Import, ast.ImportFrom)):
                out |= set((a.asname or a.name.split('.')[0]) for a in x.names)
        return out

    def block(self, stmts, env):
        """Yields ('fall' | 'return', value, env) for every path through the statement list."""
        if not stmts:
            yield ('fall', None, env)
            return
        for kind, val, e2 in self.step(stmts[0], env):
            if kind == 'fall':
                for r in self.block(stmts[1:], e2):
                    yield r
            else:
                yield (kind, val, e2)

    def step(self, st, env):
        self.budget -= 1
        if self.budget < 0:
            raise AnalysisError('%s: too many paths for the symbolic evaluation' % self.fi.qualname)
        walrus = set(x.target.id for x in ast.walk(st) if isinstance(x, ast.NamedExpr) and isinstance(x.target, ast.Name))
        if walrus:
            env = self._forget(env, walrus)
        if any(st is w for w in self.watch):
            env = dict(env)
            env['$seen'] = env.get('$seen', ()) + ((st, dict(env)),)
        dropped = _drops_last(st)
        if dropped is not None and env.get(dropped, ('?',))[0] == 'L':
            # x.pop() / del x[-1]: the object loses its last element, under every name that holds it
            obj = env[dropped]
            env = dict((k, ('L', v[1], v[2] + 1) if isinstance(v, tuple) and v[:2] == obj[:2] and not k.startswith('$') else v) for k, v in env.items())
            yield ('fall', None, env)
            return
        if isinstance(st, ast.Assign) or (isinstance(st, ast.AnnAssign) and st.value is not None):
            targets = st.targets if isinstance(st, ast.Assign) else [st.target]
            val = self.ev(st.value, env)
            e2 = dict(env)
            for t in targets:
                if isinstance(t, ast.Name):
                    e2[t.id] = val
                elif isinstance(t, (ast.Tuple, ast.List)) and val[0] == 't' and len(val[1]) == len(t.elts) and \
                        all(isinstance(x, ast.Name) for x in t.elts):
                    for x, v in zip(t.elts, val[1]):
                        e2[x.id] = v
                else:
                    for n in names_stored(t):
                        e2[n] = ('?', n)
            yield ('fall', None, e2)
        elif isinstance(st, ast.AugAssign):
            e2 = dict(env)
            if isinstance(st.target, ast.Name):
                old = env.get(st.target.id, ('?', st.target.id))
                new = self.ev(st.value, env)
                if isinstance(st.op, ast.Add) and (old[0] == 's' or new[0] == 's'):
                    e2[st.target.id] = _concat(old, new)
                else:
                    e2[st.target.id] = ('?', st.target.id)
            yield ('fall', None, e2)
        elif isinstance(st, ast.If):
            t = self.ev(st.test, env)
            branches = [st.body if t[1] else st.orelse] if t[0] == 'b' else [st.body, st.orelse]
            for b in branches:
                for r in self.block(b, dict(env)):
                    yield r
        elif isinstance(st, (ast.For, ast.AsyncFor, ast.While)):
            # the body is not interpreted: a name it binds is unknown afterwards -- unless every binding of it in the
            # loop is ``name = '<literal>'``: then it holds its old value or one of those literals (one path each)
            bound = self._bound_in(st)
            cands = {}
            for n in sorted(bound):
                binders = [x for x in ast.walk(st) if n in self._bound_in(x) and isinstance(x, ast.stmt) and
                           not isinstance(x, (ast.If, ast.For, ast.AsyncFor, ast.While, ast.Try, ast.With, ast.AsyncWith))]
                if n in env and binders and all(isinstance(x, ast.Assign) and len(x.targets) == 1 and isinstance(x.targets[0], ast.Name) and
                                                isinstance(x.value, ast.Constant) and isinstance(x.value.value, str) for x in binders) and \
                        not (isinstance(st, (ast.For, ast.AsyncFor)) and n in names_stored(st.target)):
                    vals = [env[n]]
                    for x in binders:
                        if _lit(x.value.value) not in vals:
                            vals.append(_lit(x.value.value))
                    cands[n] = vals
            envs = [self._forget(env, bound - set(cands))]
            for n, vals in sorted(cands.items()):
                envs = [dict(e, **{n: v}) for e in envs for v in vals]
            for e2 in envs[:64]:
                e2['$loops'] = env.get('$loops', ()) + ((st, dict(e2)),)
                if any(isinstance(x, ast.Return) for x in ast.walk(st)):
                    yield ('return', ('?', 'return inside a loop'), e2)
                yield ('fall', None, e2)
        elif isinstance(st, ast.Try):
            if any(isinstance(x, ast.Return) for s in st.finalbody for x in ast.walk(s)):
                raise AnalysisError('%s: return inside finally is not followed' % self.fi.qualname)
            for kind, val, e2 in self.block(st.body, env):
                if kind == 'fall':
                    for r in self.block(list(st.orelse) + list(st.finalbody), e2):
                        yield r
                else:
                    for k3, v3, e3 in self.block(st.finalbody, e2):
                        yield (kind, val, e3)
            eh = self._forget(env, set().union(*[self._bound_in(s) for s in st.body]) if st.body else set())
            for h in st.handlers:
                e3 = self._forget(eh, [h.name] if h.name else [])
                for r in self.block(list(h.body) + list(st.finalbody), e3):
                    yield r
        elif isinstance(st, (ast.With, ast.AsyncWith)):
            names = set()
            for it in st.items:
                if it.optional_vars is not None:
                    names |= names_stored(it.optional_vars)
            for r in self.block(st.body, self._forget(env, names)):
                yield r
        elif isinstance(st, ast.Return):
            yield ('return', self.ev(st.value, env) if st.value is not None else ('?', 'None'), env)
        elif isinstance(st, ast.Raise):
            return
        elif isinstance(st, (ast.Expr, ast.Pass, ast.Global, ast.Assert, ast.Break, ast.Continue)):
            yield ('fall', None, env)
        else:
            e2 = self._forget(env, self._bound_in(st))
            if any(isinstance(x, ast.Return) for x in ast.walk(st)) and not isinstance(st, (ast.FunctionDef, ast.AsyncFunctionDef, ast.ClassDef)):
                yield ('return', ('?', 'return inside %s' % type(st).__name__), e2)
            yield ('fall', None, e2)

    def returns(self):
        return [(val, env) for kind, val, env in self.block(list(self.fi.node.body), {}) if kind == 'return']


# ---- match_path (also used by C08) ------------------------------------------------------------------

def check_match_path_no_raise(rep, rule):
    """Every converter call in BoundRoute.match_path really runs under a handler catching ValueError and TypeError
    that returns None (a lazily evaluated call -- generator expression consumed later, lambda -- is not protected by
    the try it is written in)."""
    repo = rep.repo
    route = repo.mod(ROUTE)
    mp = route.func('BoundRoute.match_path')
    conv_vars = set()
    for n in ast.walk(mp.node):
        # what is iterated, seen through single-assignment temporaries (pairs = self.converters.items())
        if isinstance(n, (ast.For, ast.comprehension)) and 'converters' in norm(_inline(mp, n.iter)):
            conv_vars |= set(x.id for x in ast.walk(n.target) if isinstance(x, ast.Name))
    def is_converter(f):
        # a variable of the loop over the converters, a converter looked up in place, or a local naming one of them
        if isinstance(f, ast.Name) and f.id not in conv_vars:
            f = _inline(mp, f, stable=tuple(conv_vars))
        return (isinstance(f, ast.Name) and f.id in conv_vars) or (isinstance(f, ast.Subscript) and 'converters' in norm(f.value))
    conv_calls = [c for c in ast.walk(mp.node) if isinstance(c, ast.Call) and is_converter(c.func)]
    if not conv_calls:
        raise AnalysisError('match_path: converter call not found')
    for c in conv_calls:
        for exc in ('ValueError', 'TypeError'):
            h = protected_by(mp, c, exc)
            ok = h is not None and all(isinstance(r.value, ast.Constant) and r.value.value is None for r in ast.walk(h) if isinstance(r, ast.Return)) and \
                isinstance(h.body[-1], ast.Return)
            rep.check(rule, fkey(mp, 'converter under except %s' % exc), ok, 'a %s from a converter means "no match" (returns None)' % exc if ok else
                      'a %s raised by a converter escapes match_path (not under a handler at the point where it actually runs): the request '
                      'fails instead of trying the next route' % exc, route, c)
    # nothing else in match_path can raise on request data outside the handler: the regex match itself is total
    return len(conv_calls)


_MUTATORS = ('update', 'pop', 'popitem', 'clear', 'setdefault', 'append', 'extend', 'insert', 'remove', 'sort', 'reverse',
             '__setitem__', '__delitem__')


def _check_unmutated(mod, names):
    """A folded table is only what its defining statements say: any in-place modification elsewhere in the module
    (``T[k] = v``, ``del T[k]``, ``T.update(...)``, re-binding inside a function) is not followed."""
    for n in ast.walk(mod.tree):
        what = None
        if isinstance(n, ast.Subscript) and isinstance(n.ctx, (ast.Store, ast.Del)) and isinstance(n.value, ast.Name) and n.value.id in names:
            what = n.value.id
        elif isinstance(n, ast.Call) and isinstance(n.func, ast.Attribute) and n.func.attr in _MUTATORS and \
                isinstance(n.func.value, ast.Name) and n.func.value.id in names:
            what = n.func.value.id
        elif isinstance(n, ast.Global) and set(n.names) & set(names):
            fn = mod.enclosing_function(n)
            if fn is not None and any(isinstance(x, ast.Name) and x.id in names and isinstance(x.ctx, (ast.Store, ast.Del)) for x in ast.walk(fn)):
                what = sorted(set(n.names) & set(names))[0]
        if what is not None:
            fn = mod.enclosing_function(n)
            if fn is not None and what in [a.arg for a in fn.args.posonlyargs + fn.args.args + fn.args.kwonlyargs]:
                continue        # a parameter of the same name
            raise AnalysisError('%s is modified in place (line %s): its value cannot be folded from its definition' % (what, getattr(n, 'lineno', '?')))


# ---- R05.a ------------------------------------------------------------------------------------------

def _type_tables(rep):
    """-> (convs: type name -> (converter symbol name, pattern text), pats: constant name -> pattern text)"""
    repo = rep.repo
    route = repo.mod(ROUTE)
    if 'DEFAULT_CONVS' not in route.assigns:
        raise AnalysisError('DEFAULT_CONVS not found')
    _check_unmutated(route, ('DEFAULT_CONVS',))
    try:
        rows = repo.fold(ast.Name(id='DEFAULT_CONVS', ctx=ast.Load()), route, sym=True)
    except Unfoldable as e:
        raise AnalysisError('DEFAULT_CONVS cannot be folded to a table: %s' % e)
    if not isinstance(rows, (list, tuple)):
        raise AnalysisError('DEFAULT_CONVS is not a sequence of rows: %r' % (rows,))
    pats = {}
    for name in PATTERN_NAMES:
        try:
            pats[name] = route.const(name)
        except Exception as e:
            raise AnalysisError('cannot fold %s: %s' % (name, e))
        if not isinstance(pats[name], str):
            raise AnalysisError('%s is not a string constant' % name)
    convs = {}
    for r in rows:
        if not (isinstance(r, (tuple, list)) and len(r) == 3 and isinstance(r[0], str)):
            raise AnalysisError('DEFAULT_CONVS entry %r' % (r,))
        if not isinstance(r[1], Sym) or not isinstance(r[2], str):
            raise AnalysisError('DEFAULT_CONVS entry %r: converter / pattern cannot be told statically' % (r,))
        convs[r[0]] = (r[1].name, r[2])
    anchor = None
    for st in route.tree.body:
        if isinstance(st, (ast.Assign, ast.AugAssign, ast.AnnAssign)) and 'DEFAULT_CONVS' in names_stored(st):
            anchor = st
            break
    pname = lambda p: ([n for n in PATTERN_NAMES if pats[n] == p] or [repr(p)])[0]
    want = {'int': ('int', '_INT_PATTERN'), 'float': ('float', '_FLOAT_PATTERN'), 'str': ('str', '_STR_PATTERN'), 'unicode': ('str', '_STR_PATTERN')}
    for t, (wc, wp) in want.items():
        got = convs.get(t)
        ok = got is not None and (got[0] == wc or (wc == 'str' and got[0] in ('str', 'unicode'))) and got[1] == pats[wp]
        rep.check('R05.a', '%s::DEFAULT_CONVS[%s]' % (ROUTE, t), ok, "type '%s' -> converter %s, pattern %s" % (t, got[0] if got else None, pname(got[1]) if got else None) if ok else
                  "type '%s' is paired with converter/pattern %s (expected %s/%s)" % (t, (got[0], pname(got[1])) if got else None, wc, wp), route, anchor)
    # registration loop feeds both maps from the same tuple
    rc = route.func('_register_converter')
    ps = rc.params()
    if len(ps) != 3:
        raise AnalysisError('_register_converter: expected (name, func, pattern)')
    stores = dict((norm(s.targets[0]), norm(s.value)) for s in stmts_of(rc.node) if isinstance(s, ast.Assign))
    ok = stores.get('TYPE_CONV_MAP[%s]' % ps[0]) == ps[1] and stores.get('TYPE_PATT_MAP[%s]' % ps[0]) == ps[2]
    rep.check('R05.a', fkey(rc), ok, 'converter and pattern are registered under the same name' if ok else
              '_register_converter cross-wires the tables: %s' % stores, route, rc.node)
    loops = [s for s in route.tree.body if isinstance(s, ast.For) and norm(s.iter) == 'DEFAULT_CONVS']

    def registers_row(loop):
        for c in ast.walk(loop):
            if not (isinstance(c, ast.Call) and call_name(c) == '_register_converter') or c.keywords:
                continue
            if isinstance(loop.target, (ast.Tuple, ast.List)) and [norm(a) for a in c.args] == [norm(x) for x in loop.target.elts]:
                return True
            if isinstance(loop.target, ast.Name) and len(c.args) == 1 and isinstance(c.args[0], ast.Starred) and norm(c.args[0].value) == loop.target.id:
                return True
        return False
    ok = len(loops) == 1 and registers_row(loops[0]) and not loops[0].orelse and \
        not any(isinstance(x, (ast.If, ast.Break, ast.Continue, ast.Try)) for x in ast.walk(loops[0]))
    # the table is complete when the loop runs: nothing binds DEFAULT_CONVS after it
    if ok:
        body = list(route.tree.body)
        ok = not any('DEFAULT_CONVS' in names_stored(st) for st in body[body.index(loops[0]) + 1:]
                     if not isinstance(st, (ast.FunctionDef, ast.AsyncFunctionDef, ast.ClassDef)))
    rep.check('R05.a', '%s::registration loop' % ROUTE, ok, 'every DEFAULT_CONVS entry is registered as (name, func, pattern)' if ok else
              'DEFAULT_CONVS is not registered entry by entry in order', route, loops[0] if loops else None)
    # the two maps are two objects: each name is bound once, to an empty dict display of its own
    tv = [route.assigns.get(t, []) for t in TYPE_TABLES]
    ok = all(len(v) == 1 and isinstance(v[0], ast.expr) and _is_empty_display(v[0], 'dict') for v in tv) and tv[0][0] is not tv[1][0]
    rep.check('R05.a', '%s::type maps are two dicts' % ROUTE, ok, 'TYPE_CONV_MAP and TYPE_PATT_MAP are two empty dicts of their own' if ok else
              'TYPE_CONV_MAP and TYPE_PATT_MAP are not two separately created empty dicts (one object under both names receives converter and pattern '
              'under the same key: the pattern overwrites the converter)', route, anchor)
    for name in PATTERN_NAMES:
        p = pats[name]
        rep.check('R05.a', '%s::%s::no slash' % (ROUTE, name), not regexq.can_consume(p, '/'),
                  '%s cannot consume "/" (a value never swallows the next segment)' % name if not regexq.can_consume(p, '/') else
                  '%s = %r can consume "/": one binding can swallow following segments' % (name, p), route)
        lo, hi = regexq.width(p)
        rep.check('R05.a', '%s::%s::non-empty' % (ROUTE, name), lo >= 1, '%s cannot match the empty string (min width %d)' % (name, lo) if lo >= 1 else
                  '%s = %r matches the empty string' % (name, p), route)
        bad = regexq.has_anchor_or_backref(p)
        rep.check('R05.a', '%s::%s::plain' % (ROUTE, name), not bad, '%s has no anchors / back-references / look-arounds' % name if not bad else
                  '%s = %r contains anchors or back-references' % (name, p), route)
    incl = [(CANON['int'], pats['_INT_PATTERN'], 'canonical integers in INT'), (CANON['float'], pats['_FLOAT_PATTERN'], 'canonical decimals in FLOAT'),
            (pats['_INT_PATTERN'], pats['_FLOAT_PATTERN'], 'INT in FLOAT'), (r'[^/]+', pats['_STR_PATTERN'], 'every non-empty slash-free segment in STR'),
            (pats['_STR_PATTERN'], r'[^/]+', 'STR only slash-free segments')]
    for a, b, label in incl:
        ok, w = regexq.included(a, b)
        rep.check('R05.a', '%s::inclusion::%s' % (ROUTE, label), ok, 'automata inclusion holds: %s' % label if ok else
                  'language inclusion fails (%s): %r is matched by %r but not by %r' % (label, w, a, b), route)
    rep.floor('R05.a', 19)
    return convs, pats


# ---- roles of the variables of _compile_path_pattern ---------------------------------------------------

class _Roles(object):
    pass


def _roles(rep):
    """Locate, by role, the pieces of _compile_path_pattern every later rule talks about."""
    repo = rep.repo
    route = repo.mod(ROUTE)
    cp = route.func('_compile_path_pattern')
    R = _Roles()
    R.route, R.cp, R.cfg = route, cp, cfg_of(cp)
    if len(cp.params()) < 2:
        raise AnalysisError('_compile_path_pattern: expected (pattern, mode)')
    R.pvar, R.mode = cp.params()[0], cp.params()[1]
    fmt_calls = [c for c in walk_body(cp.node) if isinstance(c, ast.Call) and call_tail(c) == 'format' and norm(c.func.value) == '_SEG_TMPL']
    if len(fmt_calls) != 1:
        raise AnalysisError('_compile_path_pattern: _SEG_TMPL.format call not found')
    R.fc = fmt_calls[0]
    if R.fc.args:
        raise AnalysisError('_compile_path_pattern: _SEG_TMPL.format is not called with keyword arguments')
    R.kw = {}
    for k in R.fc.keywords:
        if k.arg is not None:
            R.kw[k.arg] = k.value
            continue
        # _SEG_TMPL.format(**fields) with fields = dict(name=..., ...) / {'name': ..., ...} bound once
        d = _single_def(cp, k.value.id) if isinstance(k.value, ast.Name) else k.value
        if isinstance(d, ast.Dict) and all(isinstance(x, ast.Constant) and isinstance(x.value, str) for x in d.keys):
            R.kw.update((x.value, v) for x, v in zip(d.keys, d.values))
        elif isinstance(d, ast.Call) and norm(d.func) == 'dict' and not d.args and all(x.arg for x in d.keywords):
            R.kw.update((x.arg, x.value) for x in d.keywords)
        else:
            raise AnalysisError('_compile_path_pattern: the fields given to _SEG_TMPL.format cannot be told statically')
    R.kwt = dict((k, norm(v)) for k, v in R.kw.items())
    R.opvar = R.kwt.get('arity') if isinstance(R.kw.get('arity'), ast.Name) else None
    # table lookups: table name -> [(Subscript node, key text, local it is bound to)]
    R.lookups = dict((tab, []) for tab in TYPE_TABLES + OP_TABLES)
    R.soft = {}      # id(lookup node) -> default expression or None: lookups written ``TABLE.get(key[, default])``
    for n in walk_body(cp.node):
        if isinstance(n, ast.Subscript) and isinstance(n.ctx, ast.Load) and isinstance(n.value, ast.Name) and \
                n.value.id in TYPE_TABLES + OP_TABLES and n.value.id not in _all_params(cp) and not _stores(cp.node, n.value.id):
            R.lookups.setdefault(n.value.id, []).append((n, norm(n.slice), _bound_var(route, n)))
        elif isinstance(n, ast.Call) and isinstance(n.func, ast.Attribute) and n.func.attr == 'get' and isinstance(n.func.value, ast.Name) and \
                n.func.value.id in TYPE_TABLES + OP_TABLES and n.func.value.id not in _all_params(cp) and not _stores(cp.node, n.func.value.id) and \
                1 <= len(n.args) <= 2 and not n.keywords:
            R.lookups.setdefault(n.func.value.id, []).append((n, norm(n.args[0]), _bound_var(route, n)))
            R.soft[id(n)] = n.args[1] if len(n.args) == 2 else None

    missing = [tab for tab in TYPE_TABLES + OP_TABLES if not R.lookups[tab]]
    if missing:
        raise AnalysisError('_compile_path_pattern: no lookup %s[...] found' % missing[0])

    def table_of(expr):
        """(table, key text) an expression reads: a direct lookup or a local bound once to a lookup."""
        if isinstance(expr, ast.Name):
            for tab, ls in R.lookups.items():
                for node, key, var in ls:
                    if var == expr.id and _stores(cp.node, var) == 1:
                        return tab, key
            return None, None
        if isinstance(expr, ast.Subscript) and isinstance(expr.value, ast.Name) and expr.value.id in R.lookups:
            return expr.value.id, norm(expr.slice)
        if isinstance(expr, ast.Call) and id(expr) in R.soft:
            return expr.func.value.id, norm(expr.args[0])
        return None, None
    R.table_of = table_of
    bc = [c for c in walk_body(cp.node) if isinstance(c, ast.Call) and call_name(c) == 'build_converter']
    R.bc = bc[0] if len(bc) == 1 else None
    cp_rets = [r for r in returns_of(cp) if isinstance(r.value, ast.Tuple) and len(r.value.elts) == 2]
    if len(cp_rets) != 1 or len(returns_of(cp)) != 1 or not isinstance(cp_rets[0].value.elts[1], ast.Name):
        raise AnalysisError('_compile_path_pattern: expected a single "return regex, converter_map"')
    R.vcm = cp_rets[0].value.elts[1].id
    tkeys = set(key for tab in TYPE_TABLES for node, key, var in R.lookups.get(tab, []))
    R.typevar = list(tkeys)[0] if len(tkeys) == 1 and re.match(r'^[A-Za-z_]\w*$', list(tkeys)[0]) else None
    R.namevar = R.kwt.get('name') if isinstance(R.kw.get('name'), ast.Name) else None
    loops = [s for s in stmts_of(cp.node) if isinstance(s, (ast.For, ast.While)) and any(x is R.fc for x in ast.walk(s))]
    R.loop = loops[-1] if loops else None     # innermost loop containing the segment construction
    return R


# ---- R05.b ------------------------------------------------------------------------------------------

def _operator_tables(rep):
    route = rep.repo.mod(ROUTE)
    _check_unmutated(route, OP_TABLES)
    try:
        arity = route.const('_OP_ARITY_MAP')
        opt = route.const('_OP_OPTIONALITY_MAP')
        seg = route.const('_SEG_TMPL')
    except Exception as e:
        raise AnalysisError('cannot fold operator tables: %s' % e)
    if not (isinstance(arity, dict) and isinstance(opt, dict) and isinstance(seg, str)):
        raise AnalysisError('operator tables / segment template are not a dict / dict / string')
    return arity, opt, seg


def _rule_b(rep, R, tabs):
    route, cp, ccfg = R.route, R.cp, R.cfg
    arity, opt, seg = tabs
    rep.check('R05.b', '%s::operator tables keys' % ROUTE, set(arity) == set(opt), 'both operator tables have keys %s' % sorted(arity) if set(arity) == set(opt) else
              'operator tables disagree on their keys: %s vs %s' % (sorted(arity), sorted(opt)), route)
    need = {'', '?', ':', '+', '*'}
    rep.check('R05.b', '%s::operators' % ROUTE, set(arity) == need, 'the documented operators are all present' if set(arity) == need else
              'operators %s (documented: %s)' % (sorted(arity), sorted(need)), route)
    opvar = R.opvar
    op_lookups = [x for tab in OP_TABLES for x in R.lookups.get(tab, [])]
    ok = opvar is not None and all(len(R.lookups.get(tab, [])) == 1 for tab in OP_TABLES) and all(key == opvar for node, key, var in op_lookups)
    rep.check('R05.b', fkey(cp, 'operator is the quantifier'), ok, 'the looked-up operator %s is used verbatim as the group quantifier' % opvar if ok else
              'the quantifier put into the segment (%s) is not the operator looked up in the tables' % R.kwt.get('arity'), route, R.fc)
    # the variable that is used may be a copy (``op = parsed_op``, bound once) of the one that is normalised: then the
    # normalisation has to be done when the copy is taken
    oproot, opcopies = _copy_root(cp, opvar) if opvar is not None else (None, [])
    is_colon = lambda t: isinstance(t, ast.Compare) and len(t.ops) == 1 and isinstance(t.ops[0], ast.Eq) and \
        sorted([norm(t.left), norm(t.comparators[0])]) == sorted([str(oproot), "':'"])
    norm_st = [s for s in stmts_of(cp.node) if isinstance(s, ast.Assign) and len(s.targets) == 1 and norm(s.targets[0]) == oproot and isinstance(s.value, ast.Constant)
               and s.value.value == '' and has_cond(conds(cp, s), is_colon, True)]
    # ... or through an alias table:  op = ALIASES.get(op, op)  with ALIASES == {':': ''}
    norm_st += [s for s in stmts_of(cp.node) if isinstance(s, ast.Assign) and len(s.targets) == 1 and norm(s.targets[0]) == oproot and
                _alias_lookup(rep.repo, route, cp, s.value, oproot) == {':': ''}]
    users = [stmt_of(route, node) for node, key, var in op_lookups] + [stmt_of(route, R.fc)] + opcopies
    ok = opvar is not None and len(norm_st) == 1 and bool(op_lookups) and \
        all(ccfg.must_pass(ccfg.nodes_of(norm_st[0]) + [n.id for n in ccfg.nodes if n.kind == 'branch' and is_colon(n.test) and n.pol is False],
                           ccfg.entry, ccfg.nodes_of(s)) for s in users)
    rep.check('R05.b', fkey(cp, "':' normalised"), ok, "':' is normalised to '' before the table lookups (and before it could become a quantifier)" if ok else
              "the ':' operator is not normalised to '' before use", route, norm_st[0] if norm_st else cp.node)
    for op_ in sorted(arity):
        if op_ == ':':
            ok = '' in arity and '' in opt and ':' in opt and arity[':'] == arity[''] and opt[':'] == opt['']
            rep.check('R05.b', "%s::operator ':'" % ROUTE, ok, "':' has the flags of ''" if ok else "':' and '' disagree", route)
            continue
        if op_ not in opt:
            continue
        try:
            rx = seg.format(name='x', sep='/', pattern='[^/]+', arity=op_)
            lo, hi, greedy = regexq.group_quantifier(rx, 'x')
        except (AnalysisError, KeyError, IndexError, ValueError) as e:
            rep.fail('R05.b', "%s::operator %r" % (ROUTE, op_), 'segment template with operator %r: %s' % (op_, e), route)
            continue
        ok = (opt[op_] == (lo == 0)) and (arity[op_] == (hi > 1)) and greedy in ('greedy', 'none')
        rep.check('R05.b', "%s::operator %r" % (ROUTE, op_), ok,
                  'operator %r: quantifier {%s,%s}, optional=%s, multi=%s agree' % (op_, lo, 'inf' if hi == regexq.MAXREPEAT else hi, opt[op_], arity[op_]) if ok else
                  'operator %r becomes quantifier {%s,%s} but the tables say optional=%s multi=%s' % (op_, lo, hi, opt[op_], arity[op_]), route)
    # flags reach build_converter under the right keywords
    bc_params = route.func('build_converter').params()
    pos_of = lambda n: bc_params.index(n) if n in bc_params else None
    bc = R.bc
    flag = lambda n: R.table_of(argn(bc, n, pos_of(n))) if bc is not None and argn(bc, n, pos_of(n)) is not None else (None, None)
    ok = bc is not None and flag('multi') == ('_OP_ARITY_MAP', opvar) and flag('optional') == ('_OP_OPTIONALITY_MAP', opvar)
    rep.check('R05.b', fkey(cp, 'flags to build_converter'), ok, 'multi <- arity table, optional <- optionality table' if ok else
              'build_converter receives the flags crossed or from the wrong table', route, bc if bc is not None else cp.node)
    conv_arg = argn(bc, bc_params[0] if bc_params else 'converter', 0) if bc is not None else None
    pt, pk = R.table_of(R.kw['pattern']) if R.kw.get('pattern') is not None else (None, None)
    ct, ck = R.table_of(conv_arg) if conv_arg is not None else (None, None)
    ok = pt == 'TYPE_PATT_MAP' and ct == 'TYPE_CONV_MAP' and pk == ck and pk is not None
    rep.check('R05.b', fkey(cp, 'type tables used'), bool(ok), 'pattern <- TYPE_PATT_MAP[type], converter <- TYPE_CONV_MAP[type]' if ok else
              'the segment pattern / converter do not come from the type tables (under the same type name)', route, R.fc)
    rep.floor('R05.b', 9)


# ---- R05.c ------------------------------------------------------------------------------------------

def _rule_c(rep, R):
    repo = rep.repo
    route, cp = R.route, R.cp
    VCM, pvar = R.vcm, R.pvar
    rz = [r for r in raises_of(cp) if raise_type(r) == 'InvalidPattern']
    found = {}
    families = {'unknown type': TYPE_TABLES, 'unknown operator': OP_TABLES}

    def membership(t, tables):
        """('in' | 'notin', key text) for ``key in TABLE`` / ``key not in TABLE`` over one of the tables"""
        if isinstance(t, ast.Compare) and len(t.ops) == 1 and isinstance(t.ops[0], (ast.In, ast.NotIn)) and norm(t.comparators[0]) in tables:
            return ('in' if isinstance(t.ops[0], ast.In) else 'notin'), norm(t.left)
        return None, None

    def absent_fact(t, pol, tables):
        """key text when (t, pol) says "key is missing from a table of the family"; a disjunction of such facts about ONE key
        (``k not in T1 or k not in T2``, or ``not (k in T1 and k in T2)``) says the key is missing from one of them -- the
        sister tables have the same keys (R05.a registration / R05.b), so it is the same rejection written per table"""
        while isinstance(t, ast.UnaryOp) and isinstance(t.op, ast.Not):
            t, pol = t.operand, not pol
        k, key = membership(t, tables)
        if (k == 'notin' and pol is True) or (k == 'in' and pol is False):
            return key
        if isinstance(t, ast.BoolOp) and ((isinstance(t.op, ast.Or) and pol is True) or (isinstance(t.op, ast.And) and pol is False)):
            keys = [absent_fact(v, pol, tables) for v in t.values]
            if keys and None not in keys and len(set(keys)) == 1:
                return keys[0]
        return None

    def absent_from(cs, tables):
        for t, pol in cs:
            key = absent_fact(t, pol, tables)
            if key is not None:
                return key
        return None

    def present_in(cs, tables):
        return [membership(t, tables)[1] for t, pol in cs if (membership(t, tables)[0] == 'in' and pol is True) or
                (membership(t, tables)[0] == 'notin' and pol is False)]

    def rejecting_handler(node):
        """the KeyError handler protecting ``node`` when every path through it raises InvalidPattern"""
        h = protected_by(cp, node, 'KeyError')
        if h is None or not handler_reraises_always(cp, h):
            return None
        rs = [x for x in ast.walk(h) if isinstance(x, ast.Raise)]
        return h if rs and all(raise_type(x) == 'InvalidPattern' for x in rs) else None
    rejected_soft = set()
    in_loop = set(id(x) for x in ast.walk(R.loop)) if R.loop is not None else set()
    loopvar = R.loop.target.id if isinstance(R.loop, ast.For) and isinstance(R.loop.target, ast.Name) else None

    def only_these(cs, var):
        """inside the loop the raise stands under nothing but "the looked-up value is None" (and the part being a binding)"""
        for t, pol in cs:
            if id(t) not in in_loop or isinstance(t, ast.BoolOp) or implies_absent([(t, pol)], var):
                continue
            if loopvar is not None and implies_present([(lambda f: (_inline(cp, f[0], stable=(loopvar,)), f[1]))(_opt_fact(cp, t, pol))],
                                                       'BINDING.match(%s)' % loopvar):
                continue
            if any((norm(t), not pol) in [(norm(t2), p2) for t2, p2 in conds(cp, r2)] for r2 in rz):
                continue        # what is left over from another rejection: that one raises under the opposite fact
            return False
        return True
    none_default = lambda node: R.soft.get(id(node)) is None or (isinstance(R.soft[id(node)], ast.Constant) and R.soft[id(node)].value is None)
    for r in rz:
        cs = conds(cp, r)
        tries = [(t, part) for t, part in enclosing_tries(route, r, cp.node)]
        in_handler = [h for t, part in tries if part == 'handler' for h in t.handlers if r in list(ast.walk(h))]
        if has_cond(cs, lambda t: norm(t) == "%s.startswith('/')" % pvar, False) or \
                has_cond(cs, lambda t: norm(t) in ("%s[:1] != '/'" % pvar, "%s[0:1] != '/'" % pvar), True) or \
                has_cond(cs, lambda t: norm(t) in ("%s[:1] == '/'" % pvar, "%s[0:1] == '/'" % pvar), False):
            found['leading slash'] = r
        elif has_cond(cs, lambda t: norm(t) == "'//' in %s" % pvar, True) or has_cond(cs, lambda t: norm(t) == "'//' not in %s" % pvar, False):
            found["'//'"] = r
        elif has_cond(cs, lambda t: isinstance(t, ast.Compare) and len(t.ops) == 1 and isinstance(t.ops[0], ast.In) and norm(t.comparators[0]) == VCM, True) or \
                has_cond(cs, lambda t: isinstance(t, ast.Compare) and len(t.ops) == 1 and isinstance(t.ops[0], ast.NotIn) and norm(t.comparators[0]) == VCM, False):
            found['duplicate binding'] = r
        elif in_handler and in_handler[0].type is not None and 'KeyError' in norm(in_handler[0].type):
            tr = [t for t, part in tries if part == 'handler'][0]
            body = ' '.join(norm(b) for b in tr.body)
            if 'TYPE_CONV_MAP[' in body or 'TYPE_PATT_MAP[' in body:
                found['unknown type'] = r
            elif '_OP_ARITY_MAP[' in body or '_OP_OPTIONALITY_MAP[' in body:
                found['unknown operator'] = r
        else:
            # membership guard:  if key not in TABLE: raise InvalidPattern(...)
            for label, tables in sorted(families.items()):
                if absent_from(cs, tables) is not None:
                    found[label] = r
                # ... or the result of ``TABLE.get(key)`` found to be None:  v = TABLE.get(key); if v is None: raise InvalidPattern(...)
                for tab in tables:
                    for node, key, var in R.lookups.get(tab, []):
                        if id(node) in R.soft and none_default(node) and var is not None and _stores(cp.node, var) == 1 and implies_absent(cs, var) and \
                                only_these(cs, var):
                            found[label] = r
                            rejected_soft.add(id(node))
    for label in ('leading slash', "'//'", 'duplicate binding', 'unknown type', 'unknown operator'):
        rep.check('R05.c', fkey(cp, 'rejects: ' + label), label in found, 'InvalidPattern is raised for: %s' % label if label in found else
                  'no guarded "raise InvalidPattern" for: %s' % label, route, found.get(label, cp.node))
    # the two tests of the pattern as a whole reject for every pattern and mode: they stand under no other condition
    def whole_pattern_fact(t):
        tx = norm(t)
        return tx in ("%s.startswith('/')" % pvar, "'//' in %s" % pvar, "'//' not in %s" % pvar) or \
            tx in ("%s[:1] != '/'" % pvar, "%s[0:1] != '/'" % pvar, "%s[:1] == '/'" % pvar, "%s[0:1] == '/'" % pvar)
    for label in ('leading slash', "'//'"):
        if label in found:
            extra = [(t, pol) for t, pol in conds(cp, found[label]) if not isinstance(t, ast.BoolOp) and not whole_pattern_fact(t)]
            rep.check('R05.c', fkey(cp, 'rejects unconditionally: ' + label), not extra, 'the test applies to every pattern in every mode' if not extra else
                      'the rejection (%s) is only made when also %s' % (label, ', '.join(cond_texts(extra))), route, found[label])
    # every table lookup can only fail as InvalidPattern: it runs under a KeyError handler that always raises InvalidPattern, or after a
    # membership test of the same key, or after such a lookup of the same key in the sister table (both tables have the same keys:
    # R05.a registration / R05.b operator tables keys)
    ccfg = R.cfg
    start = ccfg.nodes_of(R.loop) if R.loop is not None and ccfg.nodes_of(R.loop) else ccfg.entry
    for label, tables in sorted(families.items()):
        looks = [(node, key) for tab in tables for node, key, var in R.lookups.get(tab, [])]
        # (a ``.get`` never raises KeyError: it is safe after a membership test, or when its None result is rejected)
        safe = [(node, key) for node, key in looks if (id(node) not in R.soft and rejecting_handler(node) is not None) or
                key in present_in(conds(cp, node), tables) or id(node) in rejected_soft]
        todo = [x for x in looks if x not in safe]
        progress = True
        while todo and progress:
            progress = False
            for node, key in list(todo):
                cover = [n for other, k2 in safe if k2 == key for n in ccfg.nodes_of(stmt_of(route, other)) if stmt_of(route, other) is not stmt_of(route, node)]
                if cover and ccfg.must_pass(cover, start, ccfg.nodes_of(stmt_of(route, node)), normal_only=True):
                    safe.append((node, key))
                    todo.remove((node, key))
                    progress = True
        ok = bool(looks) and not todo
        rep.check('R05.c', fkey(cp, 'lookups guarded: ' + label), ok, 'every lookup in %s fails as InvalidPattern' % ' / '.join(tables) if ok else
                  'a lookup in %s %s: %s' %
                  (' / '.join(tables), 'with a default accepts an unknown key silently' if todo and id(todo[0][0]) in R.soft else
                   'can raise a bare KeyError (not under the rejecting handler / membership test)',
                   short(stmt_of(route, todo[0][0]), 60) if todo else 'no lookup found'), route, todo[0][0] if todo else cp.node)
    dup_store = _item_stores(cp, VCM)
    ok = len(dup_store) == 1 and 'duplicate binding' in found
    rep.check('R05.c', fkey(cp, 'bindings recorded'), ok, 'every binding is recorded, so a second use of the name is seen' if ok else
              'bindings are not recorded in var_converter_map', route, cp.node)
    ri = route.func('Route.__init__')
    rcfg = cfg_of(ri)
    cc = [stmt_of(route, c) for c in walk_body(ri.node) if isinstance(c, ast.Call) and call_name(c) == '_compile_path_pattern'
          and c.args and len(ri.params()) > 1 and norm(c.args[0]) == ri.params()[1]]
    pst = [s for s in stmts_of(ri.node) if isinstance(s, ast.Assign) and norm(s.targets[0]) == 'self.pattern']
    def swallowed(st):
        """a handler around the compile call that catches InvalidPattern (by that name or as one of its bases) and does not always re-raise"""
        from ..astutil import exc_names
        for tr, part in enclosing_tries(route, st, ri.node):
            if part != 'body':
                continue
            for h in tr.handlers:
                names = exc_names(h.type)
                if names is None or set(n.rpartition('.')[2] for n in names) & {'InvalidPattern', 'ValueError', 'Exception', 'BaseException'}:
                    if not handler_reraises_always(ri, h):
                        return True
        return False
    ok = len(cc) == 1 and len(pst) == 1 and rcfg.must_pass(rcfg.nodes_of(cc[0]), rcfg.entry, rcfg.exit, normal_only=True) and \
        protected_by(ri, cc[0], 'ValueError') is None and not swallowed(cc[0])
    rep.check('R05.c', fkey(ri, 'pattern compiled at construction'), ok, 'Route.__init__ compiles (validates) the pattern on every normal path; InvalidPattern propagates' if ok else
              'Route.__init__ does not always validate the pattern (or swallows InvalidPattern)', route, cc[0] if cc else ri.node)
    k, m, ip = repo.resolve(route, 'InvalidPattern')
    ok = k == 'class' and repo.is_subclass(ip, 'ValueError')
    rep.check('R05.c', '%s::InvalidPattern' % ROUTE, ok, 'InvalidPattern is a ValueError' if ok else 'InvalidPattern is no longer a ValueError', route)
    rep.floor('R05.c', 12)


# ---- R05.d ------------------------------------------------------------------------------------------

def _rule_d_compiled(rep, R):
    """The expression handed to re.compile, per slash mode: '^' + sep.join(segments) + tail + '$'."""
    repo = rep.repo
    route, cp = R.route, R.cp
    try:
        strict_value = route.const('S_STRICT')
    except Exception as e:
        raise AnalysisError('cannot fold S_STRICT: %s' % e)
    paths = []   # (strict?, string value, plain compile?, environment at the segment loop)
    for strict in (True, False):
        rets = _SymExec(repo, cp, R.mode, strict_value, strict).returns()
        if not rets:
            raise AnalysisError('_compile_path_pattern: no returning path found%s' % (' in strict mode' if strict else ''))
        for val, env in rets:
            rx = val[1][0] if val[0] == 't' and len(val[1]) == 2 else None
            if rx is None or rx[0] != 're':
                raise AnalysisError('_compile_path_pattern: cannot follow the compiled regex to the return value (%s)' % _show(val))
            sv = rx[1]
            if sv[0] != 's':
                raise AnalysisError('_compile_path_pattern: cannot follow the expression given to re.compile (%s)' % _show(sv))
            unknown = [t[1] for t in sv[1] if t[0] == 'sym'] + [u[1] for t in sv[1] if t[0] == 'join' for u in t[1] if u[0] != 'lit']
            if unknown:
                raise AnalysisError('_compile_path_pattern: part of the compiled expression cannot be followed: %s in %s' % (unknown[0], _show(sv)))
            loop_env = None
            for lst, lenv in env.get('$loops', ()):
                if lst is R.loop:
                    loop_env = lenv
            paths.append((strict, sv, rx[2], loop_env))
    mode_txt = lambda s: 'strict mode' if s else 'non-strict modes'
    first = lambda bad: '%s: %s' % (mode_txt(bad[0][0]), _show(bad[0][1]))
    node = ([c for c in walk_body(cp.node) if isinstance(c, ast.Call) and norm(c.func) == 're.compile'] or [cp.node])[0]

    bad = [p for p in paths if not (p[2] and p[1][1] and p[1][1][-1][0] == 'lit' and p[1][1][-1][1].endswith('$') and not p[1][1][-1][1].endswith('\\$'))]
    rep.check('R05.d', fkey(cp, "ends with '$'"), not bad, "the compiled expression ends with '$'" if not bad else
              "re.compile is not given <expr> + '$' (trailing garbage after a match would be accepted): %s" % first(bad), route, node)
    bad = [p for p in paths if not (p[1][1] and p[1][1][0][0] == 'lit' and p[1][1][0][1].startswith('^'))]
    rep.check('R05.d', fkey(cp, "starts with '^'"), not bad, "the expression starts with '^'" if not bad else
              "the expression does not start with '^': %s" % first(bad), route, node)
    joins = lambda p: [t for t in p[1][1] if t[0] == 'join']
    bad = [p for p in paths if len(joins(p)) != 1]
    rep.check('R05.d', fkey(cp, 'segments joined by sep'), not bad, 'processed segments are joined with the mode\'s separator' if not bad else
              'processed segments are not joined (once) with sep: %s' % first(bad), route, node)

    def shape(p):
        """(prefix, suffix) literals around the single join, or None"""
        toks = list(p[1][1])
        if len(joins(p)) != 1:
            return None
        i = [k for k, t in enumerate(toks) if t[0] == 'join'][0]
        pre, suf = toks[:i], toks[i + 1:]
        if len(pre) > 1 or len(suf) > 1:
            return None
        return (pre[0][1] if pre else '', suf[0][1] if suf else '')
    bad = [p for p in paths if shape(p) != ('^', '$' if p[0] else '/*$')]
    rep.check('R05.d', fkey(cp, "trailing '/*'"), not bad, "outside strict mode trailing slashes are tolerated ('/*'), in strict mode nothing is added" if not bad else
              "the trailing '/*' is not added exactly when mode != S_STRICT: %s" % first(bad), route, node)
    sep_of = lambda p: joins(p)[0][1] if len(joins(p)) == 1 else None
    bad = [p for p in paths if sep_of(p) != (('lit', '/' if p[0] else '/+'),)]
    rep.check('R05.d', fkey(cp, 'separators'), not bad, "separator is '/+' (repeated slashes tolerated) and exactly '/' in strict mode" if not bad else
              'separator per mode changed: %s' % first(bad), route, node)
    # the separator inside every binding segment is the one the segments are joined with
    sepk = R.kw.get('sep')
    if sepk is None or R.loop is None:
        rep.fail('R05.d', fkey(cp, 'segment separator'), 'binding segments are not built with a separator inside the segment loop', route, R.fc)
    else:
        bad = []
        for p in paths:
            if p[3] is None:
                raise AnalysisError('_compile_path_pattern: the segment loop is not on every returning path')
            ex = _SymExec(repo, cp, R.mode, strict_value, p[0])
            v = ex.ev(sepk, p[3])
            if not (v[0] == 's' and v[1] == sep_of(p)):
                bad.append((p[0], v))
        rep.check('R05.d', fkey(cp, 'segment separator'), not bad, 'bindings use the same separator' if not bad else
                  'binding segments use another separator than the one the segments are joined with: %s' % first(bad), route, R.fc)


def _rule_d_matching(rep):
    route = rep.repo.mod(ROUTE)
    mp = route.func('BoundRoute.match_path')
    check_match_path_no_raise(rep, 'R05.d')
    from .c07 import check_bound_regex
    check_bound_regex(rep, 'R05.d')
    m_st = [s for s in stmts_of(mp.node) if isinstance(s, ast.Assign) and isinstance(s.value, ast.Call) and norm(s.value.func) == 'self.regex.match'
            and len(s.targets) == 1 and isinstance(s.targets[0], ast.Name)]
    in_handler = set(id(x) for n in ast.walk(mp.node) if isinstance(n, ast.ExceptHandler) for x in ast.walk(n))
    ok = len(m_st) == 1 and _stores(mp.node, m_st[0].targets[0].id) == 1 and \
        any(isinstance(r.value, ast.Constant) and r.value.value is None and id(r) not in in_handler and
            implies_absent(conds(mp, r), norm(m_st[0].targets[0])) for r in returns_of(mp) if r.value is not None)
    rep.check('R05.d', fkey(mp, 'no match => None'), ok, 'a failed regex match returns None' if ok else 'match_path does not return None for a failed match', route, mp.node)
    if len(m_st) == 1:
        # ... before the match object is looked into: its groups are read only where it is known to be a match
        mvar = m_st[0].targets[0].id
        reads = [n for n in walk_body(mp.node) if isinstance(n, (ast.Attribute, ast.Subscript)) and isinstance(n.ctx, ast.Load) and
                 isinstance(n.value, ast.Name) and n.value.id == mvar]
        bad = [n for n in reads if not implies_present(conds(mp, n), mvar)]
        ok = bool(reads) and not bad
        rep.check('R05.d', fkey(mp, 'groups read from a match'), ok, 'the groups are read only after the match was found to be one' if ok else
                  'match_path looks into the result of regex.match where it may be None (%s): a path that does not match raises AttributeError / '
                  'TypeError instead of returning None' % (short(stmt_of(route, bad[0]), 50) if bad else 'no read of the match found'), route, bad[0] if bad else mp.node)
    ok = m_st and len(mp.params()) > 1 and len(m_st[0].value.args) == 1 and norm(m_st[0].value.args[0]) == mp.params()[1] and not _stores(mp.node, mp.params()[1])
    rep.check('R05.d', fkey(mp, 'matches the path'), bool(ok), 'the compiled regex is matched against the given path' if ok else 'regex.match is not applied to the path', route, mp.node)


# ---- R05.e ------------------------------------------------------------------------------------------

def _optional_empty(fi, ret, v, opt='optional', flag=None):
    """The return is taken exactly under the facts "optional" and "value is empty" (in either order / nesting); ``flag``:
    text of the arity test that selects the branch of the function the return belongs to (not one of the two facts)."""
    cs = [(t, pol) for t, pol in conds(fi, ret) if flag is None or norm(t) != flag]
    if not (has_cond(cs, lambda t: norm(t) == opt, True) and implies_absent(cs, v)):
        return False
    # ... and under nothing else: every other condition on the path is a conjunction these two facts were split from
    for t, pol in cs:
        if isinstance(t, ast.BoolOp) and ((isinstance(t.op, ast.And) and pol is True) or (isinstance(t.op, ast.Or) and pol is False)):
            continue
        if (norm(t) == opt and pol is True) or implies_absent([(t, pol)], v):
            continue
        return False
    return True


def _list_of_conversions(fi, outer, ret, v, conv):
    """Is the returned value  [conv(x) for x in v.split('/')[1:]]  -- as a comprehension, list(map(conv, ...)) or an
    explicit ``out = []; for x in ...: out.append(conv(x)); return out`` loop?"""
    want_iter = "%s.split('/')[1:]" % v
    val = ret.value
    if isinstance(val, ast.Name):
        L = val.id
        d = _single_def(fi, L)
        empty = d is not None and ((isinstance(d, ast.List) and not d.elts) or (isinstance(d, ast.Call) and norm(d) == 'list()'))
        uses = [n for n in walk_body(fi.node) if isinstance(n, ast.Name) and n.id == L and isinstance(n.ctx, ast.Load)]
        appends = [s for s in stmts_of(fi.node) if isinstance(s, ast.Expr) and isinstance(s.value, ast.Call) and norm(s.value.func) == '%s.append' % L
                   and len(s.value.args) == 1 and not s.value.keywords]
        if not empty or len(appends) != 1 or len(uses) != 2:
            return False
        loop = fi.mod.parents.get(appends[0])
        body = fi.node.body
        holder = fi.mod.parents.get(ret)      # the statement list the return stands in (the function's, or one arm of the arity test)
        for fld in ('body', 'orelse'):
            if holder is not fi.node and isinstance(getattr(holder, fld, None), list) and ret in getattr(holder, fld):
                body = getattr(holder, fld)
        init = [st for st in body if isinstance(st, (ast.Assign, ast.AnnAssign)) and L in names_stored(st)]
        if len(init) != 1 or loop not in body or body.index(init[0]) > body.index(loop):
            return False        # the accumulator is created once, before the loop, at the top level of the converter
        if not (isinstance(loop, ast.For) and loop in body and not loop.orelse and isinstance(loop.target, ast.Name) and
                all(isinstance(s, (ast.Assign, ast.Expr)) for s in loop.body) and ret in body and body.index(loop) < body.index(ret)):
            return False
        if any(isinstance(s, ast.Expr) and s is not appends[0] for s in loop.body):
            return False
        x = loop.target.id
        if _stores(fi.node, x) != 1:
            return False
        item = _inline(fi, appends[0].value.args[0], stable=(x,), outer=outer)
        it = _inline(fi, loop.iter, outer=outer)
        return norm(item) == '%s(%s)' % (conv, x) and norm(it) == want_iter
    val = _inline(fi, val, outer=outer)
    if isinstance(val, ast.ListComp):
        g = val.generators
        return len(g) == 1 and not g[0].ifs and not g[0].is_async and isinstance(g[0].target, ast.Name) and \
            norm(g[0].iter) == want_iter and norm(val.elt) == '%s(%s)' % (conv, g[0].target.id)
    return norm(val) == 'list(map(%s, %s))' % (conv, want_iter)


class _ConvModel(object):
    """What build_converter returns, reduced to its roles: the function run for a multi binding (``mf``) and the one run
    for a single binding (``sf``), how each of them spells the converter (``conv(f)``), the optional flag (``opt(f)``)
    and the captured text (``val(f)``), and whether the choice between them is made on ``multi`` (``selection``)."""
    outer = None


def _closure_model(route, bcv, bp):
    """Two nested functions closing over build_converter's parameters, one returned under ``multi``, the other otherwise."""
    conv = bp[0]
    inner = dict((f.name, f) for q, f in route.functions.items() if q.startswith(bcv.qualname + '.') and q.count('.') == bcv.qualname.count('.') + 1)
    rets = returns_of(bcv)
    if len(rets) != 2 or not all(r.value is not None and norm(r.value) in inner for r in rets) or len(set(norm(r.value) for r in rets)) != 2:
        return None
    M = _ConvModel()
    M.form, M.outer, M.flag = 'two closures', bcv, None
    stable_outer = all(_stores(bcv.node, n) == 0 for n in (conv, 'optional', 'multi'))
    multi_ret = [r for r in rets if has_cond(conds(bcv, r), lambda t: norm(t) == 'multi', True)]
    single_ret = [r for r in rets if r not in multi_ret]
    M.selection = stable_outer and len(multi_ret) == 1 and len(single_ret) == 1 and all(_stores(bcv.node, norm(r.value)) == 1 for r in rets)
    M.why = 'build_converter does not select between a multi and a single converter on "multi"'
    if M.selection:
        M.mf, M.sf = inner[norm(multi_ret[0].value)], inner[norm(single_ret[0].value)]
        for f in (M.mf, M.sf):
            if len(f.params()) != 1 or f.node.args.vararg or f.node.args.kwarg:
                raise AnalysisError('%s: expected a one-argument converter' % f.qualname)
    M.conv = lambda f: conv
    M.opt = lambda f: 'optional'
    M.val = lambda f: f.params()[0]
    M.frozen = lambda f: (conv, 'optional', f.params()[0])
    return M


_CLASS_HOOKS = ('__getattr__', '__getattribute__', '__setattr__', '__delattr__', '__new__', '__init_subclass__', '__slots__')


def _class_model(repo, route, bcv, bp):
    """``return K(converter, optional, multi)`` -- K a plain class of the module whose instances are called with the captured
    text: __init__ stores the converter and the optional flag once, unconditionally, in instance attributes nothing else
    writes; the function that runs is chosen on ``multi`` -- once, in __init__ (an instance attribute bound to one of two
    methods), or at every call on an attribute holding ``multi``."""
    conv = bp[0]
    rets = returns_of(bcv)
    if len(rets) != 1 or rets[0].value is None:
        return None
    call = _inline(bcv, rets[0].value)
    if not (isinstance(call, ast.Call) and isinstance(call.func, ast.Name)) or call.func.id in _all_params(bcv) or _stores(bcv.node, call.func.id):
        return None
    kind, kmod, K = repo.resolve(route, call.func.id)
    if kind != 'class' or K.mod.external:
        return None
    home, route = route, K.mod      # the class is read in the module it is defined in (build_converter's own, or one it is imported from)
    what = 'build_converter returns an instance of %s' % K.name
    if any(norm(b) != 'object' for b in K.node.bases) or K.node.keywords or K.node.decorator_list:
        raise AnalysisError('%s, a class with bases / a metaclass / decorators: its attribute lookup is not followed' % what)
    hooks = [h for h in _CLASS_HOOKS if h in K.methods or h in K.class_attrs]
    if hooks:
        raise AnalysisError('%s, which defines %s: its attribute lookup is not followed' % (what, hooks[0]))
    init, callm = K.methods.get('__init__'), K.methods.get('__call__')
    if init is None or callm is None:
        raise AnalysisError('%s, which lacks __init__ / __call__' % what)
    for f in K.methods.values():
        if f.node.decorator_list or not f.params() or f.node.args.vararg or f.node.args.kwarg:
            raise AnalysisError('%s: method %s is decorated / takes * or **: not followed' % (what, f.qualname))
    if any(isinstance(n, ast.Call) and isinstance(n.func, ast.Name) and n.func.id in ('setattr', 'delattr', 'vars') for n in ast.walk(K.node)) or \
            any(isinstance(n, ast.Attribute) and n.attr == '__dict__' for n in ast.walk(K.node)):
        raise AnalysisError('%s, whose attributes are written reflectively' % what)
    M = _ConvModel()
    M.form, M.cls = 'callable class %s' % K.name, K
    M.selection, M.why = False, ''
    # -- what the constructor receives
    if any(isinstance(a, ast.Starred) for a in call.args) or any(k.arg is None for k in call.keywords):
        raise AnalysisError('%s built with * / ** arguments' % what)
    ips = init.params()[1:]
    got = dict(zip(ips, call.args))
    if len(call.args) > len(ips) or any(k.arg in got or k.arg not in ips for k in call.keywords):
        raise AnalysisError('%s: the constructor call does not fit %s' % (what, init.qualname))
    got.update((k.arg, k.value) for k in call.keywords)
    stable_outer = all(_stores(bcv.node, n) == 0 for n in (conv, 'optional', 'multi'))
    role = {}
    for r in (conv, 'optional', 'multi'):
        ps = [p_ for p_, v in got.items() if isinstance(v, ast.Name) and v.id == r]
        if len(ps) == 1 and _stores(init.node, ps[0]) == 0:
            role[r] = ps[0]
    if len(role) != 3 or not stable_outer:
        M.why = 'build_converter does not hand %s to %s (each exactly once, unchanged)' % (
            ' / '.join(r for r in (conv, 'optional', 'multi') if r not in role) or 'its parameters', K.name)
        return M
    # -- instance attributes: [(attribute, method, store node)]
    writes = []
    for f in K.methods.values():
        me = f.params()[0]
        for n in ast.walk(f.node):
            if isinstance(n, ast.Attribute) and isinstance(n.ctx, (ast.Store, ast.Del)):
                writes.append((n.attr, f, n, isinstance(n.value, ast.Name) and n.value.id == me))
    # writes of attributes elsewhere in the module: a method of another class writing through its own ``self`` cannot reach
    # an instance of K; any other write of an attribute of the same name (through an alias, from a function) is not followed
    outside = []
    for m_, n in [(m_, n) for m_ in ([route] if home is route else [route, home]) for n in ast.walk(m_.tree)]:
        if isinstance(n, ast.Attribute) and isinstance(n.ctx, (ast.Store, ast.Del)) and not any(n is w[2] for w in writes):
            fn = m_.enclosing_function(n)
            fi_ = m_.func_of_node(fn) if fn is not None and not isinstance(fn, ast.Lambda) else None
            if fi_ is not None and fi_.cls is not None and fi_.cls is not K and fi_.params() and isinstance(n.value, ast.Name) and \
                    n.value.id == fi_.params()[0] and not _stores(fi_.node, n.value.id):
                continue
            outside.append(n)

    def not_aliased(attr):
        if any(n.attr == attr for n in outside) or any(w[0] == attr and not w[3] for w in writes):
            raise AnalysisError('%s: attribute %s is also written through another name than self: not followed' % (what, attr))
    ime = init.params()[0]
    if _stores(init.node, ime) or any(isinstance(n, ast.Return) for n in walk_body(init.node)):
        raise AnalysisError('%s.__init__ re-binds self / returns early: not followed' % K.name)

    def field(param):
        """the instance attribute that holds a constructor parameter: stored once in the whole class, by a top-level
        statement of __init__, never written anywhere else in the module, not shadowed by a method of that name"""
        cands = []
        for st in init.node.body:
            if isinstance(st, ast.Assign) and len(st.targets) == 1 and isinstance(st.targets[0], ast.Attribute) and \
                    isinstance(st.targets[0].value, ast.Name) and st.targets[0].value.id == ime and isinstance(st.value, ast.Name) and st.value.id == param:
                cands.append(st.targets[0].attr)
        for a in cands:
            not_aliased(a)
        cands = [a for a in cands if sum(1 for w in writes if w[0] == a) == 1 and a not in K.methods]
        return cands[0] if cands else None
    M.conv_attr, M.opt_attr = field(role[conv]), field(role['optional'])
    if M.conv_attr is None or M.opt_attr is None:
        M.why = '%s does not keep the %s it was built with in an attribute written once' % (K.name, 'converter' if M.conv_attr is None else 'optional flag')
        return M
    # -- the function that runs
    cps = callm.params()
    if len(cps) != 2:
        raise AnalysisError('%s: expected (self, value)' % callm.qualname)
    cme, cv = cps
    crets = returns_of(callm)
    M.why = '%s.__call__ does not hand the captured text, unchanged, to the converter chosen on "multi"' % K.name

    def applied(e):
        """name of the attribute A when ``e`` is  self.A(value)"""
        e = _inline(callm, e) if e is not None else None
        if isinstance(e, ast.Call) and isinstance(e.func, ast.Attribute) and isinstance(e.func.value, ast.Name) and e.func.value.id == cme and \
                len(e.args) == 1 and not e.keywords and isinstance(e.args[0], ast.Name) and e.args[0].id == cv:
            return e.func.attr
        return None
    if _stores(callm.node, cv) or _stores(callm.node, cme) or any(isinstance(s_, ast.Try) for s_ in stmts_of(callm.node)):
        return M
    M.flag = None
    M.conv = lambda f: '%s.%s' % (f.params()[0], M.conv_attr)
    M.opt = lambda f: '%s.%s' % (f.params()[0], M.opt_attr)
    M.val = lambda f: f.params()[1]
    M.frozen = lambda f: tuple(f.params())
    chosen = None       # (multi method name, single method name)
    if len(crets) == 1 and applied(crets[0].value) is not None and not conds(callm, crets[0]):
        # the choice is made once, in __init__: an instance attribute bound to one of two methods
        S = applied(crets[0].value)
        ws = [w for w in writes if w[0] == S]
        not_aliased(S)
        if S in K.methods or len(ws) != 2 or any(w[1] is not init for w in ws):
            return M
        picks = {}
        for a, f, n, own in ws:
            st = stmt_of(route, n)
            cs = conds(init, st)
            v = st.value if isinstance(st, ast.Assign) and len(st.targets) == 1 and st.targets[0] is n else None
            if not (isinstance(v, ast.Attribute) and isinstance(v.value, ast.Name) and v.value.id == ime and len(cs) == 1 and norm(cs[0][0]) == role['multi']):
                return M
            picks[cs[0][1]] = v.attr
        if set(picks) != {True, False}:
            return M
        icfg = cfg_of(init)
        if not icfg.must_pass(icfg.nodes_of_all([stmt_of(route, w[2]) for w in ws]), icfg.entry, icfg.exit, normal_only=True):
            return M
        chosen = (picks[True], picks[False])
    else:
        # the choice is made at every call, on an attribute that holds ``multi``: every return stands under that test
        mattr = field(role['multi'])
        if mattr is None or not crets:
            return M
        flag = '%s.%s' % (cme, mattr)
        side = lambda r: [p_ for t, p_ in conds(callm, r) if norm(t) == flag]
        ccfg = cfg_of(callm)
        if any(len(side(r)) != 1 for r in crets) or set(side(r)[0] for r in crets) != {True, False} or \
                not ccfg.must_pass(ccfg.nodes_of_all(crets), ccfg.entry, ccfg.exit, normal_only=True):
            return M
        if len(crets) == 2 and all(applied(r.value) is not None and len(conds(callm, r)) == 1 for r in crets):
            on = [r for r in crets if side(r)[0]]
            off = [r for r in crets if not side(r)[0]]
            chosen = (applied(on[0].value), applied(off[0].value))
        else:
            # ... and the two converters are written out in the arms of the test
            M.flag, M.mf, M.sf, M.selection = flag, callm, callm, True
            return M
    for c in chosen or ():
        not_aliased(c)
    if chosen is None or chosen[0] == chosen[1] or any(c not in K.methods or any(w[0] == c for w in writes) for c in chosen):
        return M
    M.mf, M.sf = K.methods[chosen[0]], K.methods[chosen[1]]
    for f in (M.mf, M.sf):
        if len(f.params()) != 2:
            raise AnalysisError('%s: expected (self, value)' % f.qualname)
    M.selection = True
    return M


def _rule_e_converters(rep):
    repo = rep.repo
    bcv = repo.mod(ROUTE).func('build_converter')
    route = bcv.mod        # the module the definition lives in (route.py, or a module of the package route.py imports it back from)
    bp = bcv.params()
    if not bp or 'multi' not in bp or 'optional' not in bp:
        raise AnalysisError('build_converter: expected (converter, optional, multi)')
    M = _closure_model(route, bcv, bp) or _class_model(repo, route, bcv, bp)
    if M is None:
        raise AnalysisError('build_converter: expected two nested converter functions, one of which is returned, or an instance of a callable '
                            'class of the module (found: %s)' % ', '.join(short(r, 40) for r in returns_of(bcv)))
    ok = bool(M.selection)
    rep.check('R05.e', fkey(bcv, 'selection'), ok, 'multi selects the list converter, otherwise the single converter (%s)' % M.form if ok else
              M.why or 'build_converter does not select between a multi and a single converter on "multi"', route, bcv.node)
    if not ok:
        return
    mf, sf = M.mf, M.sf
    local_ok = lambda f: all(_stores(f.node, n) == 0 for n in M.frozen(f)) and not any(isinstance(s, ast.Try) for s in stmts_of(f.node))

    def arm(f, multi):
        """the returns of the converter for that arity: all of the function's, or those in the arm of the arity test"""
        if M.flag is None:
            return returns_of(f)
        return [r for r in returns_of(f) if has_cond(conds(f, r), lambda t: norm(t) == M.flag, multi)]
    v, conv, opt = M.val(mf), M.conv(mf), M.opt(mf)
    empties = [r for r in arm(mf, True) if isinstance(r.value, ast.List) and not r.value.elts]
    ok1 = local_ok(mf) and len(empties) == 1 and _optional_empty(mf, empties[0], v, opt, M.flag)
    convr = [r for r in arm(mf, True) if r not in empties]
    ok2 = local_ok(mf) and len(convr) == 1 and convr[0].value is not None and _list_of_conversions(mf, M.outer, convr[0], v, conv)
    tag = (lambda what, arity: what) if mf is not sf else (lambda what, arity: '%s (%s arm)' % (what, arity))
    rep.check('R05.e', fkey(mf, tag('optional empty', 'multi')), ok1, "an absent optional multi binding yields [] before any conversion" if ok1 else
              'the multi converter does not return [] for an empty optional value', mf.mod, mf.node)
    rep.check('R05.e', fkey(mf, tag('list of conversions', 'multi')), ok2, "a multi binding yields [converter(v) for v in value.split('/')[1:]]" if ok2 else
              "the multi converter is not [converter(v) for v in value.split('/')[1:]]", mf.mod, mf.node)
    v, conv, opt = M.val(sf), M.conv(sf), M.opt(sf)
    nones = [r for r in arm(sf, False) if r.value is None or (isinstance(r.value, ast.Constant) and r.value.value is None)]
    ok1 = local_ok(sf) and len(nones) == 1 and _optional_empty(sf, nones[0], v, opt, M.flag)
    convr = [r for r in arm(sf, False) if r not in nones]
    ok2 = local_ok(sf) and len(convr) == 1 and norm(_inline(sf, convr[0].value, outer=M.outer)) in (
        "%s(%s.replace('/', ''))" % (conv, v), "%s(%s.lstrip('/'))" % (conv, v), "%s(%s.strip('/'))" % (conv, v))
    rep.check('R05.e', fkey(sf, tag('optional empty', 'single')), ok1, 'an absent optional single binding yields None before any conversion' if ok1 else
              'the single converter does not return None for an empty optional value', sf.mod, sf.node)
    rep.check('R05.e', fkey(sf, tag('conversion', 'single')), ok2, 'a single binding is converted from its segment without the separator' if ok2 else
              'the single converter does not strip the separator before converting', sf.mod, sf.node)


def _group_of(R, e, depth=0):
    """'name' / 'op' / 'type' ... when expression ``e`` reads that named group of ``BINDING.match(<loop variable>)``:
    m.group('x'), m['x'], m.groupdict()['x'], d['x'] with d = m.groupdict()."""
    cp = R.cp
    loopvar = R.loop.target.id if isinstance(R.loop, ast.For) and isinstance(R.loop.target, ast.Name) else None

    def is_match(x, d=0):
        if isinstance(x, ast.Name) and d < 4:
            v = _single_def(cp, x.id)
            return v is not None and is_match(v, d + 1)
        return isinstance(x, ast.Call) and norm(x.func) == 'BINDING.match' and len(x.args) == 1 and not x.keywords and \
            (loopvar is None or norm(x.args[0]) == loopvar)

    def is_groupdict(x, d=0):
        if isinstance(x, ast.Name) and d < 4:
            v = _single_def(cp, x.id)
            return v is not None and is_groupdict(v, d + 1)
        return isinstance(x, ast.Call) and isinstance(x.func, ast.Attribute) and x.func.attr == 'groupdict' and not x.args and not x.keywords and \
            is_match(x.func.value)
    if isinstance(e, ast.Subscript) and isinstance(e.slice, ast.Constant) and isinstance(e.slice.value, str):
        if is_groupdict(e.value) or is_match(e.value):
            return e.slice.value
    if isinstance(e, ast.Call) and isinstance(e.func, ast.Attribute) and e.func.attr == 'group' and len(e.args) == 1 and not e.keywords and \
            isinstance(e.args[0], ast.Constant) and isinstance(e.args[0].value, str) and is_match(e.func.value):
        return e.args[0].value
    if isinstance(e, ast.Call) and isinstance(e.func, ast.Attribute) and e.func.attr == 'get' and len(e.args) == 1 and not e.keywords and \
            isinstance(e.args[0], ast.Constant) and isinstance(e.args[0].value, str) and is_groupdict(e.func.value):
        return e.args[0].value
    if isinstance(e, ast.Name) and depth < 4:
        v = _single_def(cp, e.id)
        if v is not None:
            return _group_of(R, v, depth + 1)
    return None


def _alias_lookup(repo, mod, fi, e, var):
    """The folded table D of ``D.get(var, var)`` (D a module-level constant), else None."""
    if isinstance(e, ast.Call) and isinstance(e.func, ast.Attribute) and e.func.attr == 'get' and len(e.args) == 2 and not e.keywords and \
            norm(e.args[0]) == var and norm(e.args[1]) == var and isinstance(e.func.value, ast.Name) and \
            e.func.value.id not in _all_params(fi) and not _stores(fi.node, e.func.value.id):
        d = repo.try_fold(e.func.value, mod, default=None)
        return d if isinstance(d, dict) else None
    return None


def _var_sources(R, var):
    """-> (sources, constants): non-constant values bound to the local (``x or 'd'`` counts as source x and
    default 'd'), and the string constants bound to it [(stmt, text, kind)]."""
    sources, consts = [], []
    var = _copy_root(R.cp, var)[0]         # a local bound once to a copy of another local holds whatever that one can hold
    for st, val in _defs(R.cp, var):
        if val is None:
            sources.append((st, None))
        elif isinstance(val, ast.Name) and val.id == var:
            continue                       # x = x (the else-arm of a normalised conditional expression)
        elif _alias_lookup(R.route.repo, R.route, R.cp, val, var) is not None:
            consts.append((st, None, 'alias'))
        elif isinstance(val, ast.Constant) and isinstance(val.value, str):
            consts.append((st, val.value, 'assign'))
        elif isinstance(val, ast.BoolOp) and isinstance(val.op, ast.Or) and len(val.values) == 2 and \
                isinstance(val.values[1], ast.Constant) and isinstance(val.values[1].value, str):
            if not (isinstance(val.values[0], ast.Name) and val.values[0].id == var):      # x = x or 'd': no new source
                sources.append((st, val.values[0]))
            consts.append((st, val.values[1].value, 'or'))
        else:
            sources.append((st, val))
    return sources, consts


def _rule_e_bindings(rep, R, convs, pats):
    repo = rep.repo
    route, cp = R.route, R.cp
    # default type: the type variable falls back to a registered string type when the binding names none
    T = R.typevar
    if T is None:
        raise AnalysisError('_compile_path_pattern: the variable holding the type name was not found (key of the TYPE_*_MAP lookups)')
    Troot, Tcopies = _copy_root(cp, T)
    srcs, consts = _var_sources(R, T)
    dflt = [c for c in consts if c[2] == 'or' or (c[2] == 'assign' and implies_absent(conds(cp, c[0]), Troot))]
    if convs is not None:
        ok = len(dflt) == 1 and len(consts) == 1 and dflt[0][1] in convs and convs[dflt[0][1]][1] == pats['_STR_PATTERN']
        if ok:
            # ... and it has fallen back when the tables are consulted (or when the copy that is consulted is taken): every path
            # there runs the defaulting statement or a test that found a type name
            ccfg = R.cfg
            through = ccfg.nodes_of(dflt[0][0])
            if dflt[0][2] == 'assign':
                through = through + [nid for nid, t, p in ccfg.branches() if implies_present([(t, p)], Troot)]
            users = [stmt_of(route, node) for tab in TYPE_TABLES for node, key, var in R.lookups.get(tab, [])] + Tcopies
            ok = all(ccfg.must_pass(through, ccfg.entry, ccfg.nodes_of(u)) for u in users if u is not dflt[0][0])
        rep.check('R05.e', fkey(cp, 'default type'), ok, 'a binding without a type is a string binding' if ok else 'the default binding type is not a registered string type '
                  '(or is not filled in before the type tables are consulted)', route, dflt[0][0] if dflt else cp.node)
    # BINDING grammar
    try:
        b = None
        bmod, bvals = route, route.assigns.get('BINDING', [])
        if not bvals and 'BINDING' in route.imports:
            # the table moved to another module of the package and is imported back under its name: read where it is defined
            k, m, vals = repo.resolve(route, 'BINDING')
            if k == 'value' and m is not None and not m.external:
                bmod, bvals = m, vals
        for v in bvals:
            if isinstance(v, ast.Call) and norm(v.func) == 're.compile' and bmod.imports.get('re') == ('re', None) and len(v.args) == 1 and not v.keywords:
                b = repo.fold(v.args[0], bmod)
        gd = regexq.parse(b).state.groupdict
    except Exception as e:
        raise AnalysisError('BINDING regex: %s' % e)
    rep.check('R05.e', '%s::BINDING groups' % ROUTE, bool({'name', 'op', 'type'} <= set(gd)), 'BINDING exposes groups name / op / type' if {'name', 'op', 'type'} <= set(gd) else
              'BINDING lacks one of the groups name / op / type', route)
    if {'name', 'op', 'type'} <= set(gd):
        # the three pieces are told apart by character class, in the order name, operator, type; every documented form is a binding
        try:
            specs = (('name', r'\w+', 'word characters'), ('op', r'\W*', 'non-word characters'), ('type', r'\w*', 'word characters'))
            for g, spec, what in specs:
                ok, w = regexq.included(regexq.group_tree(b, g), spec)
                rep.check('R05.e', '%s::BINDING group %s' % (ROUTE, g), ok, 'group %s consists of %s' % (g, what) if ok else
                          'group %s of BINDING can capture %r: name, operator and type are no longer told apart by their characters' % (g, w), route)
            ok = gd['name'] < gd['op'] < gd['type']
            rep.check('R05.e', '%s::BINDING group order' % ROUTE, ok, 'the groups come in the order name, op, type' if ok else
                      'the groups of BINDING do not come in the order name, op, type', route)
            ops = '|'.join(re.escape(o) for o in sorted(DOC_QUANT) + [':'] if o)
            types = '|'.join(sorted(convs)) if convs else 'int|float|str|unicode'
            canon = r'<[A-Za-z_][A-Za-z0-9_]*(%s)?(%s)?>' % (ops, types)
            ok, w = regexq.included(canon, b)
            rep.check('R05.e', '%s::BINDING accepts the documented forms' % ROUTE, ok, 'every <name>, <name OP>, <name OP type> is recognised as a binding' if ok else
                      'BINDING does not recognise %r as a binding: it is compiled as a literal segment' % w, route)
        except AnalysisError as e:
            raise AnalysisError('BINDING regex: %s' % e)
    # each role is fed from the group of the same name: the name put into the segment and every key recorded in the converter
    # map, the key of the type tables, the quantifier -- whether held in a variable, a copy of it, or read off the match in place
    def group_of_value(e, role):
        g = _group_of(R, e)
        if g is not None:
            return g
        if not isinstance(e, ast.Name):
            raise AnalysisError('_compile_path_pattern: %s (binding %s) is not recognised as a group of BINDING.match(...)' % (short(e, 50), role))
        s, c = _var_sources(R, e.id)
        if len(s) != 1 or s[0][1] is None:
            raise AnalysisError('_compile_path_pattern: cannot tell where %s (binding %s) comes from' % (e.id, role))
        g = _group_of(R, s[0][1])
        if g is None:
            raise AnalysisError('_compile_path_pattern: %s = %s is not recognised as a group of BINDING.match(...)' % (e.id, short(s[0][1], 50)))
        return g
    as_name = lambda v: ast.Name(id=v, ctx=ast.Load()) if v is not None else None
    roles = {'name': R.kw.get('name'), 'type': as_name(T), 'op': as_name(R.opvar)}
    got = {}
    for role, e in sorted(roles.items()):
        if e is None:
            raise AnalysisError('_compile_path_pattern: the variable holding the binding %s was not found' % role)
        got[role] = group_of_value(e, role)
    ok = all(got[r] == r for r in roles)
    keys = []
    for st, key in _item_stores(cp, R.vcm):
        try:
            keys.append((key, group_of_value(key, 'name')))
        except AnalysisError:
            keys.append((key, 'name' if norm(key) == norm(roles['name']) else None))
    ok = ok and all(g == 'name' for key, g in keys)
    rep.check('R05.e', fkey(cp, 'groups unpacked'), ok, 'name / type / op are taken from the groups of the same name' if ok else
              'the parsed binding groups are unpacked into the wrong variables: %s' %
              ', '.join(['%s <- group %r' % (norm(roles[r]), got[r]) for r in sorted(roles)] +
                        ['key %s <- %s' % (short(key, 30), 'group %r' % g if g else 'not a group') for key, g in keys if g != 'name']), route, cp.node)


# ---- R05.g ------------------------------------------------------------------------------------------

def _flattened(e):
    """Name of the list C when ``e`` builds, element for element, the concatenation of the fragments of every element of C:
    ``[''.join(f) for f in C]``, ``list(''.join(f) for f in C)``, ``list(map(''.join, C))``; None otherwise."""
    empty_join = lambda f: isinstance(f, ast.Attribute) and f.attr == 'join' and isinstance(f.value, ast.Constant) and f.value.value == ''
    if isinstance(e, ast.Call) and isinstance(e.func, ast.Name) and e.func.id == 'list' and len(e.args) == 1 and not e.keywords:
        a = e.args[0]
        if isinstance(a, ast.GeneratorExp):
            e = a
        elif isinstance(a, ast.Call) and isinstance(a.func, ast.Name) and a.func.id == 'map' and len(a.args) == 2 and not a.keywords and \
                empty_join(a.args[0]) and isinstance(a.args[1], ast.Name):
            return a.args[1].id
        else:
            return None
    if isinstance(e, (ast.ListComp, ast.GeneratorExp)) and len(e.generators) == 1:
        g = e.generators[0]
        if not g.ifs and not g.is_async and isinstance(g.target, ast.Name) and isinstance(g.iter, ast.Name) and isinstance(e.elt, ast.Call) and \
                empty_join(e.elt.func) and len(e.elt.args) == 1 and not e.elt.keywords and isinstance(e.elt.args[0], ast.Name) and \
                e.elt.args[0].id == g.target.id and g.iter.id != g.target.id:
            return g.iter.id
    return None


def _rule_g_segments(rep, R):
    """The list handed to ``sep.join`` holds, in order, one element per literal part of the pattern -- the part itself -- with
    the segment of every binding glued to the element before it; outside strict mode a trailing empty element (pattern
    ending in '/') is dropped, in strict mode nothing is.  List and converter map are created by the call that fills them."""
    repo = rep.repo
    route, cp, ccfg = R.route, R.cp, R.cfg
    if not isinstance(R.loop, ast.For) or not isinstance(R.loop.target, ast.Name):
        raise AnalysisError('_compile_path_pattern: the loop over the parts of the pattern was not found')
    part = R.loop.target.id
    params = _all_params(cp)
    in_loop = set(id(x) for x in ast.walk(R.loop))
    # -- the joined list, under all its names
    joins = [c for c in walk_body(cp.node) if isinstance(c, ast.Call) and isinstance(c.func, ast.Attribute) and c.func.attr == 'join' and len(c.args) == 1 and
             not c.keywords and isinstance(c.args[0].value if isinstance(c.args[0], ast.Subscript) else c.args[0], ast.Name) and
             not (isinstance(c.func.value, ast.Constant) and c.func.value.value == '')]
    if not joins:
        raise AnalysisError('_compile_path_pattern: the join of the processed segments was not found')
    names, todo = set(), [(c.args[0].value if isinstance(c.args[0], ast.Subscript) else c.args[0]).id for c in joins]
    inits, foreign, stage = [], [], []
    while todo:
        n = todo.pop()
        if n in names:
            continue
        names.add(n)
        if n in params or _stores(cp.node, n) == 0:
            foreign.append(n)
            continue
        for st, val in _defs(cp, n):
            base = val.value if isinstance(val, ast.Subscript) and isinstance(val.slice, ast.Slice) else val
            if val is not None and _is_empty_display(val, 'list'):
                inits.append(st)
            elif val is not None and _flattened(val) is not None:
                stage.append((st, _flattened(val)))
            elif isinstance(base, ast.Name):
                todo.append(base.id)
            else:
                foreign.append(n)
    # staged construction: the loop fills a list C of fragment lists -- [part] for a literal part, the segment of a binding appended
    # to the last of them -- and the joined list is built from it after the loop, each element the concatenation of its fragments
    # (element for element what ``L.append(part)`` / ``L[-1] += segment`` build)
    staged, C = bool(stage), None
    if staged:
        C = stage[0][1]
        cdefs = _defs(cp, C) if C not in params and C not in names and _stores(cp.node, C) == 1 else []
        if len(stage) != 1 or inits or len(cdefs) != 1 or cdefs[0][1] is None or not _is_empty_display(cdefs[0][1], 'list'):
            foreign.append(C)
        else:
            inits = [cdefs[0][0]]
    fresh = not foreign and len(inits) == 1 and id(inits[0]) not in in_loop and \
        ccfg.must_pass(ccfg.nodes_of(inits[0]), ccfg.entry, ccfg.nodes_of(R.loop))
    if fresh and staged:
        # ... from what the loop has filled in: the list is built after the loop, on every path to it
        fresh = id(stage[0][0]) not in in_loop and ccfg.must_pass(ccfg.nodes_of(R.loop), ccfg.entry, ccfg.nodes_of(stage[0][0]))
    rep.check('R05.g', fkey(cp, 'segment list created per call'), fresh, 'the list of processed segments starts empty in every call' if fresh else
              'the list of processed segments is not an empty list created by this call before the loop (%s): segments of earlier patterns / '
              'other content end up in the expression' % (', '.join(sorted(set(foreign))) or 'no single empty-list initialisation'), route, inits[0] if inits else cp.node)
    # -- the parts
    it = _inline(cp, R.loop.iter)
    ok = norm(it) == "%s.split('/')" % R.pvar and not _stores(cp.node, R.pvar) and _stores(cp.node, part) == 1 and not R.loop.orelse
    rep.check('R05.g', fkey(cp, 'parts of the pattern'), ok, "the loop visits every part of pattern.split('/')" if ok else
              "the loop does not visit exactly the parts of %s.split('/') (iterates %s)" % (R.pvar, short(R.loop.iter, 50)), route, R.loop)
    # -- every use of the list
    is_L = lambda e: isinstance(e, ast.Name) and e.id in names
    is_last = lambda e: isinstance(e, ast.Subscript) and is_L(e.value) and _is_minus_one(e.slice)
    is_C = lambda e: staged and isinstance(e, ast.Name) and e.id == C
    is_lastC = lambda e: isinstance(e, ast.Subscript) and is_C(e.value) and _is_minus_one(e.slice)
    method_call = lambda st, attr: isinstance(st, ast.Expr) and isinstance(st.value, ast.Call) and isinstance(st.value.func, ast.Attribute) and \
        st.value.func.attr == attr and len(st.value.args) == 1 and not st.value.keywords and not isinstance(st.value.args[0], ast.Starred)
    appends, glues, trims, others = [], [], [], []        # appends, glues: (statement, the value that enters the list)
    for st in stmts_of(cp.node):
        if isinstance(st, (ast.For, ast.AsyncFor, ast.While, ast.If, ast.Try, ast.With, ast.AsyncWith, ast.FunctionDef, ast.ClassDef)):
            continue
        uses = [x for x in ast.walk(st) if is_L(x) or is_C(x)]
        if not uses or st in inits or (staged and st is stage[0][0]):
            continue
        if not staged and method_call(st, 'append') and is_L(st.value.func.value) and len(uses) == 1:
            appends.append((st, st.value.args[0]))
        elif not staged and isinstance(st, ast.AugAssign) and isinstance(st.op, ast.Add) and is_last(st.target) and len(uses) == 1:
            glues.append((st, st.value))
        elif not staged and isinstance(st, ast.Assign) and len(st.targets) == 1 and is_last(st.targets[0]) and isinstance(st.value, ast.BinOp) and \
                isinstance(st.value.op, ast.Add) and is_last(st.value.left) and norm(st.value.left) == norm(st.targets[0]) and len(uses) == 2:
            glues.append((st, st.value.right))
        elif staged and method_call(st, 'append') and is_C(st.value.func.value) and len(uses) == 1 and isinstance(st.value.args[0], ast.List) and \
                len(st.value.args[0].elts) == 1 and not isinstance(st.value.args[0].elts[0], ast.Starred):
            appends.append((st, st.value.args[0].elts[0]))        # C.append([part]): a new element whose only fragment is the part
        elif staged and method_call(st, 'append') and is_lastC(st.value.func.value) and len(uses) == 1:
            glues.append((st, st.value.args[0]))                  # C[-1].append(segment): one more fragment of the last element
        elif _drops_last(st) in names and len(uses) == 1:
            trims.append(st)
        else:
            # reads: the join, tests of the last element, plain copies / [:-1] views bound to another name of the list
            rest = list(uses)
            for x in ast.walk(st):
                if isinstance(x, ast.Call) and any(x is j for j in joins):
                    rest = [u for u in rest if not any(u is y for y in ast.walk(x.args[0]))]
            if isinstance(st, ast.Assign):
                pairs = [(st.targets[0], st.value)] if len(st.targets) == 1 else []
                if pairs and isinstance(pairs[0][0], (ast.Tuple, ast.List)) and isinstance(pairs[0][1], (ast.Tuple, ast.List)) and \
                        len(pairs[0][0].elts) == len(pairs[0][1].elts):
                    pairs = list(zip(pairs[0][0].elts, pairs[0][1].elts))
                for t, v in pairs:
                    base = v.value if isinstance(v, ast.Subscript) and isinstance(v.slice, ast.Slice) else v
                    if is_L(t) and is_L(base):
                        rest = [u for u in rest if u is not t and u is not base]
                        if base is not v:
                            trims.append(st)
            if rest:
                others.append(st)
    for j in joins:
        a = j.args[0]
        if isinstance(a, ast.Subscript):
            sl = a.slice
            if isinstance(sl, ast.Slice) and sl.lower is None and sl.step is None and _is_minus_one(sl.upper):
                trims.append(stmt_of(route, j))
            else:
                others.append(stmt_of(route, j))      # some other part of the list is joined
    # tests ``not L[-1]`` live in if-heads, not in simple statements: any other mention inside a compound head is looked at here
    for st in stmts_of(cp.node):
        if isinstance(st, (ast.If, ast.While)):
            for x in ast.walk(st.test):
                if (is_L(x) and not is_last(route.parents.get(x))) or is_C(x):
                    others.append(st)
        elif isinstance(st, (ast.For, ast.AsyncFor)):
            if any(is_L(x) or is_C(x) for x in ast.walk(st.iter)) or any(is_L(x) or is_C(x) for x in ast.walk(st.target)):
                others.append(st)
    ok = not others
    rep.check('R05.g', fkey(cp, 'segment list only appended to / glued / trimmed'), ok, 'nothing else changes the list of processed segments' if ok else
              'the list of processed segments is also used in %s: not an append of a literal part, a glued binding segment, the trailing trim or the join' %
              short(others[0], 60), route, others[0] if others else cp.node)
    mtext = 'BINDING.match(%s)' % part
    # facts established inside the loop (the guards before the loop hold for every part alike); tests of the match object are
    # read through the local that names it
    loop_facts = lambda st: [(t, pol) for t, pol in conds(cp, st) if id(t) in in_loop]
    ofact = lambda t, pol: (lambda f: (_inline(cp, f[0], stable=(part,)), f[1]))(_opt_fact(cp, t, pol))
    facts = lambda st: [ofact(t, pol) for t, pol in loop_facts(st)]
    lit = [a for a, v in appends if id(a) in in_loop]
    ok = len(lit) == 1 and len(appends) == 1 and norm(_inline(cp, appends[0][1], stable=(part,))) == part and implies_absent(facts(lit[0]), mtext) and \
        all(implies_absent([f], mtext) or (isinstance(f[0], ast.BoolOp)) for f in facts(lit[0]))
    rep.check('R05.g', fkey(cp, 'literal part kept verbatim'), ok, 'a part that is not a binding enters the expression as it is' if ok else
              'a literal part of the pattern does not enter the list of segments unchanged and unconditionally (%s)' %
              (short(appends[0][0], 60) if appends else 'no append found'), route, appends[0][0] if appends else R.loop)
    seg = [g for g in glues if id(g[0]) in in_loop]
    is_seg = lambda v: v is R.fc or (isinstance(v, ast.Name) and _single_def(cp, v.id) is R.fc)
    ok = len(seg) == 1 and len(glues) == 1 and is_seg(seg[0][1]) and implies_present(facts(seg[0][0]), mtext)
    rep.check('R05.g', fkey(cp, 'binding segment glued to the element before it'), ok, 'the segment of a binding is added to the element before it' if ok else
              'the segment built for a binding is not glued (+=) onto the last element of the list (%s)' %
              (short(glues[0][0], 60) if glues else 'no "segments[-1] += segment" found'), route, glues[0][0] if glues else R.fc)
    iter_nodes = [n.id for n in ccfg.nodes if n.kind == 'iter' and n.stmt is R.loop]
    contributes = [x for x in lit] + [g[0] for g in seg]
    ok = bool(contributes) and ccfg.must_pass(ccfg.nodes_of_all(contributes), iter_nodes, ccfg.nodes_of(R.loop), normal_only=True)
    rep.check('R05.g', fkey(cp, 'every part contributes'), ok, 'every part of the pattern ends up in the list' if ok else
              'some parts of the pattern are skipped (an iteration can end without appending / gluing)', route, R.loop)
    # -- converter map: fresh, every binding recorded
    vdefs = _defs(cp, R.vcm)
    ok = R.vcm not in params and len(vdefs) == 1 and vdefs[0][1] is not None and _is_empty_display(vdefs[0][1], 'dict') and id(vdefs[0][0]) not in in_loop and \
        ccfg.must_pass(ccfg.nodes_of(vdefs[0][0]), ccfg.entry, ccfg.nodes_of(R.loop))
    rep.check('R05.g', fkey(cp, 'converter map created per call'), ok, 'the converter map starts empty in every call' if ok else
              'the converter map is not an empty dict created by this call: bindings of earlier patterns stay in it (duplicates are reported '
              'across routes, routes receive foreign converters)', route, vdefs[0][0] if vdefs else cp.node)
    stores = [st for st, key in _item_stores(cp, R.vcm)]
    ok = len(stores) == 1 and bool(lit) and ccfg.must_pass(ccfg.nodes_of_all(stores + lit), iter_nodes, ccfg.nodes_of(R.loop), normal_only=True)
    rep.check('R05.g', fkey(cp, 'every binding recorded'), ok, 'every binding gets its converter' if ok else
              'a binding can be compiled into the expression without a converter being recorded for it', route, stores[0] if stores else R.loop)
    # -- trailing empty element: trimmed exactly outside strict mode, exactly when empty
    try:
        strict_value = route.const('S_STRICT')
    except Exception as e:
        raise AnalysisError('cannot fold S_STRICT: %s' % e)
    join_stmts = [stmt_of(route, j) for j in joins]
    found = {}      # strict? -> set of trims seen in the joined list on returning paths
    trim_envs = []
    for strict in (True, False):
        ex = _SymExec(repo, cp, R.mode, strict_value, strict)
        ex.watch = list(trims)
        found[strict] = set()
        for val, env in ex.returns():
            rx = val[1][0] if val[0] == 't' and len(val[1]) == 2 else None
            toks = rx[1][1] if rx is not None and rx[0] == 're' and rx[1][0] == 's' else ()
            js = [t for t in toks if t[0] == 'join']
            if len(js) != 1 or len(js[0]) < 4:
                raise AnalysisError('_compile_path_pattern: the list joined into the compiled expression cannot be followed (%s)' % _show(rx[1] if rx else val))
            found[strict].add(js[0][3][1])
            if not strict:
                trim_envs += [(st, e2) for st, e2 in env.get('$seen', ())]
    ok = found[True] == {0}
    rep.check('R05.g', fkey(cp, 'strict mode keeps every element'), ok, 'in strict mode the list is joined as it is' if ok else
              'in strict mode the last element of the list is dropped before the join: a pattern ending in "/" then also matches the path '
              'without the slash', route, trims[0] if trims else cp.node)
    # outside strict mode: both outcomes occur, and the trim stands under exactly one fact the mode does not decide: the last element is empty
    exact = bool(trim_envs)
    top = R.loop
    while route.parents.get(top) is not cp.node and route.parents.get(top) is not None:
        top = route.parents.get(top)
    after_loop = set(id(x) for st_ in cp.node.body[cp.node.body.index(top) + 1:] for x in ast.walk(st_)) if top in cp.node.body else set()
    for st, env in trim_envs:
        ex = _SymExec(repo, cp, R.mode, strict_value, False)
        open_ = []
        for t, pol in conds(cp, st):
            if isinstance(t, ast.BoolOp) and ((isinstance(t.op, ast.And) and pol is True) or (isinstance(t.op, ast.Or) and pol is False)):
                continue
            if ex.ev(t, env)[0] != 'b' and (id(t) in after_loop or any(is_L(x) for x in ast.walk(t))):
                open_.append((t, pol))
        unrelated = [(t, pol) for t, pol in open_ if not any(is_L(x) for x in ast.walk(t))]
        if unrelated:
            raise AnalysisError('_compile_path_pattern: cannot tell whether "%s" means that the last element of the list is empty' % cond_texts(unrelated)[0])
        last_empty = lambda t, pol: (is_last(t) and pol is False) or \
            (isinstance(t, ast.Compare) and len(t.ops) == 1 and is_last(t.left) and isinstance(t.comparators[0], ast.Constant) and t.comparators[0].value == '' and
             ((isinstance(t.ops[0], ast.Eq) and pol is True) or (isinstance(t.ops[0], ast.NotEq) and pol is False)))
        if len(open_) != 1 or not last_empty(*open_[0]):
            exact = False
        else:
            t = open_[0][0]
            held = env.get((t if is_last(t) else t.left).value.id, ('?',))
            if held[0] != 'L' or held[2] != 0:
                exact = False
    ok = found[False] == {0, 1} and exact
    rep.check('R05.g', fkey(cp, 'trailing empty element dropped outside strict mode'), ok,
              'outside strict mode a trailing empty element is dropped (the trailing "/*" stands for it), and only then' if ok else
              'outside strict mode the last element of the list is not dropped exactly when it is empty (joined without its last %s element(s)%s)' %
              (' or '.join(str(k) for k in sorted(found[False])), '' if exact or not trim_envs else '; the trim is not guarded by "the last element is empty" alone'),
              route, trims[0] if trims else cp.node)
    # -- the duplicate test looks at every binding
    dups = [r for r in raises_of(cp) if raise_type(r) == 'InvalidPattern' and
            (has_cond(conds(cp, r), lambda t: isinstance(t, ast.Compare) and len(t.ops) == 1 and isinstance(t.ops[0], ast.In) and norm(t.comparators[0]) == R.vcm, True) or
             has_cond(conds(cp, r), lambda t: isinstance(t, ast.Compare) and len(t.ops) == 1 and isinstance(t.ops[0], ast.NotIn) and norm(t.comparators[0]) == R.vcm, False))]
    if dups:
        extra = [(t, pol) for t, pol in loop_facts(dups[0]) if not (
            isinstance(t, ast.BoolOp) or implies_present([ofact(t, pol)], mtext) or
            (isinstance(t, ast.Compare) and len(t.ops) == 1 and isinstance(t.ops[0], (ast.In, ast.NotIn)) and norm(t.comparators[0]) == R.vcm))]
        ok = not extra
        rep.check('R05.g', fkey(cp, 'duplicate test for every binding'), ok, 'every binding name is tested against the names seen so far' if ok else
                  'the duplicate-binding test is skipped for some bindings (also requires %s)' % ', '.join(cond_texts(extra)), route, dups[0])
    rep.floor('R05.g', 10)


# ---- R05.h ------------------------------------------------------------------------------------------

def _rule_h_result(rep):
    """What a match hands to the endpoint: a mapping with, for every (name, converter) of self.converters, the converter applied
    once to the text the regex captured for the group of that name."""
    route = rep.repo.mod(ROUTE)
    mp = route.func('BoundRoute.match_path')
    ps = mp.params()
    if len(ps) < 2:
        raise AnalysisError('match_path: expected (self, path)')
    me, pathp = ps[0], ps[1]
    M = '%s.regex.match(%s)' % (me, pathp)
    CONVS = '%s.converters' % me

    def group_read(e, n):
        t = norm(_inline(mp, e, stable=(n,)))
        return t in ('%s.groupdict()[%s]' % (M, n), '%s.groupdict().get(%s)' % (M, n), '%s.group(%s)' % (M, n), '%s[%s]' % (M, n))

    def conversion(e, n, c):
        """``e`` is  c(<group n>)  with c the converter that goes with n"""
        if not (isinstance(e, ast.Call) and len(e.args) == 1 and not e.keywords and not isinstance(e.args[0], ast.Starred)):
            return False
        f = norm(_inline(mp, e.func, stable=(n,) + ((c,) if c else ())))
        return (f == c if c else f == '%s[%s]' % (CONVS, n)) and group_read(e.args[0], n)

    def iteration(target, it):
        """(name variable, converter variable or None) when the loop / generator runs over the converters"""
        t = norm(_inline(mp, it))
        if t == CONVS + '.items()' and isinstance(target, (ast.Tuple, ast.List)) and len(target.elts) == 2 and all(isinstance(x, ast.Name) for x in target.elts):
            return target.elts[0].id, target.elts[1].id
        if t in (CONVS, CONVS + '.keys()', 'list(%s)' % CONVS, 'sorted(%s)' % CONVS) and isinstance(target, ast.Name):
            return target.id, None
        return None
    built = []      # (node, ok, how)
    for node in walk_body(mp.node):
        pair = None
        if isinstance(node, ast.DictComp):
            gens, pair = node.generators, (node.key, node.value)
        elif isinstance(node, ast.Call) and isinstance(node.func, ast.Name) and node.func.id == 'dict' and len(node.args) == 1 and not node.keywords:
            # dict(<pairs>): the pairs written in place or named first (a local bound once to the comprehension)
            src = node.args[0]
            if isinstance(src, ast.Name) and _single_def(mp, src.id) is not None:
                src = _single_def(mp, src.id)
            if isinstance(src, (ast.ListComp, ast.GeneratorExp)) and isinstance(src.elt, (ast.Tuple, ast.List)) and len(src.elt.elts) == 2:
                gens, pair = src.generators, tuple(src.elt.elts)
        if pair is not None:
            it = iteration(gens[0].target, gens[0].iter) if len(gens) == 1 and not gens[0].ifs and not gens[0].is_async else None
            if it is None and not any(CONVS in norm(_inline(mp, g.iter)) for g in gens):
                continue
            ok = it is not None and isinstance(pair[0], ast.Name) and pair[0].id == it[0] and conversion(pair[1], it[0], it[1])
            built.append((node, ok, 'comprehension'))
        elif isinstance(node, (ast.For, ast.AsyncFor)) and CONVS in norm(_inline(mp, node.iter)):
            it = iteration(node.target, node.iter)
            stores = [s for s in stmts_of(node) if isinstance(s, (ast.Assign, ast.AugAssign)) and
                      any(isinstance(t, ast.Subscript) for t in (s.targets if isinstance(s, ast.Assign) else [s.target]))]
            ok = it is not None and len(stores) == 1 and isinstance(stores[0], ast.Assign) and len(stores[0].targets) == 1 and stores[0] in node.body and \
                not node.orelse and all(isinstance(b, (ast.Assign, ast.Expr)) for b in node.body)
            D = None
            if ok:
                tgt = stores[0].targets[0]
                D = tgt.value.id if isinstance(tgt.value, ast.Name) else None
                d0 = _single_def(mp, D) if D else None
                ok = D is not None and isinstance(tgt.slice, ast.Name) and tgt.slice.id == it[0] and conversion(stores[0].value, it[0], it[1]) and \
                    d0 is not None and _is_empty_display(d0, 'dict') and len(_item_stores(mp, D)) == 1 and \
                    not any(isinstance(c_, ast.Call) and isinstance(c_.func, ast.Attribute) and norm(c_.func.value) == D and c_.func.attr in _MUTATORS for c_ in walk_body(mp.node)) and \
                    all(_stores(mp.node, v) == 1 for v in it if v)
            built.append((node, ok, D))
    if len(built) != 1:
        raise AnalysisError('match_path: the mapping of converted values was not found (%d candidates)' % len(built))
    node, ok, how = built[0]
    rep.check('R05.h', fkey(mp, 'every binding converted under its own name'), ok,
              'result[name] = converter(captured text of group name), for every (name, converter) of self.converters' if ok else
              'match_path does not map every binding name to its converter applied (once) to the text captured for that name', route, node)
    # ... and that mapping is what a match returns
    rets = [r for r in returns_of(mp) if not (r.value is None or (isinstance(r.value, ast.Constant) and r.value.value is None))]
    if isinstance(node, (ast.For, ast.AsyncFor)):
        good = [r for r in rets if isinstance(r.value, ast.Name) and r.value.id == how]
    else:
        good = [r for r in rets if r.value is node or (isinstance(r.value, ast.Name) and _single_def(mp, r.value.id) is node)]
    mcfg = cfg_of(mp)
    ok = len(rets) == 1 and len(good) == 1 and (not isinstance(node, (ast.For, ast.AsyncFor)) or
                                                mcfg.must_pass(mcfg.nodes_of(node), mcfg.entry, mcfg.nodes_of(good[0])))
    rep.check('R05.h', fkey(mp, 'a match returns the converted values'), ok, 'the mapping of converted values is what a match returns' if ok else
              'match_path returns something else than the mapping of converted values (%s)' % ', '.join(short(r, 40) for r in rets), route, rets[0] if rets else mp.node)
    rep.floor('R05.h', 2)


# ---- R05.i ------------------------------------------------------------------------------------------

MODE_OPTION = 'inherit_slashes'


def _rule_i_mode_option(rep):
    """Which slash mode a route is compiled with is decided by ``inherit_slashes`` -- an option that travels, inside **kwargs, from
    where it is declared (the caller's keyword, the ``inherit_slashes`` attribute of a sub-application) through bind_all() / bind()
    to BoundRoute.  Every station uses setdefault, so the first value wins: a function that hands the option on to *another*
    object's bind() / bind_all() may put in a value read from a declaration (``x.inherit_slashes``, ``getattr(x, 'inherit_slashes',
    d)``, its own parameter), never a literal -- a literal placed upstream silences the declaration downstream."""
    repo = rep.repo
    n = 0
    for modname in ('clastic.application', ROUTE):
        mod = repo.mod(modname)
        for q, fi in sorted(mod.functions.items()):
            me = fi.params()[0] if fi.cls is not None and fi.params() else None

            def option_key(k):
                """'' when ``k`` is the constant 'inherit_slashes'; the variable's name when it is the variable of a loop over a literal
                tuple / list of option names that contains it (``for opt in ('rebind_render', 'inherit_slashes')``); else None"""
                if isinstance(k, ast.Constant):
                    return '' if k.value == MODE_OPTION else None
                if isinstance(k, ast.Name) and _stores(fi.node, k.id) == 1:
                    cur = mod.parents.get(k)
                    while cur is not None and cur is not fi.node:
                        if isinstance(cur, ast.For) and isinstance(cur.target, ast.Name) and cur.target.id == k.id:
                            it = repo.try_fold(cur.iter, mod, default=None) if not isinstance(cur.iter, (ast.Tuple, ast.List)) else \
                                [e_.value if isinstance(e_, ast.Constant) else None for e_ in cur.iter.elts]
                            return k.id if isinstance(it, (list, tuple)) and MODE_OPTION in it else None
                        cur = mod.parents.get(cur)
                return None
            sites = []      # (node, name of the dict or None for a keyword of the forwarding call itself, value expression, key variable or '')
            for x in walk_body(fi.node):
                if isinstance(x, ast.Call) and isinstance(x.func, ast.Attribute) and isinstance(x.func.value, ast.Name) and x.args and \
                        x.func.attr == 'setdefault' and option_key(x.args[0]) is not None:
                    sites.append((x, x.func.value.id, x.args[1] if len(x.args) > 1 else ast.Constant(value=None), option_key(x.args[0])))
                elif isinstance(x, ast.Call) and isinstance(x.func, ast.Attribute) and isinstance(x.func.value, ast.Name) and x.func.attr == 'update' and \
                        any(k.arg == MODE_OPTION for k in x.keywords):
                    sites.append((x, x.func.value.id, [k.value for k in x.keywords if k.arg == MODE_OPTION][0], ''))
                elif isinstance(x, ast.Subscript) and isinstance(x.ctx, ast.Store) and isinstance(x.value, ast.Name) and option_key(x.slice) is not None:
                    st = stmt_of(mod, x)
                    v = st.value if isinstance(st, ast.Assign) and len(st.targets) == 1 and st.targets[0] is x else None
                    sites.append((x, x.value.id, v, option_key(x.slice)))
                elif isinstance(x, ast.Call) and any(k.arg == MODE_OPTION for k in x.keywords) and not (isinstance(x.func, ast.Name) and x.func.id == 'dict') and \
                        (call_tail(x) in ('bind', 'bind_all') or any(k.arg is None for k in x.keywords)):
                    sites.append((x, None, [k.value for k in x.keywords if k.arg == MODE_OPTION][0], ''))
                elif isinstance(x, ast.Call) and isinstance(x.func, ast.Name) and x.func.id == 'dict' and any(k.arg == MODE_OPTION for k in x.keywords):
                    d = _bound_var(mod, x)
                    if d is not None:
                        sites.append((x, d, [k.value for k in x.keywords if k.arg == MODE_OPTION][0], ''))
                elif isinstance(x, ast.Dict) and any(isinstance(k, ast.Constant) and k.value == MODE_OPTION for k in x.keys if k is not None):
                    d = _bound_var(mod, x)
                    if d is not None:
                        sites.append((x, d, [v for k, v in zip(x.keys, x.values) if isinstance(k, ast.Constant) and k.value == MODE_OPTION][0], ''))

            def foreign(call):
                """the call binds through another object than the one this method belongs to (``rf.bind_all(...)``, or a local that
                names such a bound method); ``self.x(...)`` / ``super().x(...)`` stay with the declaring object"""
                f = call.func
                if isinstance(f, ast.Name):
                    d = _single_def(fi, f.id)
                    if isinstance(d, ast.Attribute):
                        f = d
                    elif isinstance(d, ast.Call) and isinstance(d.func, ast.Name) and d.func.id == 'getattr' and d.args:
                        r = d.args[0]
                        return not (isinstance(r, ast.Name) and r.id == me)
                    else:
                        return f.id not in ('dict',)
                if not isinstance(f, ast.Attribute):
                    return True
                r = f.value
                if isinstance(r, ast.Call) and norm(r.func) == 'super':
                    return False
                return not (isinstance(r, ast.Name) and r.id == me)
            for node, d, v, keyvar in sites:
                if d is None:
                    fwd = [node]
                else:
                    fwd = [c for c in walk_body(fi.node) if isinstance(c, ast.Call) and
                           any(k.arg is None and isinstance(k.value, ast.Name) and k.value.id == d for k in c.keywords)]
                if not any(foreign(c) for c in fwd):
                    continue
                n += 1
                e = _inline(fi, v, stable=(keyvar,) if keyvar else ()) if v is not None else None
                names_it = lambda a: (isinstance(a, ast.Constant) and a.value == MODE_OPTION) or (bool(keyvar) and isinstance(a, ast.Name) and a.id == keyvar)
                declared = e is not None and (
                    (isinstance(e, ast.Attribute) and e.attr == MODE_OPTION and not keyvar) or
                    (isinstance(e, ast.Call) and isinstance(e.func, ast.Name) and e.func.id == 'getattr' and len(e.args) >= 2 and names_it(e.args[1])) or
                    (isinstance(e, ast.Name) and e.id in _all_params(fi) and not _stores(fi.node, e.id) and not keyvar))
                rep.check('R05.i', fkey(fi, '%s handed on' % MODE_OPTION), declared,
                          '%s hands on an %s read from a declaration (%s)' % (fi.qualname, MODE_OPTION, short(v, 50)) if declared else
                          '%s puts the literal %s into the %s it hands on to another object\'s bind(): the value declared by that object (a '
                          'sub-application created with %s=...) never takes effect, its routes are compiled for the wrong slash mode' %
                          (fi.qualname, short(v, 30) if v is not None else '?', MODE_OPTION, MODE_OPTION), mod, node)
    rep.floor('R05.i', 2)


BINDER = 'BoundRoute.__init__'


def _rule_i_mode_provenance(rep):
    """The mode a binding compiles its pattern for is the mode declared for *this* binding.  In the constructor of a bound route
    the mode handed to the pattern compiler is, on every path, an attribute read directly off one of the objects the binding is
    made of: with inherit_slashes set, off the application being bound to; without it, off the route being bound -- the very
    object whose pattern is compiled (on a re-bind that is a bound route, whose mode is the one it was actually compiled
    with).  A value taken from anywhere else -- the original unbound route, an attribute chain, a constant -- replaces the
    effective mode of an embedded application by a default nobody declared for this binding."""
    repo = rep.repo
    route = repo.mod(ROUTE)
    bi = route.func(BINDER)
    mod = bi.mod
    ps = bi.params()
    if len(ps) < 2:
        raise AnalysisError('%s: parameters not found' % BINDER)
    me = ps[0]
    params = _all_params(bi)
    calls = [c for c in walk_body(bi.node) if isinstance(c, ast.Call) and call_name(c) == '_compile_path_pattern']
    if not calls:
        raise AnalysisError('%s: the call that compiles the pattern was not found' % BINDER)

    def attr_stores(attr):
        out = []
        for s in stmts_of(bi.node):
            if isinstance(s, ast.Assign):
                for t in s.targets:
                    for x in (t.elts if isinstance(t, (ast.Tuple, ast.List)) else [t]):
                        if isinstance(x, ast.Attribute) and isinstance(x.value, ast.Name) and x.value.id == me and x.attr == attr:
                            if x is t:
                                out.append((s, s.value))
                            elif isinstance(s.value, (ast.Tuple, ast.List)) and len(s.value.elts) == len(t.elts):
                                out.append((s, s.value.elts[list(t.elts).index(x)]))
                            else:
                                out.append((s, None))
            elif isinstance(s, (ast.AugAssign, ast.AnnAssign)) and norm(s.target) == '%s.%s' % (me, attr):
                out.append((s, None))
        return out

    def leaves(e, use, links=(), depth=0):
        """[(leaf expression, links)]: locals and attributes of the new object followed to what they are bound to, every binding a
        case of its own; links: [(binding statement, statement that uses what it binds, the competing bindings)]"""
        if depth > 6:
            raise AnalysisError('%s: %s cannot be followed' % (BINDER, short(e, 40)))
        ds = None
        if isinstance(e, ast.Name) and e.id not in params:
            ds = [(st, v if isinstance(st, ast.Assign) else None) for st, v in _defs(bi, e.id)]
        elif isinstance(e, ast.Attribute) and isinstance(e.value, ast.Name) and e.value.id == me:
            ds = attr_stores(e.attr)
        if not ds:
            return [(e, list(links))]
        out = []
        for st, v in ds:
            if v is None:
                raise AnalysisError('%s: the value of %s cannot be followed' % (BINDER, norm(e)))
            out.extend(leaves(v, st, list(links) + [(st, use, [s2 for s2, v2 in ds if s2 is not st])], depth + 1))
        return out

    bcfg = cfg_of(bi)

    def link_conds(links):
        """what is known where a binding runs, and on the way from it to its use past no competing binding"""
        cs = []
        for d, use, others in links:
            cs.extend(conds(bi, d))
            un = bcfg.nodes_of(use)
            if un and d is not use:
                raw = bcfg._conds_between(bcfg.nodes_of(d), un[0], avoid=bcfg.nodes_of_all(others))
                cs.extend(bcfg._expand_named(expand_conds(raw), un[0]))
        return cs

    # the option: locals / parameters that hold inherit_slashes
    optvars = set(p for p in params if p == MODE_OPTION)
    for s in stmts_of(bi.node):
        if isinstance(s, ast.Assign) and len(s.targets) == 1 and isinstance(s.targets[0], ast.Name):
            v = s.value
            if isinstance(v, ast.Call) and isinstance(v.func, ast.Attribute) and v.func.attr in ('pop', 'get') and v.args and \
                    isinstance(v.args[0], ast.Constant) and v.args[0].value == MODE_OPTION:
                optvars.add(s.targets[0].id)
            elif isinstance(v, ast.Subscript) and isinstance(v.slice, ast.Constant) and v.slice.value == MODE_OPTION:
                optvars.add(s.targets[0].id)
    if not optvars:
        raise AnalysisError('%s: the local holding the %s option was not found' % (BINDER, MODE_OPTION))

    for c in calls:
        a0, a1 = argn(c, 'pattern', 0), argn(c, 'mode', 1)
        if a0 is None or a1 is None:
            raise AnalysisError('%s: arguments of %s not found' % (BINDER, short(c, 40)))
        cst = stmt_of(mod, c)
        # the route being bound: the parameter whose pattern is compiled
        owners = set()
        for leaf, links in leaves(a0, cst):
            for x in ast.walk(leaf):
                if isinstance(x, ast.Attribute) and isinstance(x.value, ast.Name) and x.value.id in params and x.value.id != me and \
                        not _stores(bi.node, x.value.id):
                    owners.add(x.value.id)
        if len(owners) != 1:
            raise AnalysisError('%s: cannot tell which parameter is the route whose pattern is compiled (%s)' % (BINDER, short(a0, 40)))
        rp = sorted(owners)[0]
        bad, n_ok = [], 0
        for leaf, sts in leaves(a1, cst):
            if not isinstance(leaf, ast.Attribute):
                if isinstance(leaf, (ast.Constant, ast.Name)):
                    bad.append((leaf, sts, 'the mode is %s, not a mode declared by an object of this binding' % short(leaf, 30)))
                    continue
                raise AnalysisError('%s: where the mode %s comes from cannot be followed' % (BINDER, short(leaf, 40)))
            for recv, rsts in leaves(leaf.value, sts[-1][0] if sts else cst, sts):
                cs = link_conds(rsts)
                inherit = any(implies_present(cs, o) for o in optvars)
                own = any(implies_absent(cs, o) for o in optvars)
                direct = isinstance(recv, ast.Name) and recv.id in params and recv.id != me and not _stores(bi.node, recv.id)
                if not direct:
                    bad.append((leaf, rsts, 'the mode is read off %s -- not one of the objects this binding is made of (the route being bound: %s)' % (short(recv, 40), rp)))
                elif own and not inherit and recv.id != rp:
                    bad.append((leaf, rsts, 'without %s the mode is read off %s, not off %s, the route whose pattern is compiled' % (MODE_OPTION, recv.id, rp)))
                elif inherit and not own and recv.id == rp:
                    bad.append((leaf, rsts, 'with %s the mode is read off the route %s itself, the application\'s mode is not inherited' % (MODE_OPTION, rp)))
                elif inherit == own:
                    bad.append((leaf, rsts, 'the mode %s.%s is chosen regardless of %s' % (recv.id, leaf.attr, MODE_OPTION)))
                else:
                    n_ok += 1
        ok = not bad and n_ok >= 2
        rep.check('R05.i', fkey(bi, 'mode compiled for is the mode of this binding'), ok,
                  'the mode handed to the pattern compiler is the application\'s with %s, else the one of %s, the route being bound' % (MODE_OPTION, rp) if ok else
                  (bad[0][2] if bad else 'the two sources of the mode (application / route being bound) were not both found') +
                  ': on a re-bind the pattern is compiled for a mode that is not the effective mode of the route it came from', mod, bad[0][0] if bad else c)


# ---- R05.f ------------------------------------------------------------------------------------------

def _rule_f(rep, pats, seg):
    route = rep.repo.mod(ROUTE)
    for op_ in sorted(DOC_QUANT):
        for pname, p in sorted(pats.items()):
            for sep in ('/+', '/'):
                try:
                    got = seg.format(name='x', sep=sep, pattern=p, arity=op_)
                except (KeyError, IndexError, ValueError) as e:
                    raise AnalysisError('_SEG_TMPL cannot be instantiated with name/sep/pattern/arity: %s' % e)
                spec = '(?:(?:%s)(?:%s))%s' % (sep, p, DOC_QUANT[op_])
                a, w1 = regexq.included(got, spec)
                b_, w2 = regexq.included(spec, got)
                ok = a and b_
                rep.check('R05.f', '%s::segment %r %s sep=%r' % (ROUTE, op_, pname, sep), ok,
                          'segment for operator %r = (sep value)%s exactly' % (op_, DOC_QUANT[op_] or '{1}') if ok else
                          'the segment generated for operator %r / %s / sep %r differs from (sep value)%s: witness %r' %
                          (op_, pname, sep, DOC_QUANT[op_], w1 if not a else w2), route)
    rep.floor('R05.f', 24)


def run(rep):
    rep.decide('R05.a type tables and pattern constants; R05.b operator tables vs quantifiers; R05.c five rejections; '
               'R05.d anchoring / separators / no-raise matching; R05.e converter shapes; R05.f segment structure (automata); '
               'R05.g construction of the joined list of segments and of the converter map; R05.h the mapping a match returns')
    rep.decline('pattern x path matching semantics as a whole (language of a regex assembled at run time); greedy '
                'backtracking between adjacent bindings; conversion values')
    rep.assume('re._parser gives the syntax tree the re module compiles')
    rep.rule('R05.a', 'table agreement + regex-AST queries + automata inclusion on the type pattern constants')
    rep.rule('R05.b', 'operator tables agree with the quantifier each operator becomes')
    rep.rule('R05.c', 'guarded raise InvalidPattern for each documented defect; Route.__init__ compiles first')
    rep.rule('R05.d', "'^'...'$', separators per mode, handlers in match_path")
    rep.rule('R05.e', 'build_converter branches')
    rep.rule('R05.f', 'language equality of the instantiated segment template with an independent specification')
    rep.rule('R05.g', 'construction of the joined list: fresh per call, one element per literal part, binding segments glued, trailing trim per mode')
    rep.rule('R05.h', 'match_path: result[name] = converter(group name) for every converter; that mapping is returned')
    rep.rule('R05.i', 'provenance of the inherit_slashes option on its way to BoundRoute: read from a declaration wherever it is handed on; provenance of the '
                      'mode itself: read off the application (inherit) or off the route being bound, whose pattern is compiled')
    rep.repo.mod(ROUTE)          # anchor module: its absence is an analysis error of the whole property

    tt = _guarded(rep, _type_tables, rep)
    convs, pats = tt if tt is not None else (None, None)
    tabs = _guarded(rep, _operator_tables, rep)
    R = _guarded(rep, _roles, rep)
    if R is not None and tabs is not None:
        _guarded(rep, _rule_b, rep, R, tabs)
    if R is not None:
        _guarded(rep, _rule_c, rep, R)
        _guarded(rep, _rule_d_compiled, rep, R)
    _guarded(rep, _rule_d_matching, rep)
    if not rep.gaps:
        rep.floor('R05.d', 10)
    _guarded(rep, _rule_e_converters, rep)
    if R is not None and pats is not None:
        _guarded(rep, _rule_e_bindings, rep, R, convs, pats)
    if not rep.gaps:
        rep.floor('R05.e', 13)
    if pats is not None and tabs is not None:
        _guarded(rep, _rule_f, rep, pats, tabs[2])
    if R is not None:
        _guarded(rep, _rule_g_segments, rep, R)
    _guarded(rep, _rule_h_result, rep)
    _guarded(rep, _rule_i_mode_option, rep)
    _guarded(rep, _rule_i_mode_provenance, rep)
