"""C20, "for a standard Python traceback ... the page additionally names that exception type and message": the walks of
the traceback parser over the lines of the text.

The exception type and message reach the page only through the object the parser *returns*; the frames are collected
by the same call, under the same catch-all of create_app.  An exception anywhere in the parser therefore discards type
and message together with the frames, and the page silently falls back to the unparsed form.  Every traceback has a
frame section, so a walk over its lines that reads past the end of the list loses the exception line as well.

  R20.m  In the functions that run under the parser call (from_string, to_dict, __init__ and the functions of the tree
         they call outside a handler that contains IndexError), an element read ``S[i + c]`` whose position is the
         counter ``i`` of a walk over ``S`` itself -- ``for i in range([a,] len(S) [- k] [, s])``,
         ``for i, x in enumerate(S [, a])`` (also over ``S[a:]`` / ``S[:-m]``), a comprehension of those forms, or a
         ``while`` loop that steps ``i`` by a constant ``s`` -- must not lie beyond the end of ``S`` *in the last step of
         the walk whatever the length of the list is*.  With ``i - len(S) <= u`` the strongest bound the loop and the
         path conditions at the read give (CFG conditions of the statement, the tests of enclosing conditional
         expressions / ``and`` / ``or`` / comprehension filters, flags followed to the comparison they hold; ``!=``
         against the bound tightens it), the read is
           - in bounds for every length when ``c <= -1 - u``: discharged;
           - beyond the end at the largest position the walk admits, for *every* length, when ``c >= s - 1 - u`` (a
             look-ahead of at least the walk's own stride with nothing that bounds it: ``lines[i + 1]`` under
             ``enumerate(lines)``, ``lines[i + 2]`` under a stride of 2, a guard that is off by one): VIOLATION --
             whenever the last element takes that branch the parser raises;
           - in between (``lines[i + 1]`` under a stride of 2): the read stays inside the record of ``s`` lines the
             step owns and is out of range only when the last record is cut short.  That is *not judged*: the pairing
             loop of the pinned tree has exactly this form, and does fail for a frame section with an odd number of
             lines (recorded as a finding, see the note the rule prints); "every index read is entailed in bounds" is
             not a property of the tree, "no read reaches beyond the step's own record unguarded" is.
         A read inside a ``try`` of the same function whose handler catches IndexError and does not re-raise is contained
         and not judged; slices never raise.  A counter the loop body rebinds, a list the loop resizes, a bound that is
         not ``len`` of the list read: not judged (a note).  Intervals over ``i - len(S)`` are an abstract domain; nothing
         is evaluated.
"""
import ast

from ..core import norm, short
from ..astutil import assigned_value, walk_body, names_stored, handler_catches
from ..cfg import expand_conds, enclosing_tries
from .common import fkey, conds, handler_reraises_always

RULE = 'R20.m'
# The pinned tree pairs File / source lines with a stride of 2 and reads ``frame_lines[pair_idx + 1]`` unguarded: in range
# when the frame lines come in whole records, IndexError when the last record is cut short.  As long as the tree is like
# that, "every look-ahead is entailed in bounds" is not a property of it and only a look-ahead *beyond* the step's own
# record is judged.  Once the tree guards that read, set this to False: the rule then demands entailment for every
# look-ahead of a walk (the in-between case of the module docstring becomes a violation as well).
WHOLE_RECORDS_ASSUMED = True
_RESIZERS_LEN = ('pop', 'append', 'insert', 'remove', 'clear', 'extend')


# ------------------------------------------------------------------------------------------------ linear forms
# a form is a dict: '1' -> constant, ('v', name) -> coefficient of a local that is not followed further,
# ('l', name) -> coefficient of len(<list name>)
def _add(a, b, sg=1):
    out = dict(a)
    for k, v in b.items():
        out[k] = out.get(k, 0) + sg * v
    return dict((k, v) for k, v in out.items() if v != 0 or k == '1')


def _int_const(e):
    if isinstance(e, ast.Constant) and isinstance(e.value, int) and not isinstance(e.value, bool):
        return e.value
    if isinstance(e, ast.UnaryOp) and isinstance(e.op, ast.USub):
        v = _int_const(e.operand)
        return -v if v is not None else None
    return None


def _once(fi, name):
    """The expression a local holds when it is bound exactly once, by a plain assignment, and is not a parameter."""
    a = fi.node.args
    params = set(x.arg for x in a.posonlyargs + a.args + a.kwonlyargs)
    if a.vararg:
        params.add(a.vararg.arg)
    if a.kwarg:
        params.add(a.kwarg.arg)
    if name in params:
        return None
    b = assigned_value(fi.node, name)
    if len(b) == 1 and b[0][2] is None and isinstance(b[0][0], (ast.Assign, ast.AnnAssign)):
        return b[0][1]
    return None


def _list_name(fi, e):
    """Name of the local list an expression denotes (pure aliases ``a = b`` followed), else None."""
    seen = set()
    while isinstance(e, ast.Name) and e.id not in seen:
        seen.add(e.id)
        v = _once(fi, e.id)
        if isinstance(v, ast.Name):
            e = v
        else:
            return e.id
    return None


def _binds(node, name):
    """Does this node (re)bind the local ``name``?"""
    if isinstance(node, ast.Assign):
        return any(name in names_stored(t) for t in node.targets)
    if isinstance(node, (ast.AugAssign, ast.AnnAssign, ast.For, ast.AsyncFor, ast.comprehension)):
        return name in names_stored(node.target)
    if isinstance(node, ast.NamedExpr):
        return node.target.id == name
    if isinstance(node, (ast.With, ast.AsyncWith)):
        return any(it.optional_vars is not None and name in names_stored(it.optional_vars) for it in node.items)
    if isinstance(node, ast.ExceptHandler):
        return node.name == name
    return False


def _resized(fi, name, within=None):
    """Is the list ``name`` given another length -- anywhere in the function, or (also: another object) inside the
    statements / expression ``within``?"""
    nodes = list(ast.walk(within)) if within is not None else list(walk_body(fi.node))
    for n in nodes:
        if isinstance(n, ast.Call) and isinstance(n.func, ast.Attribute) and n.func.attr in _RESIZERS_LEN and \
                _list_name(fi, n.func.value) == name:
            return True
        if isinstance(n, ast.Delete) and any(isinstance(t, ast.Subscript) and _list_name(fi, t.value) == name for t in n.targets):
            return True
        if isinstance(n, ast.AugAssign) and _list_name(fi, n.target) == name:
            return True
        if isinstance(n, ast.Assign) and any(isinstance(t, ast.Subscript) and isinstance(t.slice, ast.Slice) and
                                             _list_name(fi, t.value) == name for t in n.targets):
            return True
        if within is not None and _binds(n, name):
            return True
    return False


def _lin(fi, e, depth=0, trail=None):
    """Linear form of an integer expression made of locals, integer constants, ``len(<list>)``, ``+``, ``-`` and unary
    minus; locals bound once are replaced by what they hold (``trail`` collects their names).  None for anything else."""
    if depth > 8 or e is None:
        return None
    k = _int_const(e)
    if k is not None:
        return {'1': k}
    if isinstance(e, ast.Name):
        v = _once(fi, e.id)
        if v is not None:
            f = _lin(fi, v, depth + 1, trail)
            # (a length taken once and for all says nothing about a list that is resized somewhere)
            if f is not None and not any(k != '1' and k[0] == 'l' and _resized(fi, k[1]) for k in f):
                if trail is not None:
                    trail.append(e.id)
                return f
        return {'1': 0, ('v', e.id): 1}
    if isinstance(e, ast.Call) and isinstance(e.func, ast.Name) and e.func.id == 'len' and len(e.args) == 1 and not e.keywords:
        s = _list_name(fi, e.args[0])
        return {'1': 0, ('l', s): 1} if s is not None else None
    if isinstance(e, ast.UnaryOp) and isinstance(e.op, (ast.USub, ast.UAdd)):
        f = _lin(fi, e.operand, depth + 1, trail)
        if f is None:
            return None
        return f if isinstance(e.op, ast.UAdd) else _add({'1': 0}, f, -1)
    if isinstance(e, ast.BinOp) and isinstance(e.op, (ast.Add, ast.Sub)):
        a, b = _lin(fi, e.left, depth + 1, trail), _lin(fi, e.right, depth + 1, trail)
        if a is None or b is None:
            return None
        return _add(a, b, 1 if isinstance(e.op, ast.Add) else -1)
    return None


_NEG = {ast.Lt: ast.GtE, ast.LtE: ast.Gt, ast.Gt: ast.LtE, ast.GtE: ast.Lt, ast.Eq: ast.NotEq, ast.NotEq: ast.Eq}


def _fact(form, op, var, seq):
    """What ``form <op> 0`` says about ``t = var - len(seq)``: ('le', m) for ``t <= m``, ('ne', m) for ``t != m``."""
    keys = set(k for k in form if k != '1' and form[k] != 0)
    if keys != {('v', var), ('l', seq)}:
        return None
    a, b, k = form[('v', var)], form[('l', seq)], form.get('1', 0)
    if (a, b) == (1, -1):           # t + k <op> 0
        if op is ast.Lt:
            return ('le', -k - 1)
        if op in (ast.LtE, ast.Eq):
            return ('le', -k)
        if op is ast.NotEq:
            return ('ne', -k)
    elif (a, b) == (-1, 1):         # -t + k <op> 0
        if op is ast.Gt:
            return ('le', k - 1)
        if op in (ast.GtE, ast.Eq):
            return ('le', k)
        if op is ast.NotEq:
            return ('ne', k)
    return None


def _facts_of_test(fi, test, pol, var, seq, depth=0):
    out = []
    while isinstance(test, ast.UnaryOp) and isinstance(test.op, ast.Not):
        test, pol = test.operand, not pol
    if isinstance(test, ast.Name) and depth < 4:
        v = _once(fi, test.id)              # a flag: is_last = idx == len(lines) - 1
        if v is not None:
            for t, p in expand_conds([(v, pol)]):
                out.extend(_facts_of_test(fi, t, p, var, seq, depth + 1))
        return out
    if not isinstance(test, ast.Compare):
        return out
    if len(test.ops) > 1 and not pol:
        return out                          # not (a < b < c): nothing certain about either pair
    left = test.left
    for op, right in zip(test.ops, test.comparators):
        o = type(op) if pol else _NEG.get(type(op))
        a, b = _lin(fi, left), _lin(fi, right)
        left = right
        if o is None or o not in _NEG or a is None or b is None:
            continue
        f = _fact(_add(a, b, -1), o, var, seq)
        if f is not None:
            out.append(f)
    return out


# ------------------------------------------------------------------------------------------------ the walk
class _Walk(object):
    """The loop that owns the counter: where it is, the facts it gives about ``var - len(seq)``, its stride."""
    def __init__(self, node, facts, stride, why, body):
        self.node, self.facts, self.stride, self.why, self.body = node, facts, stride, why, body


def _sliced_len(fi, e):
    """(list name, n) when the expression is a list of ``len(name) - n`` elements at most: the list itself,
    ``name[a:]``, ``name[:-m]``, ``name[a:-m]`` with constant a >= 0, m > 0."""
    while isinstance(e, ast.Call) and isinstance(e.func, ast.Name) and e.func.id in ('list', 'tuple', 'iter') and len(e.args) == 1 \
            and not e.keywords:
        e = e.args[0]
    s = _list_name(fi, e)
    if s is not None:
        return s, 0
    if isinstance(e, ast.Subscript) and isinstance(e.slice, ast.Slice) and e.slice.step is None:
        s = _list_name(fi, e.value)
        lo = 0 if e.slice.lower is None else _int_const(e.slice.lower)
        hi = 0 if e.slice.upper is None else _int_const(e.slice.upper)
        if s is not None and lo is not None and hi is not None and lo >= 0 and hi <= 0:
            return s, lo - hi
    return None


def _counter_of_target(target, it):
    """Name of the position counter a for-target binds for the iterable ``it`` (range -> the target, enumerate -> its
    first element), else None."""
    if isinstance(it, ast.Call) and isinstance(it.func, ast.Name):
        if it.func.id == 'range' and isinstance(target, ast.Name):
            return target.id
        if it.func.id == 'enumerate' and isinstance(target, (ast.Tuple, ast.List)) and len(target.elts) == 2 and \
                isinstance(target.elts[0], ast.Name):
            return target.elts[0].id
    return None


def _for_walk(fi, node, target, it, var, seq, body):
    """Facts of ``for <target> in <it>`` about ``var - len(seq)``; None when the iterable is not of a known form."""
    if not (isinstance(it, ast.Call) and isinstance(it.func, ast.Name)):
        return None
    if it.func.id == 'range' and not it.keywords and 1 <= len(it.args) <= 3:
        stop = it.args[0] if len(it.args) == 1 else it.args[1]
        step = 1 if len(it.args) < 3 else _int_const(it.args[2])
        if step is not None and step < 0 and len(it.args) == 3:
            # a descending walk: its largest position is its first one, exactly (no residue of the stride to allow for)
            f = _lin(fi, it.args[0])
            g = _fact(_add({'1': 0, ('v', var): 1}, f, -1), ast.LtE, var, seq) if f is not None else None
            return _Walk(node, [g] if g is not None else [], 1, short(it, 50), body)
        if step is None or step <= 0:
            return None
        f = _lin(fi, stop)
        facts = []
        if f is not None:
            g = _fact(_add({'1': 0, ('v', var): 1}, f, -1), ast.Lt, var, seq)
            if g is not None:
                facts.append(g)
        return _Walk(node, facts, step, short(it, 50), body)
    if it.func.id == 'enumerate' and 1 <= len(it.args) + len(it.keywords) <= 2 and it.args:
        start = it.args[1] if len(it.args) == 2 else (it.keywords[0].value if it.keywords and it.keywords[0].arg == 'start' else None)
        if it.keywords and it.keywords[0].arg != 'start':
            return None
        a = 0 if start is None else _int_const(start)
        if a is None:
            return None
        sl = _sliced_len(fi, it.args[0])
        facts = []
        if sl is not None and sl[0] == seq:
            facts.append(('le', -1 - sl[1] + a))       # var <= len(seq) - n - 1 + start
        return _Walk(node, facts, 1, short(it, 50), body)
    return None


def _while_stride(fi, loop, var):
    """Constant step of a ``while`` loop's counter: every store to it inside the loop is ``var += s`` / ``var = var + s``
    with the same positive constant; None otherwise."""
    steps = set()
    for n in ast.walk(loop):
        if isinstance(n, ast.AugAssign) and isinstance(n.target, ast.Name) and n.target.id == var:
            k = _int_const(n.value)
            steps.add(k if isinstance(n.op, ast.Add) and k is not None and k > 0 else None)
        elif isinstance(n, ast.Assign) and any(var in names_stored(t) for t in n.targets):
            f = _lin(fi, n.value) if len(n.targets) == 1 and isinstance(n.targets[0], ast.Name) else None
            if f is not None and set(k for k in f if k != '1' and f[k]) == {('v', var)} and f[('v', var)] == 1 and f.get('1', 0) > 0:
                steps.add(f['1'])
            else:
                steps.add(None)
        elif isinstance(n, (ast.For, ast.comprehension)) and var in names_stored(n.target):
            steps.add(None)
        elif isinstance(n, ast.NamedExpr) and n.target.id == var:
            steps.add(None)
    return steps.pop() if len(steps) == 1 and None not in steps else None


def _owning_walk(fi, read, var, seq):
    """The innermost loop around ``read`` that moves ``var``: ('walk', _Walk) | ('unknown', why) | None (no loop does)."""
    prev, cur = read, fi.mod.parents.get(read)
    while cur is not None and cur is not fi.node:
        if isinstance(cur, (ast.For, ast.AsyncFor)) and prev not in cur.orelse and prev is not cur.iter:
            if var in names_stored(cur.target):
                if _counter_of_target(cur.target, cur.iter) != var:
                    return 'unknown', '%s is bound by "for %s in %s"' % (var, norm(cur.target), short(cur.iter, 40))
                if any(_binds(n, var) for s in cur.body for n in ast.walk(s)):
                    return 'unknown', 'the loop body rebinds the counter %s' % var
                w = _for_walk(fi, cur, cur.target, cur.iter, var, seq, cur.body)
                return ('walk', w) if w is not None else ('unknown', 'the iterable %s is not a range / enumerate of a known form' % short(cur.iter, 40))
        elif isinstance(cur, (ast.ListComp, ast.SetComp, ast.GeneratorExp, ast.DictComp)):
            for g in cur.generators:
                if var in names_stored(g.target):
                    if _counter_of_target(g.target, g.iter) != var:
                        return 'unknown', '%s is bound by "for %s in %s"' % (var, norm(g.target), short(g.iter, 40))
                    w = _for_walk(fi, cur, g.target, g.iter, var, seq, [cur])
                    return ('walk', w) if w is not None else ('unknown', 'the iterable %s is not a range / enumerate of a known form' % short(g.iter, 40))
        elif isinstance(cur, ast.While) and prev not in cur.orelse:
            if any(_binds(n, var) for s in cur.body for n in ast.walk(s)):
                s = _while_stride(fi, cur, var)
                return 'walk', _Walk(cur, [], s, 'while %s' % short(cur.test, 40), cur.body)
        elif isinstance(cur, (ast.FunctionDef, ast.AsyncFunctionDef, ast.Lambda, ast.ClassDef)):
            return None
        prev, cur = cur, fi.mod.parents.get(cur)
    return None


def _expression_conds(fi, read):
    """Tests known true / false at ``read`` from the expression around it: conditional expressions, ``and`` / ``or``
    operands to its left, comprehension filters."""
    out = []
    prev, cur = read, fi.mod.parents.get(read)
    while cur is not None and not isinstance(cur, ast.stmt):
        if isinstance(cur, ast.IfExp):
            if prev is cur.body:
                out.append((cur.test, True))
            elif prev is cur.orelse:
                out.append((cur.test, False))
        elif isinstance(cur, ast.BoolOp) and prev in cur.values:
            for v in cur.values[:cur.values.index(prev)]:
                out.append((v, isinstance(cur.op, ast.And)))
        elif isinstance(cur, (ast.ListComp, ast.SetComp, ast.GeneratorExp, ast.DictComp)):
            inside_gen = None
            for gi, g in enumerate(cur.generators):
                if prev is g:
                    inside_gen = gi
            if inside_gen is None:           # the element expression: every filter has passed
                for g in cur.generators:
                    out.extend((t, True) for t in g.ifs)
            else:
                for g in cur.generators[:inside_gen]:
                    out.extend((t, True) for t in g.ifs)
        elif isinstance(cur, ast.comprehension) and prev in cur.ifs:
            out.extend((t, True) for t in cur.ifs[:cur.ifs.index(prev)])
        elif isinstance(cur, ast.Lambda):
            return []
        prev, cur = cur, fi.mod.parents.get(cur)
    return out


def _contained(fi, node):
    """The innermost handler of an enclosing try body of this function that catches IndexError and does not re-raise."""
    for tr, part in enclosing_tries(fi.mod, node, fi.node):
        if part != 'body':
            continue
        for h in tr.handlers:
            if handler_catches(h, 'IndexError'):
                return None if handler_reraises_always(fi, h) else h
    cur = node
    while cur is not None and cur is not fi.node:
        par = fi.mod.parents.get(cur)
        if isinstance(par, ast.With) and cur in par.body:
            for it in par.items:
                ce = it.context_expr
                if isinstance(ce, ast.Call) and isinstance(ce.func, (ast.Name, ast.Attribute)) and \
                        norm(ce.func).split('.')[-1] == 'suppress' and \
                        any(norm(a) in ('IndexError', 'LookupError', 'Exception', 'BaseException') for a in ce.args):
                    return par
        cur = par
    return None


# ------------------------------------------------------------------------------------------------ the functions
def _nested_or_callee(repo, fi, c, callee_of):
    hit = callee_of(repo, fi, c)
    if hit is not None:
        return hit[0]
    if isinstance(c.func, ast.Name) and not assigned_value(fi.node, c.func.id):
        return fi.mod.functions.get('%s.%s' % (fi.qualname, c.func.id))
    return None


def parser_functions(repo, roots, callee_of):
    """The functions that run under the parser call: the roots and, transitively, the functions of the tree they call
    outside a handler that contains IndexError."""
    out, todo = [], list(roots)
    while todo:
        fi = todo.pop(0)
        if any(fi.node is g.node for g in out):
            continue
        out.append(fi)
        if len(out) > 40:
            break
        for c in walk_body(fi.node):
            if isinstance(c, ast.Call) and _contained(fi, c) is None:
                g = _nested_or_callee(repo, fi, c, callee_of)
                if g is not None and isinstance(g.node, (ast.FunctionDef, ast.AsyncFunctionDef)):
                    todo.append(g)
    return out


def _judge(rep, fi, read, counted):
    """One element read ``S[<index>]``; ``counted`` collects the look-ahead reads that were examined."""
    mod = fi.mod
    seq = _list_name(fi, read.value)
    if seq is None:
        return
    trail = []
    form = _lin(fi, read.slice, trail=trail)
    if form is None:
        return
    vs = [k[1] for k in form if k != '1' and k[0] == 'v' and form[k] != 0]
    ls = [k for k in form if k != '1' and k[0] == 'l' and form[k] != 0]
    if len(vs) != 1 or ls or form[('v', vs[0])] != 1:
        return
    var, c = vs[0], form.get('1', 0)
    own = _owning_walk(fi, read, var, seq)
    if own is None:
        return                              # not the counter of a loop: no walk
    key = fkey(fi, norm(read))
    if c < 0:
        return                              # looking back wraps around, it does not leave the list
    if own[0] == 'unknown':
        if c >= 1:
            rep.notes.append('%s declined: %s in %s: %s' % (RULE, short(read, 40), fi.qualname, own[1]))
        return
    walk = own[1]
    if _contained(fi, read) is not None:
        if c >= 1:
            counted.append(read)
            rep.ok(RULE, key, 'a failing look-ahead %s is contained by a handler for IndexError inside %s' % (short(read, 40), fi.qualname),
                   mod, read)
        return
    if any(_resized(fi, seq, within=s) for s in walk.body if isinstance(s, ast.AST)):
        if c >= 1:
            rep.notes.append('%s declined: %s in %s: the loop changes the list %s itself' % (RULE, short(read, 40), fi.qualname, seq))
        return
    if isinstance(walk.node, ast.While) and trail:
        if c >= 1:
            rep.notes.append('%s declined: %s in %s: the position is held by %s while the counter moves' % (RULE, short(read, 40), fi.qualname, trail[-1]))
        return
    facts = list(walk.facts)
    cs = list(conds(fi, read)) + expand_conds(_expression_conds(fi, read))
    for t, p in cs:
        facts.extend(_facts_of_test(fi, t, p, var, seq))
    les = [m for k, m in facts if k == 'le']
    if not les:
        # (in a while loop the counter may have been stepped between the test and the read: then even S[i] looks ahead)
        if c >= 1 or isinstance(walk.node, ast.While):
            rep.notes.append('%s declined: %s in %s: the walk (%s) is not bounded by the length of %s' % (RULE, short(read, 40), fi.qualname, walk.why, seq))
        return
    u = min(les)
    nes = set(m for k, m in facts if k == 'ne')
    while u in nes:
        u -= 1
    if c <= -1 - u:
        if c >= 1:
            counted.append(read)
            rep.ok(RULE, key, '%s is in bounds for every length of %s: %s - len(%s) <= %d where it is read (%s)'
                   % (short(read, 40), seq, var, seq, u, walk.why), mod, read)
        return
    counted.append(read)
    if walk.stride is None:
        rep.notes.append('%s declined: %s in %s: the step of the counter %s is not a constant' % (RULE, short(read, 40), fi.qualname, var))
        return
    if c >= walk.stride - 1 - u:
        rep.fail(RULE, key,
                 '%s reads %d past the counter of a walk that advances by %d (%s; %s - len(%s) <= %d is all that holds where it is read): at the '
                 'largest position the walk reaches this lies beyond the end of %s whatever its length, so the parser raises IndexError whenever '
                 'the last element takes this branch (for the frame lines: an innermost frame without a source line, as python -c or exec\'d '
                 'code gives).  The catch-all of create_app swallows it and the page falls back to the unparsed form: a standard traceback '
                 'is shown without its exception type and message' % (short(read, 40), c, walk.stride, walk.why, var, seq, u, seq), mod, read)
        return
    if not WHOLE_RECORDS_ASSUMED:
        rep.fail(RULE, key, '%s is out of range when the last record of %s is cut short (len(%s) not a multiple of %d; %s): the parser raises '
                 'IndexError and a standard traceback is shown without its exception type and message'
                 % (short(read, 40), seq, seq, walk.stride, walk.why), mod, read)
        return
    rep.ok(RULE, key, '%s stays inside the record of %d lines each step of the walk owns (%s)' % (short(read, 40), walk.stride, walk.why), mod, read)
    rep.notes.append('%s not judged: %s in %s is out of range when the last record of %s is cut short (len(%s) not a multiple of %d): the '
                     'pinned tree has this form' % (RULE, short(read, 40), fi.qualname, seq, seq, walk.stride))


def walks_stay_in_the_list(rep, fs):
    from .c20 import _callee_of, PARSER_CLASS
    repo, flaw = fs.repo, fs.flaw
    rep.rule(RULE, 'the parser\'s walks over the lines read no position that lies beyond the list in the last step whatever its length')
    roots = []
    for name in ('from_string', 'to_dict', '__init__'):
        try:
            roots.append(flaw.func('%s.%s' % (PARSER_CLASS, name)))
        except Exception:
            if name == 'from_string':
                raise
    funcs = parser_functions(repo, roots, _callee_of)
    counted = []
    for fi in funcs:
        for n in walk_body(fi.node):
            if isinstance(n, ast.Subscript) and isinstance(n.ctx, ast.Load) and not isinstance(n.slice, (ast.Slice, ast.Tuple)):
                _judge(rep, fi, n, counted)
    bad = [o for o in rep.obligations if o.rule == RULE and not o.ok]
    if not bad:
        rep.ok(RULE, fkey(roots[0], 'walks'),
               'no walk of the parser (%s) reads beyond its own step unguarded (%d look-ahead read(s) examined)'
               % (', '.join(f.qualname for f in funcs), len(counted)), roots[0].mod, roots[0].node)
