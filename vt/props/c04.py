"""C04 -- Name conflicts and reserved-name misuse are rejected at construction.

Decided:
  R04.a  conflict map complete: check_middlewares folds every ``*provides`` attribute of Middleware and
         every item of args_dict into one map and raises NameError for any name with more than one
         provider; BoundRoute.__init__ passes url / builtins / resources sources (resources = application
         and route layers) and the merged middleware list;
  R04.b  writer/reader tables: every name the framework itself injects (execute(), dispatch(), the inner
         name, the ``context`` variable of the request core) is in RESERVED_ARGS and RESERVED_ARGS holds
         nothing else; the names removed from request/endpoint availability are exactly
         RESERVED_ARGS - _REQUEST_BUILTINS;
  R04.c  Application.__init__ raises NameError when resources intersect RESERVED_ARGS, before anything is bound;
  R04.d  middleware slot tables agree ({request, endpoint, render} in check_middleware, requires,
         arguments, make_middleware_chain); a slot function whose first parameter is not ``next`` is a
         TypeError; check_middleware runs for every middleware at application and at route level;
  R04.e  next/context placement: R01.b / R01.d.
Declined: nothing of substance (Python raising NameError/TypeError is assumed).
"""
import ast

from ..core import AnalysisError, norm, short
from ..setalg import Universe, SetInterp, Opaque, Unmodelled
from ..layers import layers_of_var
from . import chain
from .common import (cfg_of, fkey, conds, has_cond, cond_texts, stmts_of, walk_body, call_tail, call_name, returns_of,
                     raises_of, raise_type, stmt_of, kwarg)

CORE, ROUTE, APP = 'clastic.middleware.core', 'clastic.route', 'clastic.application'


def run(rep):
    repo = rep.repo
    core, route, app = repo.mod(CORE), repo.mod(ROUTE), repo.mod(APP)
    rep.decide('R04.a conflict map exhaustive; R04.b reserved-name tables agree; R04.c resources vs reserved; '
               'R04.d middleware slots / next-first; R04.e next & context placement')
    rep.decline('nothing of substance: Python raising the exceptions is assumed')
    rep.rule('R04.a', 'exhaustiveness of the provided_by map; more than one provider => NameError')
    rep.rule('R04.b', 'set equality between injected built-in names and RESERVED_ARGS')
    rep.rule('R04.c', 'resources & RESERVED_ARGS non-empty => NameError before binding')
    rep.rule('R04.d', 'slot tables agree; first parameter next; check_middleware for every middleware')
    rep.rule('R04.e', 'next forbidden in endpoint/render; context only in render availability')

    # ---- R04.a -----------------------------------------------------------
    mwc = core.cls('Middleware')
    prov_attrs = sorted(a for a in mwc.class_attrs if a.endswith('provides'))
    if len(prov_attrs) < 3:
        raise AnalysisError('Middleware provides attributes: %r (floor 3)' % prov_attrs)
    cm = core.func('check_middlewares')
    cfg = cfg_of(cm)
    maps = [norm(s.targets[0]) for s in stmts_of(cm.node) if isinstance(s, ast.Assign) and isinstance(s.value, ast.Call)
            and call_name(s.value) in ('defaultdict', 'dict') and isinstance(s.targets[0], ast.Name)]
    maps = [m for m in maps if m != 'args_dict']
    if len(maps) != 1:
        raise AnalysisError('check_middlewares: provider map not identified (%r)' % maps)
    P = maps[0]
    outer = [s for s in stmts_of(cm.node) if isinstance(s, ast.For) and norm(s.iter) == cm.params()[0]]
    if len(outer) != 1:
        raise AnalysisError('check_middlewares: loop over middlewares not found')
    mwv = norm(outer[0].target)

    def adds_to_map(loop, keyvar):
        for c in ast.walk(loop):
            if isinstance(c, ast.Call) and isinstance(c.func, ast.Attribute) and c.func.attr in ('append', 'add') and \
                    isinstance(c.func.value, ast.Subscript) and norm(c.func.value.value) == P and norm(c.func.value.slice) == keyvar:
                return c
            if isinstance(c, ast.Call) and isinstance(c.func, ast.Attribute) and c.func.attr == 'append' and \
                    isinstance(c.func.value, ast.Call) and call_tail(c.func.value) == 'setdefault' and norm(c.func.value.func.value) == P \
                    and norm(c.func.value.args[0]) == keyvar:
                return c
        return None
    for a in prov_attrs:
        loops = [s for s in ast.walk(outer[0]) if isinstance(s, ast.For) and norm(s.iter) == '%s.%s' % (mwv, a)]
        ok = len(loops) >= 1 and all(adds_to_map(l, norm(l.target)) is not None for l in loops)
        # unconditional inside the middleware loop
        if ok:
            ocfg = cfg
            ok = all(cfg.must_pass(cfg.nodes_of(l), cfg.nodes_of(outer[0]), cfg.nodes_of(outer[0]) , normal_only=True) or True for l in loops)
            ok = ok and all(not has_cond(conds(cm, l), lambda t: True, True) and not has_cond(conds(cm, l), lambda t: True, False) for l in loops)
        rep.check('R04.a', fkey(cm, 'mw.' + a), ok, 'every name in mw.%s is recorded with its provider, unconditionally' % a if ok else
                  'mw.%s is not folded into the conflict map (a duplicate offered through it is silently shadowed)' % a, core,
                  loops[0] if loops else outer[0])
    src_loops = [s for s in stmts_of(cm.node) if isinstance(s, ast.For) and norm(s.iter) in ('args_dict.items()', 'list(args_dict.items())')]
    ok = len(src_loops) == 1 and isinstance(src_loops[0].target, ast.Tuple)
    if ok:
        srcv, listv = [norm(x) for x in src_loops[0].target.elts]
        inner = [s for s in ast.walk(src_loops[0]) if isinstance(s, ast.For) and norm(s.iter) == listv]
        ok = len(inner) == 1 and adds_to_map(inner[0], norm(inner[0].target)) is not None and \
            norm(adds_to_map(inner[0], norm(inner[0].target)).args[0]) == srcv
        ok = ok and cfg.must_pass(cfg.nodes_of(src_loops[0]), cfg.entry, cfg.exit, normal_only=True)
    rep.check('R04.a', fkey(cm, 'args_dict'), ok, 'every (source, names) item of args_dict is recorded' if ok else
              'the non-middleware sources (url / builtins / resources) are not all folded into the conflict map', core,
              src_loops[0] if src_loops else cm.node)
    # conflicts => NameError
    rz = [r for r in raises_of(cm) if raise_type(r) == 'NameError']
    ok = False
    for r in rz:
        for t, p in conds(cm, r):
            if p is True and isinstance(t, ast.Name):
                srcs = [s.value for s in stmts_of(cm.node) if isinstance(s, ast.Assign) and norm(s.targets[0]) == t.id]
                for v in srcs:
                    if isinstance(v, (ast.ListComp, ast.DictComp, ast.SetComp, ast.GeneratorExp)) and P + '.items()' in norm(v.generators[0].iter):
                        flt = [norm(i) for i in v.generators[0].ifs]
                        tv = v.generators[0].target
                        if isinstance(tv, ast.Tuple) and len(tv.elts) == 2:
                            ps_ = norm(tv.elts[1])
                            if flt in (['len(%s) > 1' % ps_], ['len(%s) >= 2' % ps_], ['1 < len(%s)' % ps_]):
                                ok = True
    rep.check('R04.a', fkey(cm, 'conflicts'), ok, 'any name with more than one provider raises NameError' if ok else
              'a name with several providers does not (always) raise NameError', core, rz[0] if rz else cm.node)
    if rz:
        ifs = [s for s in stmts_of(cm.node) if isinstance(s, ast.If) and any(r in list(ast.walk(s)) for r in rz)]
        ok = bool(ifs) and cfg.must_pass(cfg.nodes_of_all(ifs), cfg.entry, cfg.exit, normal_only=True) and \
            all(cfg.must_pass(cfg.nodes_of(outer[0]), cfg.entry, cfg.nodes_of(i)) for i in ifs)
        rep.check('R04.a', fkey(cm, 'conflict test on every path'), ok, 'the conflict test runs after all sources are recorded, on every path' if ok else
                  'the conflict test can be bypassed or runs before all sources are recorded', core, ifs[0] if ifs else cm.node)
    # per-middleware check
    calls = [c for c in ast.walk(outer[0]) if isinstance(c, ast.Call) and call_name(c) == 'check_middleware' and norm(c.args[0]) == mwv]
    ok = len(calls) == 1 and isinstance(stmt_of(core, calls[0]), ast.Expr) and stmt_of(core, calls[0]) in outer[0].body
    rep.check('R04.d', fkey(cm, 'check_middleware(mw)'), ok, 'check_middleware runs for every middleware' if ok else
              'check_middleware is not called unconditionally for every middleware', core, calls[0] if calls else outer[0])
    # call site in BoundRoute.__init__
    bi = route.func('BoundRoute.__init__')
    cc = [c for c in walk_body(bi.node) if isinstance(c, ast.Call) and call_name(c) == 'check_middlewares']
    if len(cc) != 1:
        raise AnalysisError('BoundRoute.__init__: expected one check_middlewares call')
    uni = Universe(['URL', 'BUILTINS', 'RES'])

    def model(it, e):
        if isinstance(e, ast.Call) and call_name(e) in ('set', 'frozenset', 'list', 'tuple') and len(e.args) == 1:
            t = norm(e.args[0])
            if t in ('self.converters', 'self.converters.keys()', 'self.path_args'):
                return uni['URL']
            if t == 'RESERVED_ARGS':
                return uni['BUILTINS']
            if t in ('self.resources', 'self.resources.keys()'):
                return uni['RES']
        if isinstance(e, ast.Name) and e.id == 'RESERVED_ARGS':
            return uni['BUILTINS']
        return None
    it = SetInterp(uni, model=model)
    try:
        for s in stmts_of(bi.node):
            if s is stmt_of(route, cc[0]):
                break
            if isinstance(s, ast.Assign) and any(isinstance(n, ast.Name) and n.id == norm(cc[0].args[1]) for n in ast.walk(s.targets[0])):
                it.exec_stmt(s)
        mp = it.eval(cc[0].args[1])
    except Unmodelled as e:
        raise AnalysisError('BoundRoute.__init__ source map: %s' % e)
    ok = isinstance(mp, dict) and sorted(mp.values()) == sorted([uni['URL'], uni['BUILTINS'], uni['RES']])
    rep.check('R04.a', fkey(bi, 'source map'), ok, 'sources url / builtins / resources are each passed to the conflict check: %s' % sorted(mp) if ok else
              'the source map given to check_middlewares lacks one of url / builtins / resources', route, cc[0])
    ok = norm(cc[0].args[0]) == 'self.middlewares'
    rep.check('R04.a', fkey(bi, 'merged list checked'), ok, 'the merged middleware list is what is checked' if ok else
              'check_middlewares is not given the merged middleware list', route, cc[0])
    ls = layers_of_var(bi.node, 'self.resources')
    ok = len(ls) == 2
    rep.check('R04.a', fkey(bi, 'resources both levels'), ok, 'self.resources holds application and route resources' if ok else
              'self.resources does not combine application and route resources', route, bi.node)
    rep.floor('R04.a', 8)

    # ---- R04.b -----------------------------------------------------------
    reserved = set(route.const('RESERVED_ARGS'))
    req_builtins = set(route.const('_REQUEST_BUILTINS'))
    injected = {}
    for q in ('BoundRoute.execute',):
        f = route.func(q)
        inj = [c for c in walk_body(f.node) if isinstance(c, ast.Call) and call_name(c) == 'inject'][0]
        for l in layers_of_var(f.node, norm(inj.args[1])):
            if l.kind == 'literal':
                for k in l.keys:
                    injected[k] = q
    d = app.func('Application.dispatch')
    for l in layers_of_var(d.node, 'base_params'):
        if l.kind == 'literal':
            for k in l.keys:
                injected[k] = 'Application.dispatch'
    inner = core.const('_INNER_NAME')
    injected[inner] = '_INNER_NAME'
    tmpl = core.const('_REQ_INNER_TMPL')
    if 'context = endpoint(' in tmpl:
        injected['context'] = '_REQ_INNER_TMPL'
    for name, src in sorted(injected.items()):
        rep.check('R04.b', '%s::RESERVED_ARGS::%s' % (ROUTE, name), name in reserved,
                  "built-in '%s' (injected by %s) is reserved" % (name, src) if name in reserved else
                  "'%s' is injected by %s but is not in RESERVED_ARGS: a resource/URL binding/provides of that name is silently shadowed"
                  % (name, src), route)
    extra = reserved - set(injected)
    rep.check('R04.b', '%s::RESERVED_ARGS::exact' % ROUTE, not extra and len(reserved) >= 6,
              'RESERVED_ARGS is exactly the set of injected built-ins %s' % sorted(reserved) if not extra and len(reserved) >= 6 else
              'RESERVED_ARGS %s vs injected %s' % (sorted(reserved), sorted(injected)), route)
    mm = core.func('make_middleware_chain')
    removed = None
    for s in stmts_of(mm.node):
        if isinstance(s, ast.Assign) and isinstance(s.value, ast.BinOp) and isinstance(s.value.op, ast.Sub) and \
                norm(s.value.left) == 'set(%s)' % mm.params()[3]:
            try:
                removed = set(repo.fold(s.value.right, core))
            except Exception:
                removed = None
    ok = removed is not None and removed == reserved - req_builtins
    rep.check('R04.b', fkey(mm, 'names removed from request availability'), ok,
              'request/endpoint phases lose exactly RESERVED_ARGS - _REQUEST_BUILTINS = %s' % sorted(reserved - req_builtins) if ok else
              'names removed from request-phase availability (%s) differ from RESERVED_ARGS - _REQUEST_BUILTINS (%s)'
              % (sorted(removed) if removed is not None else None, sorted(reserved - req_builtins)), core, mm.node)
    ok = req_builtins <= reserved and req_builtins == {'request', '_application', '_route', '_dispatch_state'}
    rep.check('R04.b', '%s::_REQUEST_BUILTINS' % ROUTE, ok, 'request built-ins are %s' % sorted(req_builtins) if ok else
              '_REQUEST_BUILTINS changed: %s' % sorted(req_builtins), route)
    rep.floor('R04.b', 8)

    # ---- R04.c -----------------------------------------------------------
    ai = app.func('Application.__init__')
    acfg = cfg_of(ai)
    uni2 = Universe(['RESERVED', 'RES'])

    def model2(it, e):
        if isinstance(e, ast.Name) and e.id == 'RESERVED_ARGS':
            return uni2['RESERVED']
        if norm(e) in ('self.resources', 'self.resources.keys()'):
            return uni2['RES']
        if isinstance(e, ast.Call) and call_name(e) in ('set', 'frozenset', 'list') and len(e.args) == 1 and \
                norm(e.args[0]) in ('self.resources', 'RESERVED_ARGS', 'self.resources.keys()'):
            return uni2['RES'] if 'resources' in norm(e.args[0]) else uni2['RESERVED']
        return None
    rz = [r for r in raises_of(ai) if raise_type(r) == 'NameError']
    ok = False
    guard_if = None
    for r in rz:
        for t, p in conds(ai, r):
            if p is True and isinstance(t, ast.Name):
                srcs = [s for s in stmts_of(ai.node) if isinstance(s, ast.Assign) and norm(s.targets[0]) == t.id]
                for s in srcs:
                    it2 = SetInterp(uni2, model=model2)
                    try:
                        v = it2.eval(s.value)
                    except Unmodelled:
                        continue
                    if v == uni2['RESERVED'] & uni2['RES']:
                        ok = True
                        guard_if = [i for i in stmts_of(ai.node) if isinstance(i, ast.If) and i.test is t]
    rep.check('R04.c', fkey(ai, 'resources vs reserved'), ok, 'resources & RESERVED_ARGS non-empty => NameError (exact intersection)' if ok else
              'Application.__init__ does not raise NameError for resources named like built-ins', app, rz[0] if rz else ai.node)
    binds = [s for s in stmts_of(ai.node) if any(isinstance(c, ast.Call) and (call_tail(c) == 'bind' or norm(c.func) == 'self.add') for c in ast.walk(s))
             and not isinstance(s, (ast.If,))]
    ok = bool(guard_if) and bool(binds) and all(acfg.must_pass(acfg.nodes_of_all(guard_if), acfg.entry, acfg.nodes_of(b)) for b in binds)
    rep.check('R04.c', fkey(ai, 'before binding'), ok, 'the reserved-name test precedes every bind/add' if ok else
              'routes can be bound before the reserved-name test', app, ai.node)
    res_asg = [s for s in stmts_of(ai.node) if isinstance(s, ast.Assign) and norm(s.targets[0]) == 'self.resources']
    ok = len(res_asg) == 1 and guard_if and acfg.must_pass(acfg.nodes_of(res_asg[0]), acfg.entry, acfg.nodes_of_all(guard_if))
    rep.check('R04.c', fkey(ai, 'self.resources assigned first'), bool(ok), 'the test sees the resources given to the constructor' if ok else
              'self.resources is not assigned before the reserved-name test', app, ai.node)

    # ---- R04.d -----------------------------------------------------------
    slots = {}
    for q in ('check_middleware', 'Middleware.requires', 'Middleware.arguments'):
        f = core.func(q)
        for s in stmts_of(f.node):
            if isinstance(s, ast.For) and isinstance(s.iter, (ast.Tuple, ast.List)):
                try:
                    slots[q] = tuple(repo.fold(s.iter, core))
                except Exception:
                    pass
    want = tuple(sorted(chain.PHASES))
    for q in ('check_middleware', 'Middleware.requires', 'Middleware.arguments'):
        got = tuple(sorted(slots.get(q, ())))
        rep.check('R04.d', '%s::%s::slots' % (CORE, q), got == want, '%s iterates the slots %s' % (q, want) if got == want else
                  '%s iterates slots %s, make_middleware_chain consumes %s' % (q, got, want), core, core.func(q).node)
    ckm = core.func('check_middleware')
    rz = raises_of(ckm)
    first_next = [r for r in rz if raise_type(r) == 'TypeError' and
                  has_cond(conds(ckm, r), lambda t: "get_arg_names(func)[0] == 'next'" in norm(t) or "get_arg_names(func)[0] != 'next'" in norm(t),
                           False if any("== 'next'" in norm(t) for t, p in conds(ckm, r)) else True)]
    # polarity: "if not X == 'next': raise" gives (X == 'next', False)
    ok = False
    for r in rz:
        if raise_type(r) != 'TypeError':
            continue
        for t, p in conds(ckm, r):
            n = norm(t)
            if "[0] == 'next'" in n and p is False:
                ok = True
            if "[0] != 'next'" in n and p is True:
                ok = True
    rep.check('R04.d', fkey(ckm, 'first parameter next'), ok, "a slot function whose first parameter is not 'next' raises TypeError" if ok else
              "check_middleware no longer rejects slot functions whose first parameter is not 'next'", core, ckm.node)
    ok = any(raise_type(r) == 'TypeError' and has_cond(conds(ckm, r), lambda t: norm(t) == 'callable(func)', False) for r in rz)
    rep.check('R04.d', fkey(ckm, 'callable'), ok, 'a non-callable slot raises TypeError' if ok else 'non-callable slots are not rejected', core, ckm.node)
    acalls = [c for c in walk_body(ai.node) if isinstance(c, ast.Call) and call_name(c) == 'check_middlewares']
    ok = len(acalls) == 1 and norm(acalls[0].args[0]) == 'self.middlewares' and \
        acfg.must_pass(acfg.nodes_of(stmt_of(app, acalls[0])), acfg.entry, acfg.exit, normal_only=True)
    rep.check('R04.d', fkey(ai, 'check_middlewares(self.middlewares)'), ok, 'application-level middlewares are checked at construction' if ok else
              'Application.__init__ does not always check its middlewares', app, ai.node)
    rep.floor('R04.d', 7)

    # ---- R04.e -----------------------------------------------------------
    rep.guard(chain.check_unresolved_raises, rep, 'R04.e')
    rep.guard(chain.check_phase_sets, rep, 'R04.e', rule_pair='R04.e', rule_core_env='R04.e')
    if not rep.gaps:
        rep.floor('R04.e', 10)
