"""C04 -- Name conflicts and reserved-name misuse are rejected at construction.

Decided:
  R04.a  conflict map complete: check_middlewares folds every ``*provides`` attribute of Middleware and
         every item of args_dict into one map and raises NameError for any name with more than one
         provider; BoundRoute.__init__ passes url / builtins / resources sources (resources = application
         and route layers) and the merged middleware list; that list holds every middleware of the route and of the
         binding application: merge_middlewares leaves an old one out only when it is a unique type already present
         (a second instance of a non-unique class must reach the conflict map);
  R04.b  writer/reader tables: every name the framework itself injects (execute(), dispatch(), the inner
         name, the ``context`` variable of the request core) is in RESERVED_ARGS and RESERVED_ARGS holds
         nothing else; the names removed from request/endpoint availability are exactly
         RESERVED_ARGS - _REQUEST_BUILTINS;
  R04.c  Application.__init__ raises NameError when resources intersect RESERVED_ARGS, before anything is bound;
  R04.d  middleware slot tables agree ({request, endpoint, render} in check_middleware, requires,
         arguments, make_middleware_chain); a slot function whose first parameter is not ``next`` is a
         TypeError; check_middleware runs for every middleware at application and at route level;
  R04.e  next/context placement: R01.b / R01.d.
  (R04.a/c/d/e also: building the message of the NameError / TypeError cannot itself raise -- chain.check_raise_total.)
Declined: nothing of substance (Python raising NameError/TypeError is assumed).
"""
import ast

from ..core import AnalysisError, norm, short
from ..setalg import Universe, SetInterp, Opaque, Unmodelled
from ..layers import layers_of_var, layers_of_value
from ..astutil import argn, assigned_value
from . import chain
from .common import (cfg_of, fkey, conds, has_cond, cond_texts, stmts_of, walk_body, call_tail, call_name, returns_of,
                     raises_of, raise_type, stmt_of, kwarg, implies_absent, protected_by, handler_reraises_always)

CORE, ROUTE, APP = 'clastic.middleware.core', 'clastic.route', 'clastic.application'


def _is_multi(t, pol, name):
    """The condition (t, pol) says ``len(name) > 1``."""
    if not (isinstance(t, ast.Compare) and len(t.ops) == 1):
        return False
    l, r, op = t.left, t.comparators[0], t.ops[0]
    ln = 'len(%s)' % name

    def num(x):
        return x.value if isinstance(x, ast.Constant) and isinstance(x.value, int) and not isinstance(x.value, bool) else None
    if norm(l) == ln and num(r) is not None:
        k = num(r)
    elif norm(r) == ln and num(l) is not None:
        k = num(l)
        op = {ast.Gt: ast.Lt, ast.Lt: ast.Gt, ast.GtE: ast.LtE, ast.LtE: ast.GtE}.get(type(op), type(op))()
    else:
        return False
    if pol is True:
        return (isinstance(op, ast.Gt) and k == 1) or (isinstance(op, ast.GtE) and k == 2)
    return (isinstance(op, ast.LtE) and k == 1) or (isinstance(op, ast.Lt) and k == 2)


def _parents(root):
    out = {}
    for p in ast.walk(root):
        for ch in ast.iter_child_nodes(p):
            out[ch] = p
    return out


def check_conflict_map(rep):
    repo = rep.repo
    core, route = repo.mod(CORE), repo.mod(ROUTE)
    mwc = core.cls('Middleware')
    prov_attrs = sorted(a for a in mwc.class_attrs if a.endswith('provides'))
    if len(prov_attrs) < 3:
        raise AnalysisError('Middleware provides attributes: %r (floor 3)' % prov_attrs)
    cm = core.func('check_middlewares')
    cps = cm.params()
    cfg = cfg_of(cm)

    def new_map(v):
        return (isinstance(v, ast.Call) and call_name(v) in ('defaultdict', 'dict', 'collections.defaultdict', 'OrderedDict')
                and not any(isinstance(a, ast.Name) and a.id in cps for a in v.args)) or (isinstance(v, ast.Dict) and not v.keys)
    maps = [norm(s.targets[0]) for s in stmts_of(cm.node) if isinstance(s, ast.Assign) and isinstance(s.targets[0], ast.Name)
            and new_map(s.value)]
    maps = sorted(set(m for m in maps if m not in cps))
    # of several candidates, the provider map is the one whose entries are lists that get appended to
    if len(maps) > 1:
        maps = [m for m in maps if any(isinstance(c, ast.Call) and isinstance(c.func, ast.Attribute) and c.func.attr in ('append', 'add')
                                       and m in norm(c.func.value) for c in walk_body(cm.node))]
    if len(maps) != 1:
        raise AnalysisError('check_middlewares: provider map not identified (%r)' % maps)
    P = maps[0]

    def unwrap(e):
        while isinstance(e, ast.Call) and call_name(e) in ('list', 'tuple', 'iter') and len(e.args) == 1:
            e = e.args[0]
        return e
    outer = [s for s in stmts_of(cm.node) if isinstance(s, ast.For) and norm(unwrap(s.iter)) == cps[0]]
    if len(outer) != 1:
        raise AnalysisError('check_middlewares: loop over middlewares not found')
    mwv = norm(outer[0].target)
    par = _parents(cm.node)

    def adds_to_map(loop, keyvar):
        for c in ast.walk(loop):
            if isinstance(c, ast.Call) and isinstance(c.func, ast.Attribute) and c.func.attr in ('append', 'add') and \
                    isinstance(c.func.value, ast.Subscript) and norm(c.func.value.value) == P and norm(c.func.value.slice) == keyvar:
                return c
            if isinstance(c, ast.Call) and isinstance(c.func, ast.Attribute) and c.func.attr in ('append', 'add') and \
                    isinstance(c.func.value, ast.Call) and call_tail(c.func.value) == 'setdefault' and norm(c.func.value.func.value) == P \
                    and norm(c.func.value.args[0]) == keyvar:
                return c
        return None

    def const_bindings(fnode_par, node, stop, mod):
        """Names bound by the ``for`` statements enclosing ``node`` (up to ``stop``) that walk a constant table:
        name -> list of the constants it takes (a tuple target takes the columns of a table of tuples)."""
        env = {}
        cur = fnode_par.get(node)
        while cur is not None and cur is not stop:
            if isinstance(cur, ast.For):
                vals = repo.try_fold(cur.iter, mod)
                if isinstance(vals, (tuple, list)) and vals:
                    tg = cur.target
                    if isinstance(tg, ast.Name):
                        env.setdefault(tg.id, list(vals))
                    elif isinstance(tg, (ast.Tuple, ast.List)) and all(isinstance(x, ast.Name) for x in tg.elts) and \
                            all(isinstance(v, (tuple, list)) and len(v) == len(tg.elts) for v in vals):
                        for i, x in enumerate(tg.elts):
                            env.setdefault(x.id, [v[i] for v in vals])
            cur = fnode_par.get(cur)
        return env

    def attrs_of(e, who, env, fnode, mod, depth=0):
        """Attributes of the middleware ``who`` whose elements the iterable ``e`` yields (each of them, unconditionally):
        ``who.a``; ``getattr(who, v)`` with v ranging over a constant table in an enclosing loop; itertools.chain of such,
        ``+``; a local naming one; a generator function of the module that yields them from loops of these kinds."""
        if depth > 4:
            return set()
        e = unwrap(e)
        if isinstance(e, ast.Attribute) and norm(e.value) == who:
            return {e.attr}
        if isinstance(e, ast.Call) and call_name(e) == 'getattr' and len(e.args) == 2 and not e.keywords and norm(e.args[0]) == who:
            k = e.args[1]
            if isinstance(k, ast.Name) and k.id in env and all(isinstance(v, str) for v in env[k.id]):
                return set(env[k.id])
            v = repo.try_fold(k, mod)
            return {v} if isinstance(v, str) else set()
        if isinstance(e, ast.Call) and call_name(e) in ('chain', 'itertools.chain') and not e.keywords:
            out = set()
            for a_ in e.args:
                if isinstance(a_, ast.Starred):
                    return set()
                out |= attrs_of(a_, who, env, fnode, mod, depth + 1)
            return out
        if isinstance(e, ast.Call) and call_name(e) in ('chain.from_iterable', 'itertools.chain.from_iterable') and len(e.args) == 1 and \
                isinstance(e.args[0], (ast.Tuple, ast.List)) and not any(isinstance(x, ast.Starred) for x in e.args[0].elts):
            out = set()
            for a_ in e.args[0].elts:
                out |= attrs_of(a_, who, env, fnode, mod, depth + 1)
            return out
        if isinstance(e, ast.BinOp) and isinstance(e.op, ast.Add):
            return attrs_of(e.left, who, env, fnode, mod, depth + 1) | attrs_of(e.right, who, env, fnode, mod, depth + 1)
        if isinstance(e, ast.Name) and fnode is not None:
            vals = assigned_value(fnode, e.id)
            if len(vals) == 1 and vals[0][2] is None and isinstance(vals[0][0], ast.Assign):
                return attrs_of(vals[0][1], who, env, fnode, mod, depth + 1)
            return set()
        if isinstance(e, ast.Call) and isinstance(e.func, ast.Name) and len(e.args) == 1 and not e.keywords and norm(e.args[0]) == who:
            # a generator of the module: ``def it(m): for n in TABLE: for x in getattr(m, n): yield x``
            kind, gmod, g = repo.resolve(mod, e.func.id)
            if kind == 'func' and gmod is not None and not gmod.external and len(g.params()) == 1 and not g.node.decorator_list:
                return generator_attrs(g, gmod, depth + 1)
        return set()

    def generator_attrs(g, gmod, depth):
        gp = g.params()[0]
        gpar = _parents(g.node)
        body = [s for s in g.node.body if not (isinstance(s, ast.Expr) and isinstance(s.value, ast.Constant))]
        out = set()

        def rec(stmts):
            for s in stmts:
                if not isinstance(s, ast.For) or s.orelse:
                    return False
                vals = repo.try_fold(s.iter, gmod)
                if isinstance(vals, (tuple, list)) and vals:
                    if not rec(s.body):
                        return False
                    continue
                # a value loop: its body is exactly ``yield <loop variable>``
                if not (isinstance(s.target, ast.Name) and len(s.body) == 1 and isinstance(s.body[0], ast.Expr) and
                        isinstance(s.body[0].value, ast.Yield) and isinstance(s.body[0].value.value, ast.Name) and
                        s.body[0].value.value.id == s.target.id):
                    return False
                got = attrs_of(s.iter, gp, const_bindings(gpar, s, g.node, gmod), g.node, gmod, depth)
                if not got:
                    return False
                out.update(got)
            return True
        return out if body and rec(body) else set()

    def iter_attrs(loop):
        """Attributes of the middleware whose elements a loop inside the middleware loop walks."""
        return attrs_of(loop.iter, mwv, const_bindings(par, loop, outer[0], cm.mod), cm.node, cm.mod)
    inner_loops = [s for s in ast.walk(outer[0]) if isinstance(s, ast.For) and s is not outer[0]]
    for a in prov_attrs:
        loops = [l for l in inner_loops if a in iter_attrs(l)]
        ok = len(loops) >= 1 and all(adds_to_map(l, norm(l.target)) is not None for l in loops)
        # unconditional inside the middleware loop
        if ok:
            ok = all(not conds(cm, l) for l in loops)
            ok = ok and all(norm(adds_to_map(l, norm(l.target)).args[0]) == mwv for l in loops)
        rep.check('R04.a', fkey(cm, 'mw.' + a), ok, 'every name in mw.%s is recorded with its provider, unconditionally' % a if ok else
                  'mw.%s is not folded into the conflict map (a duplicate offered through it is silently shadowed)' % a, cm.mod,
                  loops[0] if loops else outer[0])
    ad = cps[1] if len(cps) > 1 else 'args_dict'
    def is_args_dict(e, depth=0):
        """``e`` is the args_dict parameter, possibly defaulted (``args_dict or {}``), copied, or under a local name."""
        if depth > 3:
            return False
        if isinstance(e, ast.BoolOp) and isinstance(e.op, ast.Or) and len(e.values) == 2:
            d = e.values[1]
            empty = (isinstance(d, ast.Dict) and not d.keys) or (isinstance(d, ast.Call) and call_name(d) == 'dict' and not d.args and not d.keywords)
            return empty and is_args_dict(e.values[0], depth)
        if isinstance(e, ast.Call) and call_name(e) == 'dict' and len(e.args) == 1 and not e.keywords:
            return is_args_dict(e.args[0], depth)
        if isinstance(e, ast.Name):
            vals = assigned_value(cm.node, e.id)
            if e.id == ad:
                return all(idx is None and isinstance(st_, ast.Assign) and is_args_dict_rebind(v, st_) for st_, v, idx in vals)
            return len(vals) == 1 and vals[0][2] is None and isinstance(vals[0][0], ast.Assign) and is_args_dict(vals[0][1], depth + 1)
        return False

    def is_args_dict_rebind(v, st_):
        # args_dict = args_dict or {}   /   if not args_dict: args_dict = {}   (if args_dict is None: ...)
        empty = lambda d: (isinstance(d, ast.Dict) and not d.keys) or norm(d) == 'dict()'
        if isinstance(v, ast.BoolOp) and isinstance(v.op, ast.Or) and len(v.values) == 2 and norm(v.values[0]) == ad and empty(v.values[1]):
            return True
        return empty(v) and implies_absent(conds(cm, st_), ad)

    def items_of_args_dict(e):
        e = unwrap(e)
        return isinstance(e, ast.Call) and isinstance(e.func, ast.Attribute) and e.func.attr == 'items' and not e.args and is_args_dict(e.func.value)
    src_loops = [s for s in stmts_of(cm.node) if isinstance(s, ast.For) and items_of_args_dict(s.iter)]
    ok = len(src_loops) == 1 and isinstance(src_loops[0].target, ast.Tuple) and len(src_loops[0].target.elts) == 2
    if ok:
        srcv, listv = [norm(x) for x in src_loops[0].target.elts]
        inner = [s for s in ast.walk(src_loops[0]) if isinstance(s, ast.For) and norm(unwrap(s.iter)) == listv]
        ok = len(inner) == 1 and adds_to_map(inner[0], norm(inner[0].target)) is not None and \
            norm(adds_to_map(inner[0], norm(inner[0].target)).args[0]) == srcv
        ok = ok and cfg.must_pass(cfg.nodes_of(src_loops[0]), cfg.entry, cfg.exit, normal_only=True)
    rep.check('R04.a', fkey(cm, 'args_dict'), ok, 'every (source, names) item of args_dict is recorded' if ok else
              'the non-middleware sources (url / builtins / resources) are not all folded into the conflict map', cm.mod,
              src_loops[0] if src_loops else cm.node)
    # conflicts => NameError
    rz = [r for r in raises_of(cm) if raise_type(r) == 'NameError']
    ok = False
    built_by = []
    conflict_lists = set()
    for r in rz:
        for t, p in conds(cm, r):
            if p is True and isinstance(t, ast.Name):
                # the list of conflicts: the entries of the provider map with more than one provider -- comprehension ...
                for st_, v, idx in assigned_value(cm.node, t.id):
                    if idx is None and isinstance(v, (ast.ListComp, ast.DictComp, ast.SetComp, ast.GeneratorExp)) and \
                            norm(unwrap(v.generators[0].iter)) == P + '.items()':
                        tv = v.generators[0].target
                        if isinstance(tv, ast.Tuple) and len(tv.elts) == 2:
                            ps_ = norm(tv.elts[1])
                            flt = v.generators[0].ifs
                            if len(flt) == 1 and (_is_multi(flt[0], True, ps_) or
                                                  (isinstance(flt[0], ast.UnaryOp) and isinstance(flt[0].op, ast.Not) and _is_multi(flt[0].operand, False, ps_))):
                                ok = True
                                built_by.append(st_)
                                conflict_lists.add(t.id)
                # ... or loop with a test
                for lp in [s for s in stmts_of(cm.node) if isinstance(s, ast.For) and norm(unwrap(s.iter)) == P + '.items()'
                           and isinstance(s.target, ast.Tuple) and len(s.target.elts) == 2]:
                    ps_ = norm(lp.target.elts[1])
                    apps = [c for c in ast.walk(lp) if isinstance(c, ast.Call) and isinstance(c.func, ast.Attribute) and
                            c.func.attr in ('append', 'add') and norm(c.func.value) == t.id]
                    if apps and all(conds(cm, c) and all(_is_multi(ct, cp, ps_) for ct, cp in conds(cm, c)) for c in apps):
                        # (and every entry with several providers reaches an append: the test is the only condition)
                        ok = True
                        built_by.append(lp)
                        conflict_lists.add(t.id)
    rep.check('R04.a', fkey(cm, 'conflicts'), ok, 'any name with more than one provider raises NameError' if ok else
              'a name with several providers does not (always) raise NameError', cm.mod, rz[0] if rz else cm.node)
    chain.check_raise_total(rep, 'R04.a', cm, rz, 'the NameError for conflicting provides')
    if rz:
        ifs = [s for s in stmts_of(cm.node) if isinstance(s, ast.If) and any(r in list(ast.walk(s)) for r in rz)]
        # ``if not conflicts: return True`` + ``raise NameError`` is the same test with the branches swapped: the ``if`` whose
        # test on the list of conflicts is what the raise stands under (as a path condition), though not inside it
        for r in rz:
            for t, p in conds(cm, r):
                if p is True and isinstance(t, ast.Name) and t.id in conflict_lists:
                    ifs.extend(s for s in stmts_of(cm.node) if isinstance(s, ast.If) and s not in ifs and
                               chain._strip_not(s.test)[0] is t)
        ok = bool(ifs) and cfg.must_pass(cfg.nodes_of_all(ifs), cfg.entry, cfg.exit, normal_only=True) and \
            all(cfg.must_pass(cfg.nodes_of(outer[0]), cfg.entry, cfg.nodes_of(i)) for i in ifs) and \
            all(cfg.must_pass(cfg.nodes_of(outer[0]), cfg.entry, cfg.nodes_of(b)) and
                (not src_loops or cfg.must_pass(cfg.nodes_of(src_loops[0]), cfg.entry, cfg.nodes_of(b))) for b in built_by)
        rep.check('R04.a', fkey(cm, 'conflict test on every path'), ok, 'the conflict test runs after all sources are recorded, on every path' if ok else
                  'the conflict test can be bypassed or runs before all sources are recorded', cm.mod, ifs[0] if ifs else cm.node)
    # per-middleware check
    calls = [c for c in ast.walk(outer[0]) if isinstance(c, ast.Call) and call_name(c) == 'check_middleware' and c.args and norm(c.args[0]) == mwv]
    ok = len(calls) == 1 and isinstance(stmt_of(cm.mod, calls[0]), ast.Expr) and stmt_of(cm.mod, calls[0]) in outer[0].body
    rep.check('R04.d', fkey(cm, 'check_middleware(mw)'), ok, 'check_middleware runs for every middleware' if ok else
              'check_middleware is not called unconditionally for every middleware', cm.mod, calls[0] if calls else outer[0])
    # call site in BoundRoute.__init__
    bi = route.func('BoundRoute.__init__')
    cc = [c for c in walk_body(bi.node) if isinstance(c, ast.Call) and call_name(c) == 'check_middlewares']
    if len(cc) != 1:
        raise AnalysisError('BoundRoute.__init__: expected one check_middlewares call')
    # the conflict check is also the only place where the url / builtins / resources sources are compared with each other: it
    # runs on every path of binding, whatever the middleware stack holds, and what it raises reaches the caller of bind()
    bcfg = cfg_of(bi)
    cst = stmt_of(bi.mod, cc[0])
    ok = bcfg.must_pass(bcfg.nodes_of(cst), bcfg.entry, bcfg.exit, normal_only=True)
    rep.check('R04.a', fkey(bi, 'conflict check on every binding path'), ok,
              'check_middlewares runs on every normal path of binding' if ok else
              'a route can be bound without check_middlewares being called (%s): besides the middlewares it is the only place where the '
              'url / builtins / resources sources are compared with each other, so on that path a URL binding or a resource named like a '
              'built-in, or like each other, is accepted and silently shadowed' % (cond_texts(conds(bi, cst)) or 'early exit'), bi.mod, cc[0])
    h = protected_by(bi, cc[0], 'NameError')
    ok = h is None or handler_reraises_always(bi, h)
    rep.check('R04.a', fkey(bi, 'conflict error reaches the caller'), ok,
              'the NameError of the conflict check propagates out of binding' if ok else
              'the NameError raised by check_middlewares is caught inside BoundRoute.__init__ and not re-raised: conflicting names are '
              'accepted at construction', bi.mod, h if h is not None else cc[0])
    src_arg = argn(cc[0], cps[1] if len(cps) > 1 else 'args_dict', 1)
    if src_arg is None:
        rep.fail('R04.a', fkey(bi, 'source map'), 'check_middlewares is called without the url / builtins / resources sources', route, cc[0])
    else:
        try:
            uni, mp = chain.eval_bind_sources(repo, src_arg, stmt_of(bi.mod, cc[0]))
        except Unmodelled as e:
            raise AnalysisError('BoundRoute.__init__ source map: %s' % e)
        ok = isinstance(mp, dict) and sorted(mp.values(), key=repr) == sorted([uni['URL'], uni['BUILTINS'], uni['RES']], key=repr)
        rep.check('R04.a', fkey(bi, 'source map'), ok, 'sources url / builtins / resources are each passed to the conflict check: %s' % sorted(mp) if ok else
                  'the source map given to check_middlewares lacks one of url / builtins / resources', route, cc[0])
    a0 = argn(cc[0], cps[0], 0)
    ok = a0 is not None and norm(a0) == 'self.middlewares'
    rep.check('R04.a', fkey(bi, 'merged list checked'), ok, 'the merged middleware list is what is checked' if ok else
              'check_middlewares is not given the merged middleware list', route, cc[0])
    ls = layers_of_var(bi.node, 'self.resources')
    ok = len(ls) == 2
    rep.check('R04.a', fkey(bi, 'resources both levels'), ok, 'self.resources holds application and route resources' if ok else
              'self.resources does not combine application and route resources', route, bi.node)


def request_phase_removed(repo):
    """The reserved names make_middleware_chain takes out of the preprovided set for the request phase, by abstract
    interpretation over one atom per reserved name.  -> set of names."""
    core, route = repo.mod(CORE), repo.mod(ROUTE)
    reserved = sorted(set(route.const('RESERVED_ARGS')))
    if len(reserved) > 7:
        raise AnalysisError('RESERVED_ARGS has %d names (the per-name universe holds 7)' % len(reserved))
    mm = core.func('make_middleware_chain')
    ps = mm.params()
    uni = Universe(['PRE'] + ['n:' + n for n in reserved])
    avail = {}

    def model(it, e):
        if isinstance(e, ast.Call) and call_name(e) == 'make_chain':
            fin, pre = argn(e, 'final_func', 2), argn(e, 'preprovided', 3)
            if fin is not None and pre is not None:
                ph = 'endpoint' if norm(fin) == ps[1] else ('render' if norm(fin) == ps[2] else 'request')
                avail[ph] = it.as_set(it.eval(pre), pre)
            return Opaque(e, 'chain')
        return None
    it = SetInterp(uni, env={ps[3]: uni['PRE']}, elems=dict((repr(n), uni['n:' + n]) for n in reserved), model=model)
    it.fold = lambda e: repo.try_fold(e, mm.mod)
    for p in ps[:3]:
        it.env[p] = Opaque(None, p)
    for st in mm.node.body:
        if isinstance(st, ast.Return):
            continue
        try:
            it.exec_stmt(st)
        except Unmodelled:
            # statements about the phase lists are not this rule's business; a name they bind is unknown from here on
            for n in ast.walk(st):
                if isinstance(n, ast.Name) and isinstance(n.ctx, ast.Store):
                    it.env[n.id] = Opaque(st)
    if 'request' not in avail:
        raise AnalysisError('make_middleware_chain: request-phase availability not found')
    a = avail['request']
    if not isinstance(a, int) or not (a & uni['PRE']):
        raise AnalysisError('make_middleware_chain: request-phase availability is not derived from preprovided')
    return set(n for n in reserved if not (a & uni['PRE'] & uni['n:' + n])), mm


def check_reserved_tables(rep):
    repo = rep.repo
    core, route, app = repo.mod(CORE), repo.mod(ROUTE), repo.mod(APP)
    reserved = set(route.const('RESERVED_ARGS'))
    req_builtins = set(route.const('_REQUEST_BUILTINS'))
    injected = {}
    for q in ('BoundRoute.execute',):
        f = route.func(q)
        injs = [c for c in walk_body(f.node) if isinstance(c, ast.Call) and call_name(c) == 'inject']
        if not injs or len(injs[0].args) < 2:
            raise AnalysisError('%s: inject call not found' % q)
        for l in layers_of_value(f.node, injs[0].args[1]):
            if l.kind == 'literal':
                for k in l.keys:
                    injected[k] = q
    d = app.func('Application.dispatch')
    exe = [c for c in walk_body(d.node) if isinstance(c, ast.Call) and norm(c.func).endswith('.execute')]
    star = [k.value for c in exe for k in c.keywords if k.arg is None]
    todo = [norm(x) for x in star] or ['base_params']
    seen = set()
    while todo:
        v = todo.pop()
        if v in seen:
            continue
        seen.add(v)
        for l in layers_of_var(d.node, v):
            if l.kind == 'literal':
                for k in l.keys:
                    injected[k] = 'Application.dispatch'
            elif isinstance(l.node, ast.Name):
                todo.append(l.node.id)
    inner = core.const('_INNER_NAME')
    injected[inner] = '_INNER_NAME'
    # the request core binds the endpoint result to the local ``context`` which render functions then receive by name
    import textwrap
    from .. import codegen
    te = codegen.TemplateEval(repo, core.func('_create_request_inner')).run()
    for k in te.sinks:
        code = k['kw'].get('code_str', k['args'][0] if k['args'] else None)
        if k['name'] == 'compile_code' and isinstance(code, codegen.Tmpl):
            try:
                tree = ast.parse(textwrap.dedent(codegen.render(code.parts).text))
            except (SyntaxError, AnalysisError):
                continue
            for n in ast.walk(tree):
                if isinstance(n, ast.Assign) and isinstance(n.value, ast.Call) and any(isinstance(t, ast.Name) and t.id == 'context' for t in n.targets):
                    injected['context'] = 'the generated request core (%s = %s(...))' % ('context', norm(n.value.func))
    for name, src in sorted(injected.items()):
        rep.check('R04.b', '%s::RESERVED_ARGS::%s' % (ROUTE, name), name in reserved,
                  "built-in '%s' (injected by %s) is reserved" % (name, src) if name in reserved else
                  "'%s' is injected by %s but is not in RESERVED_ARGS: a resource/URL binding/provides of that name is silently shadowed"
                  % (name, src), route)
    extra = reserved - set(injected)
    rep.check('R04.b', '%s::RESERVED_ARGS::exact' % ROUTE, not extra and len(reserved) >= 6,
              'RESERVED_ARGS is exactly the set of injected built-ins %s' % sorted(reserved) if not extra and len(reserved) >= 6 else
              'RESERVED_ARGS %s vs injected %s' % (sorted(reserved), sorted(injected)), route)
    removed, mm = request_phase_removed(repo)
    ok = removed == reserved - req_builtins
    rep.check('R04.b', fkey(mm, 'names removed from request availability'), ok,
              'request/endpoint phases lose exactly RESERVED_ARGS - _REQUEST_BUILTINS = %s' % sorted(reserved - req_builtins) if ok else
              'names removed from request-phase availability (%s) differ from RESERVED_ARGS - _REQUEST_BUILTINS (%s)'
              % (sorted(removed), sorted(reserved - req_builtins)), mm.mod, mm.node)
    ok = req_builtins <= reserved and req_builtins == {'request', '_application', '_route', '_dispatch_state'}
    rep.check('R04.b', '%s::_REQUEST_BUILTINS' % ROUTE, ok, 'request built-ins are %s' % sorted(req_builtins) if ok else
              '_REQUEST_BUILTINS changed: %s' % sorted(req_builtins), route)


def check_reserved_resources(rep):
    repo = rep.repo
    app = repo.mod(APP)
    ai = app.func('Application.__init__')
    acfg = cfg_of(ai)
    uni2 = Universe(['RESERVED', 'RES'])

    def model2(it, e):
        if isinstance(e, ast.Name) and e.id == 'RESERVED_ARGS':
            return uni2['RESERVED']
        if norm(e) in ('self.resources', 'self.resources.keys()'):
            return uni2['RES']
        if isinstance(e, ast.Call) and call_name(e) in ('set', 'frozenset', 'list', 'tuple', 'sorted') and len(e.args) == 1 and \
                norm(e.args[0]) in ('self.resources', 'RESERVED_ARGS', 'self.resources.keys()'):
            return uni2['RES'] if 'resources' in norm(e.args[0]) else uni2['RESERVED']
        return None
    rz = [r for r in raises_of(ai) if raise_type(r) == 'NameError']
    ok = False
    guard_if = None
    top = list(ai.node.body)
    for r in rz:
        for t, p in conds(ai, r):
            if p is not True or not isinstance(t, (ast.Name, ast.BinOp, ast.Call, ast.ListComp, ast.SetComp)):
                continue
            tnames = set(n.id for n in ast.walk(t) if isinstance(n, ast.Name)) - {'RESERVED_ARGS', 'self', 'set', 'frozenset', 'list', 'any', 'len'}
            encl = [i for i in stmts_of(ai.node) if isinstance(i, ast.If) and any(x is r for x in ast.walk(i))
                    and (any(x is t for x in ast.walk(i.test)) or
                         (isinstance(t, ast.Name) and any(isinstance(n, ast.Name) and n.id == t.id for n in ast.walk(i.test))))]
            if not encl:
                continue
            # value of the tested collection where the test stands: run the statements before it
            it2 = SetInterp(uni2, model=model2)
            for s in stmts_of(ai.node):
                if s is encl[0]:
                    break
                if s not in top and not any(s in getattr(q, 'body', []) + getattr(q, 'orelse', []) for q in top if isinstance(q, ast.If)):
                    continue
                if not any(isinstance(n, ast.Name) and n.id in tnames for n in ast.walk(s)):
                    continue
                try:
                    it2.exec_stmt(s)
                except Unmodelled:
                    for n in ast.walk(s):
                        if isinstance(n, ast.Name) and isinstance(n.ctx, ast.Store):
                            it2.env[n.id] = Opaque(s)
            e = t
            if isinstance(e, ast.Call) and call_name(e) in ('len', 'bool') and len(e.args) == 1:
                e = e.args[0]
            if isinstance(e, ast.Call) and call_name(e) == 'any' and len(e.args) == 1 and isinstance(e.args[0], (ast.GeneratorExp, ast.ListComp)) \
                    and len(e.args[0].generators) == 1 and isinstance(e.args[0].generators[0].target, ast.Name):
                # any(<test on x> for x in A)  <=>  {x in A | test} is non-empty
                g = e.args[0].generators[0]
                e = ast.copy_location(ast.ListComp(elt=ast.Name(id=g.target.id, ctx=ast.Load()), generators=[ast.comprehension(
                    target=g.target, iter=g.iter, ifs=list(g.ifs) + [e.args[0].elt], is_async=0)]), e)
                ast.fix_missing_locations(e)
            v = it2.try_eval(e)
            if v == uni2['RESERVED'] & uni2['RES']:
                ok = True
                guard_if = encl[:1]
    rep.check('R04.c', fkey(ai, 'resources vs reserved'), ok, 'resources & RESERVED_ARGS non-empty => NameError (exact intersection)' if ok else
              'Application.__init__ does not raise NameError for resources named like built-ins', app, rz[0] if rz else ai.node)
    chain.check_raise_total(rep, 'R04.c', ai, rz, 'the NameError for resources named like built-ins')
    binds = [s for s in stmts_of(ai.node) if any(isinstance(c, ast.Call) and (call_tail(c) == 'bind' or norm(c.func) == 'self.add') for c in ast.walk(s))
             and not isinstance(s, (ast.If,))]
    ok = bool(guard_if) and bool(binds) and all(acfg.must_pass(acfg.nodes_of_all(guard_if), acfg.entry, acfg.nodes_of(b)) for b in binds)
    rep.check('R04.c', fkey(ai, 'before binding'), ok, 'the reserved-name test precedes every bind/add' if ok else
              'routes can be bound before the reserved-name test', app, ai.node)
    res_asg = [s for s in stmts_of(ai.node) if isinstance(s, ast.Assign) and norm(s.targets[0]) == 'self.resources']
    ok = bool(res_asg) and guard_if and acfg.must_pass(acfg.nodes_of_all(res_asg), acfg.entry, acfg.nodes_of_all(guard_if))
    rep.check('R04.c', fkey(ai, 'self.resources assigned first'), bool(ok), 'the test sees the resources given to the constructor' if ok else
              'self.resources is not assigned before the reserved-name test', app, ai.node)


def check_slots(rep):
    repo = rep.repo
    core, app = repo.mod(CORE), repo.mod(APP)
    slots = {}

    def slots_of(f, depth=0):
        """The slot names whose functions ``f`` examines: a loop over a constant table of names (or of tuples, the column
        that is looked up with getattr), written in ``f`` or in a generator of the module that ``f`` loops over."""
        sites = []
        for s in stmts_of(f.node):
            if isinstance(s, ast.For):
                sites.append(s)
            # a comprehension's clauses are loops too (``[a for _, fn in table_or_generator(mw) for a in names(fn)]``): each clause
            # stands for a ``for`` whose body is the rest of the comprehension
            for c in [n for x in ast.iter_child_nodes(s) if isinstance(x, ast.expr) for n in ast.walk(x)]:
                if isinstance(c, (ast.ListComp, ast.SetComp, ast.GeneratorExp, ast.DictComp)):
                    rest = [c.key, c.value] if isinstance(c, ast.DictComp) else [c.elt]
                    for i, g in enumerate(c.generators):
                        body = [ast.Expr(value=x) for x in list(g.ifs) + [h.iter for h in c.generators[i + 1:]] +
                                [y for h in c.generators[i + 1:] for y in h.ifs] + rest]
                        sites.append(ast.For(target=g.target, iter=g.iter, body=body, orelse=[]))
        for s in sites:
            v = repo.try_fold(s.iter, f.mod)
            if isinstance(v, (tuple, list)) and v and all(isinstance(x, str) for x in v):
                return tuple(v)
            if isinstance(v, (tuple, list)) and v and isinstance(s.target, (ast.Tuple, ast.List)) and all(isinstance(x, ast.Name) for x in s.target.elts) \
                    and all(isinstance(x, (tuple, list)) and len(x) == len(s.target.elts) for x in v):
                looked_up = set(norm(c.args[1]) for b in s.body for c in ast.walk(b) if isinstance(c, ast.Call) and call_name(c) == 'getattr'
                                and len(c.args) >= 2)
                cols = [i for i, x in enumerate(s.target.elts) if x.id in looked_up]
                if len(cols) == 1 and all(isinstance(x[cols[0]], str) for x in v):
                    # (of several loops the first that looks functions up; a table column only read for its provides is R04.a's)
                    return tuple(x[cols[0]] for x in v)
            it = s.iter
            if depth < 2 and isinstance(it, ast.Call) and isinstance(it.func, ast.Name) and len(it.args) == 1 and not it.keywords:
                kind, gmod, g = repo.resolve(f.mod, it.func.id)
                if kind == 'func' and gmod is not None and not gmod.external and any(isinstance(n, ast.Yield) for n in ast.walk(g.node)):
                    got = slots_of(g, depth + 1)
                    if got:
                        return got
        return None
    for q in ('check_middleware', 'Middleware.requires', 'Middleware.arguments'):
        got = slots_of(core.func(q))
        if got:
            slots[q] = got
    want = tuple(sorted(chain.PHASES))
    for q in ('check_middleware', 'Middleware.requires', 'Middleware.arguments'):
        got = tuple(sorted(slots.get(q, ())))
        rep.check('R04.d', '%s::%s::slots' % (CORE, q), got == want, '%s iterates the slots %s' % (q, want) if got == want else
                  '%s iterates slots %s, make_middleware_chain consumes %s' % (q, got, want), core.func(q).mod, core.func(q).node)
    ckm = core.func('check_middleware')
    rz = raises_of(ckm)

    def first_param(e):
        """``e`` is ``get_arg_names(f)[0]`` (possibly under a local name)."""
        e = chain._deref(ckm, e)
        return isinstance(e, ast.Subscript) and isinstance(e.slice, ast.Constant) and e.slice.value == 0 and \
            isinstance(e.value, ast.Call) and call_name(e.value) == 'get_arg_names' and len(e.value.args) >= 1 and \
            not (len(e.value.args) > 1 or e.value.keywords)
    ok = False
    for r in rz:
        if raise_type(r) != 'TypeError':
            continue
        for t, p in conds(ckm, r):
            if isinstance(t, ast.Compare) and len(t.ops) == 1 and isinstance(t.ops[0], (ast.Eq, ast.NotEq)):
                a, b = t.left, t.comparators[0]
                for x, y in ((a, b), (b, a)):
                    if first_param(x) and repo.try_fold(y, ckm.mod) == 'next':
                        if (isinstance(t.ops[0], ast.Eq) and p is False) or (isinstance(t.ops[0], ast.NotEq) and p is True):
                            ok = True
    rep.check('R04.d', fkey(ckm, 'first parameter next'), ok, "a slot function whose first parameter is not 'next' raises TypeError" if ok else
              "check_middleware no longer rejects slot functions whose first parameter is not 'next'", ckm.mod, ckm.node)
    chain.check_raise_total(rep, 'R04.d', ckm, [r for r in rz if raise_type(r) == 'TypeError'], 'the TypeError for a malformed middleware function')
    ok = any(raise_type(r) == 'TypeError' and has_cond(conds(ckm, r), lambda t: isinstance(t, ast.Call) and call_name(t) == 'callable'
                                                       and len(t.args) == 1 and isinstance(t.args[0], ast.Name), False) for r in rz)
    rep.check('R04.d', fkey(ckm, 'callable'), ok, 'a non-callable slot raises TypeError' if ok else 'non-callable slots are not rejected', ckm.mod, ckm.node)
    ai = app.func('Application.__init__')
    acfg = cfg_of(ai)
    acalls = [c for c in walk_body(ai.node) if isinstance(c, ast.Call) and call_name(c) == 'check_middlewares']
    ok = len(acalls) == 1 and bool(acalls[0].args) and norm(acalls[0].args[0]) == 'self.middlewares' and \
        acfg.must_pass(acfg.nodes_of(stmt_of(ai.mod, acalls[0])), acfg.entry, acfg.exit, normal_only=True)
    rep.check('R04.d', fkey(ai, 'check_middlewares(self.middlewares)'), ok, 'application-level middlewares are checked at construction' if ok else
              'Application.__init__ does not always check its middlewares', app, ai.node)


def run(rep):
    rep.decide('R04.a conflict map exhaustive; R04.b reserved-name tables agree; R04.c resources vs reserved; '
               'R04.d middleware slots / next-first; R04.e next & context placement')
    rep.decline('nothing of substance: Python raising the exceptions is assumed')
    rep.rule('R04.a', 'exhaustiveness of the provided_by map (all sources, all middlewares of both levels); more than one provider => NameError')
    rep.rule('R04.b', 'set equality between injected built-in names and RESERVED_ARGS')
    rep.rule('R04.c', 'resources & RESERVED_ARGS non-empty => NameError before binding')
    rep.rule('R04.d', 'slot tables agree; first parameter next; check_middleware for every middleware')
    rep.rule('R04.e', 'next forbidden in endpoint/render; context only in render availability')
    g = rep.guard
    g(check_conflict_map, rep)
    g(chain.check_merge_complete, rep, 'R04.a')
    g(check_reserved_tables, rep)
    g(check_reserved_resources, rep)
    g(check_slots, rep)
    g(chain.check_unresolved_raises, rep, 'R04.e')
    g(chain.check_phase_sets, rep, 'R04.e', rule_pair='R04.e', rule_core_env='R04.e')
    if not rep.gaps:
        rep.floor('R04.a', 8)
        rep.floor('R04.b', 8)
        rep.floor('R04.d', 7)
        rep.floor('R04.e', 10)
