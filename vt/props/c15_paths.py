"""C15, rules R15.f / R15.g -- what a built-in middleware may do to a response it did not ask to change.

R15.f  body as a sequence.  Some werkzeug response operations need the whole body in memory: they go through
       ``BaseResponse._ensure_sequence`` (read from the pinned werkzeug source, together with everything that reaches it
       through ``self.<method>()`` / ``self.<property>`` outside a ``try`` catching RuntimeError: get_data, the ``data``
       property, add_etag, freeze, get_json ...).  ``_ensure_sequence`` raises RuntimeError for a ``direct_passthrough``
       response and buffers a generator body.  Such an operation on the value returned by ``next()`` is therefore allowed only
       where the path condition *entails* ``not <result>.is_streamed``.  Entailment is decided over the conditions as
       formulas (diffcon.prop_entails): ``not (a and s)`` is not ``not s``.
R15.g  exceptions of its own.  A pass-through middleware answers with an error of its own making (an explicit ``raise`` of a
       new exception, or a lookup documented to raise on request data: ``request.args[k]`` & co.) only where it was asked to
       act: the site is dominated by a *trigger* -- a branch whose test reads the request and whose other side is a pure
       pass-through (every path from there ends in a normal return; no body/status mutation, no own exception on the way).
       A validity test (``if sort_key not in KNOWN: raise``) is not a trigger: its other side goes on to change the response.
"""
import ast

from ..core import AnalysisError, norm, short
from ..loader import ClassInfo
from .. import diffcon
from ..cfg import expand_conds
from .common import cfg_of, fkey, conds, stmts_of, walk_body, call_name, stmt_of, names_loaded, protected_by, raise_type

SEQ_ROOT = '_ensure_sequence'
# werkzeug request containers whose ``[key]`` raises (BadRequest)KeyError for a key the client did not send
RAISING_LOOKUPS = {'args', 'form', 'values', 'files', 'cookies', 'headers', 'environ', 'view_args'}


# ---------------------------------------------------------------------------------------------------------------- R15.f facts
def body_sequence_attrs(repo, resp_cls):
    """{attribute of the werkzeug Response classes: how it reaches _ensure_sequence} -- methods / properties that need the
    body as a sequence, read off the pinned source."""
    classes = [c for c in repo.mro(resp_cls) if isinstance(c, ClassInfo)]
    root = None
    for c in classes:
        if SEQ_ROOT in c.methods:
            root = c.methods[SEQ_ROOT]
            break
    if root is None or not any(isinstance(n, ast.Raise) and raise_type(n) == 'RuntimeError' for n in ast.walk(root.node)):
        raise AnalysisError('werkzeug BaseResponse._ensure_sequence (raising RuntimeError in passthrough mode) not found')
    out = {SEQ_ROOT: 'raises RuntimeError for a direct_passthrough response'}
    changed = True
    while changed:
        changed = False
        for c in classes:
            for name, fi in c.methods.items():
                if name in out:
                    continue
                selfname = fi.node.args.args[0].arg if fi.node.args.args else None
                for n in ast.walk(fi.node):
                    if isinstance(n, ast.Attribute) and isinstance(n.value, ast.Name) and n.value.id == selfname and n.attr in out \
                            and isinstance(n.ctx, ast.Load) and not _catches_runtime_error(fi, n):
                        out[name] = '%s.%s -> %s' % (c.name, name, n.attr)
                        changed = True
                        break
            for name, v in c.class_attrs.items():
                if name not in out and isinstance(v, ast.Call) and call_name(v) == 'property' and v.args and isinstance(v.args[0], ast.Name) \
                        and v.args[0].id in out:
                    out[name] = '%s.%s = property(%s)' % (c.name, name, v.args[0].id)
                    changed = True
    if not {'get_data', 'data'} <= set(out):
        raise AnalysisError('werkzeug: get_data / data do not reach _ensure_sequence in the pinned source (%s)' % sorted(out))
    return out


def _catches_runtime_error(fi, node):
    h = protected_by(fi, node, 'RuntimeError')
    return h is not None


# ---------------------------------------------------------------------------------------------------------------- R15.f
def check_body_reads(rep, rule, fi, seq_attrs, nd):
    """Every body-as-sequence operation on the next() result sits where ``not <result>.is_streamed`` is entailed."""
    if not nd:
        return
    mod, cfg = fi.mod, cfg_of(fi)
    loc = diffcon.Locals(fi.node, cfg, keep=nd)
    n_sites = 0
    seen = {}
    for n in walk_body(fi.node):
        if not (isinstance(n, ast.Attribute) and isinstance(n.value, ast.Name) and n.value.id in nd and n.attr in seq_attrs
                and isinstance(n.ctx, ast.Load)):
            continue
        n_sites += 1
        var = n.value.id
        st = stmt_of(mod, n)
        cs = expand_conds(loc.conds(conds(fi, n), mod))
        cs += expand_conds([(loc.resolve(t, st), p) for t, p in diffcon.short_circuit_conds(mod, n)])
        goal = ast.Attribute(value=ast.Name(id=var, ctx=ast.Load()), attr='is_streamed', ctx=ast.Load())
        try:
            ok, model = diffcon.prop_entails(cs, goal, False)
        except ValueError as e:
            raise AnalysisError('%s: path condition of %s too large to decide (%s)' % (fi.key, short(n), e))
        par = mod.parents.get(n)
        what = '%s.%s%s' % (var, n.attr, '()' if isinstance(par, ast.Call) and par.func is n else '')
        seen[what] = seen.get(what, 0) + 1
        if seen[what] > 1:
            what += ' #%d' % seen[what]
        rep.check(rule, fkey(fi, what), ok,
                  '%s (needs the body as a sequence: %s) only where the response is known not to be streamed' % (what, seq_attrs[n.attr]) if ok else
                  "%s needs the whole body in memory (werkzeug: %s, down to BaseResponse._ensure_sequence), but its path condition [%s] does not "
                  "entail 'not %s.is_streamed' (it holds e.g. with %s): a streamed response is buffered, and a direct_passthrough response "
                  "(wrap_file) raises RuntimeError inside the middleware -- the client gets a 500 instead of the file"
                  % (what, seq_attrs[n.attr], '; '.join(cond_texts(cs)) or 'none', var,
                     ', '.join('%s=%s' % (k, v) for k, v in sorted((model or {}).items())) or 'no condition at all'), mod, n)
    if not n_sites:
        rep.ok(rule, fkey(fi, 'body reads'), 'no operation on the next() result needs its body as a sequence', mod, fi.node)


# ---------------------------------------------------------------------------------------------------------------- R15.g
# headers that say what the body is / how the client must decode it (lower case)
REPR_HEADERS = {'content-type', 'content-encoding', 'content-length', 'transfer-encoding', 'content-range'}
HEADER_KEY_WRITERS = {'set', 'add', 'add_header', 'pop', 'remove', 'setlist', 'setlistdefault', '__setitem__', '__delitem__'}
HEADER_BULK_WRITERS = {'clear', 'update', 'extend', 'popitem'}


def _headers_of(e, nd, loc, st):
    """``e`` (named temporaries looked through) is ``<next() result>.headers``"""
    r = loc.resolve(e, st) if loc is not None and st is not None and loc.cfg.nodes_of(st) else e
    return isinstance(r, ast.Attribute) and r.attr == 'headers' and isinstance(r.value, ast.Name) and r.value.id in nd


def _repr_key(repo, mod, k):
    """a header name: does it describe the representation?  (a name that cannot be folded counts: it may)"""
    v = repo.try_fold(k, mod) if repo is not None else (k.value if isinstance(k, ast.Constant) else None)
    return not isinstance(v, str) or v.lower() in REPR_HEADERS


def body_mutators(fi, nd, body_attrs, body_calls, loc=None, repo=None):
    """AST nodes that change status, body or the description of the body of the next() result: stores to / deletes of the
    attributes, calls of the setters, and -- with ``loc`` -- writes of the representation headers through ``<result>.headers``
    (``h[..] = v`` / ``del h[..]`` / ``h.set(..)`` / ``h.pop(..)`` on Content-Type, -Encoding, -Length ..; ``h.clear()`` ...)."""
    muts = []
    mod = fi.mod
    for n in walk_body(fi.node):
        if isinstance(n, ast.Attribute) and isinstance(n.ctx, (ast.Store, ast.Del)) and isinstance(n.value, ast.Name) \
                and n.value.id in nd and n.attr in body_attrs:
            muts.append(n)
        if isinstance(n, ast.Call) and isinstance(n.func, ast.Attribute) and n.func.attr in body_calls \
                and isinstance(n.func.value, ast.Name) and n.func.value.id in nd:
            muts.append(n)
        if isinstance(n, ast.Call) and isinstance(n.func, ast.Name) and n.func.id in ('setattr', 'delattr') and len(n.args) >= 2 \
                and isinstance(n.args[0], ast.Name) and n.args[0].id in nd:
            a = repo.try_fold(n.args[1], mod) if repo is not None else None
            if not isinstance(a, str) or a in body_attrs:
                muts.append(n)
        if loc is None:
            continue
        if isinstance(n, ast.Subscript) and isinstance(n.ctx, (ast.Store, ast.Del)) and _headers_of(n.value, nd, loc, stmt_of(mod, n)) \
                and _repr_key(repo, mod, n.slice):
            muts.append(n)
        if isinstance(n, ast.Call) and isinstance(n.func, ast.Attribute) and _headers_of(n.func.value, nd, loc, stmt_of(mod, n)):
            if n.func.attr in HEADER_BULK_WRITERS or (n.func.attr in HEADER_KEY_WRITERS and (not n.args or _repr_key(repo, mod, n.args[0]))):
                muts.append(n)
    return muts


def mutator_text(mu):
    return norm(mu.func) if isinstance(mu, ast.Call) and isinstance(mu.func, ast.Attribute) else (short(mu) if isinstance(mu, ast.Call) else norm(mu))


def _own_exception_sites(fi, loc):
    """[(node, statement, description, exception name)] where the function itself produces an exception."""
    mod = fi.mod
    out = []
    for s in stmts_of(fi.node):
        if not isinstance(s, ast.Raise) or s.exc is None:
            continue
        handlers = [p for p in _ancestors(mod, s, fi.node) if isinstance(p, ast.ExceptHandler)]
        if handlers and isinstance(s.exc, ast.Name) and s.exc.id == handlers[0].name:
            continue            # ``except E as e: ...; raise e`` -- the exception of the inner layers, passed on
        out.append((s, s, 'raise %s' % (raise_type(s) or short(s.exc)), (raise_type(s) or 'Exception').rpartition('.')[2]))
    for n in walk_body(fi.node):
        if isinstance(n, ast.Subscript) and isinstance(n.ctx, ast.Load) and not isinstance(n.slice, ast.Slice):
            st = stmt_of(mod, n)
            if st is None or not loc.cfg.nodes_of(st):
                continue
            recv = loc.resolve(n.value, st)
            if isinstance(recv, ast.Attribute) and isinstance(recv.value, ast.Name) and recv.value.id == 'request' and recv.attr in RAISING_LOOKUPS:
                out.append((n, st, '%s[%s]' % (norm(recv), norm(n.slice)), 'KeyError'))
    return out


def check_own_exceptions(rep, rule, fi, nd, body_attrs, body_calls):
    mod, cfg = fi.mod, cfg_of(fi)
    loc = diffcon.Locals(fi.node, cfg, keep=nd)
    sites = _own_exception_sites(fi, loc)
    if not sites:
        rep.ok(rule, fkey(fi, 'own exceptions'), 'raises no exception of its own and does no raising lookup on request data', mod, fi.node)
        return
    mut_stmts = [stmt_of(mod, m) for m in body_mutators(fi, nd, body_attrs, body_calls, loc, rep.repo)]
    mut_nodes = set(cfg.nodes_of_all(mut_stmts))
    # where the middleware does change responses, its trigger is a test those changes sit under as well
    mut_tests = set((id(t), p) for m in mut_stmts for t, p in cfg.conds_at_stmt(m, expand=False))
    site_nodes = set(cfg.nodes_of_all([s for _, s, _, _ in sites]))
    for node, st, what, exc in sites:
        if protected_by(fi, node, exc) is not None:
            rep.ok(rule, fkey(fi, what), '%s is caught inside the middleware' % what, mod, node)
            continue
        at = [n for n in cfg.nodes_of(st) if cfg.reachable(n)]
        if not at:
            continue
        known = expand_conds(loc.conds(conds(fi, st), mod))
        if isinstance(node, ast.Subscript):
            # the key was tested first:  ``k in request.args``  on the way
            recv, key = norm(loc.resolve(node.value, st)), norm(loc.resolve(node.slice, st))
            if any(p is True and isinstance(t, ast.Compare) and len(t.ops) == 1 and isinstance(t.ops[0], ast.In)
                   and norm(t.left) == key and norm(t.comparators[0]) == recv for t, p in known):
                rep.ok(rule, fkey(fi, what), '%s only where the key is known to be present' % what, mod, node)
                continue
        triggers, rejected = [], []
        for t, p in cfg.conds_at_stmt(st, expand=False):
            der = loc.conds(cfg._expand_named(expand_conds([(t, p)]), at[0]), mod)
            if not any('request' in names_loaded(x) for x, _ in der):
                continue
            other = cfg.branch_nodes(t, not p)
            r = cfg.reach(other, normal_only=True)
            if cfg.exit in r and not (r & mut_nodes) and not (r & site_nodes) and (not mut_stmts or (id(t), p) in mut_tests):
                triggers.append((t, p))
            else:
                rejected.append((t, p))
        ok = bool(triggers)
        rep.check(rule, fkey(fi, what), ok,
                  '%s only when the middleware was asked to act (%s; otherwise the request passes through untouched)'
                  % (what, '; '.join(cond_texts(triggers))) if ok else
                  '%s is not dominated by the trigger of the middleware: no test on the request whose other side is a pure pass-through '
                  '(and under which the middleware makes its changes) comes before it%s -- a request that did not ask for this middleware can be answered with its exception (a 500 instead of the '
                  "application's response)" % (what, (' (%s is not that trigger: its other side goes on to change the response or raise, or the changes do not depend on it)'
                                                      % '; '.join(cond_texts(rejected))) if rejected else ''), mod, node)


# ---------------------------------------------------------------------------------------------------------------- sentinels
def _default_of_lookup(call, node):
    """``node`` is the default argument of the lookup ``call``: ``X.get(k, D)`` / ``X.pop(k, D)`` / ``getattr(x, n, D)`` / ``next(it, D)``"""
    if not isinstance(call, ast.Call) or call.keywords or any(isinstance(a, ast.Starred) for a in call.args):
        return False
    if isinstance(call.func, ast.Attribute) and call.func.attr in ('get', 'pop') and len(call.args) == 2:
        return call.args[1] is node
    if isinstance(call.func, ast.Name) and call.func.id == 'getattr' and len(call.args) == 3:
        return call.args[2] is node
    if isinstance(call.func, ast.Name) and call.func.id == 'next' and len(call.args) == 2:
        return call.args[1] is node
    return False


def module_sentinels(repo, mod):
    """Names of the *sentinels* of module ``mod``: bound once, at module level, to a fresh ``object()``; never imported / read by another
    module of the tree; read only as the default of a lookup (see _default_of_lookup) and as an operand of ``is`` / ``is not``; and the
    result of such a lookup is compared on the spot or kept in a local that is read only in identity tests or where the path condition
    says it is not the sentinel.  Then no container and no attribute ever holds the sentinel: ``X.get(k, S) is S`` says exactly that
    ``k`` is missing from ``X`` (and ``getattr(x, 'a', S) is S`` that ``x`` has no attribute ``a``)."""
    cached = getattr(mod, '_vt_sentinels', None)
    if cached is not None:
        return cached
    out = set()
    for name, vals in sorted(mod.assigns.items()):
        v = vals[0] if len(vals) == 1 else None
        if not (isinstance(v, ast.Call) and isinstance(v.func, ast.Name) and v.func.id == 'object' and not v.args and not v.keywords):
            continue
        if 'object' in mod.assigns or 'object' in mod.imports:
            continue
        if sum(1 for n in ast.walk(mod.tree) if (isinstance(n, ast.Name) and n.id == name and not isinstance(n.ctx, ast.Load)) or
               (isinstance(n, ast.arg) and n.arg == name) or (isinstance(n, (ast.Global, ast.Nonlocal)) and name in n.names)) != 1:
            continue
        seen_elsewhere = False
        for m in repo.all_internal_modules():
            if m is mod:
                continue
            if any(tgt == (mod.name, name) for tgt in m.imports.values()) or \
                    any(isinstance(n, ast.Attribute) and n.attr == name for n in ast.walk(m.tree)) or \
                    any(isinstance(n, ast.ImportFrom) and any(a.name == '*' for a in n.names) and m._abs_module(n) == mod.name for n in ast.walk(m.tree)):
                seen_elsewhere = True
        if seen_elsewhere:
            continue
        ok = True
        for n in ast.walk(mod.tree):
            if not (isinstance(n, ast.Name) and n.id == name and isinstance(n.ctx, ast.Load)) or not ok:
                continue
            par = mod.parents.get(n)
            if isinstance(par, ast.Compare) and all(isinstance(o, (ast.Is, ast.IsNot)) for o in par.ops):
                continue
            if not _default_of_lookup(par, n):
                ok = False
                continue
            gp = mod.parents.get(par)
            if isinstance(gp, ast.Compare) and all(isinstance(o, (ast.Is, ast.IsNot)) for o in gp.ops):
                continue
            # kept in a local: every read of it is an identity test, or sits where it is known not to be the sentinel
            fnode = mod.enclosing_function(par)
            fi = mod.func_of_node(fnode) if fnode is not None else None
            if not (isinstance(gp, ast.Assign) and len(gp.targets) == 1 and isinstance(gp.targets[0], ast.Name) and gp.value is par and fi is not None):
                ok = False
                continue
            var = gp.targets[0].id
            stores = [x for x in ast.walk(fi.node) if (isinstance(x, ast.Name) and x.id == var and not isinstance(x.ctx, ast.Load)) or
                      (isinstance(x, ast.arg) and x.arg == var)]
            if len(stores) != 1:
                ok = False
                continue
            for x in ast.walk(fi.node):
                if not (isinstance(x, ast.Name) and x.id == var and isinstance(x.ctx, ast.Load)):
                    continue
                xp = mod.parents.get(x)
                if isinstance(xp, ast.Compare) and all(isinstance(o, (ast.Is, ast.IsNot)) for o in xp.ops):
                    continue
                if mod.enclosing_function(x) is not fi.node:
                    ok = False
                    break
                known = list(conds(fi, x)) + list(diffcon.short_circuit_conds(mod, x))
                if not any((norm(t) in ('%s is %s' % (var, name), '%s is %s' % (name, var)) and p is False) or
                           (norm(t) in ('%s is not %s' % (var, name), '%s is not %s' % (name, var)) and p is True) for t, p in known):
                    ok = False
                    break
        if ok:
            out.add(name)
    mod._vt_sentinels = out
    return out


def presence_tests(repo, mod, test):
    """``test`` with the sentinel idiom read as the presence test it is: ``X.get(K, S) is S`` -> ``K not in X``, ``.. is not S`` -> ``K in X``
    (S a sentinel of the module, see module_sentinels).  Returns a new tree when something was rewritten, else ``test`` itself."""
    sent = module_sentinels(repo, mod)
    if not sent or not any(isinstance(n, ast.Name) and n.id in sent for n in ast.walk(test)):
        return test
    import copy

    class X(ast.NodeTransformer):
        def visit_Compare(self, node):
            self.generic_visit(node)
            if len(node.ops) != 1 or not isinstance(node.ops[0], (ast.Is, ast.IsNot)):
                return node
            a, b = node.left, node.comparators[0]
            if isinstance(a, ast.Name) and a.id in sent:
                a, b = b, a
            if not (isinstance(b, ast.Name) and b.id in sent and isinstance(a, ast.Call) and isinstance(a.func, ast.Attribute) and
                    a.func.attr == 'get' and len(a.args) == 2 and not a.keywords and isinstance(a.args[1], ast.Name) and a.args[1].id == b.id):
                return node
            op = ast.NotIn() if isinstance(node.ops[0], ast.Is) else ast.In()
            return ast.copy_location(ast.Compare(left=a.args[0], ops=[op], comparators=[a.func.value]), node)
    return X().visit(copy.deepcopy(test))


# ---------------------------------------------------------------------------------------------------------------- R15.h
CONTEXT_DROPPERS = {'pop', 'popitem', 'clear', '__delitem__'}


def _config_defaults(repo, fi):
    """{'self.<attr>': constant} -- what the attributes of the middleware a hook belongs to hold in the default configuration: the
    constructor of the enclosing class stores a parameter there whose default is a constant"""
    mod = fi.mod
    cur = mod.parents.get(fi.node)
    while cur is not None and not isinstance(cur, ast.ClassDef):
        cur = mod.parents.get(cur)
    ci = [c for c in mod.classes.values() if c.node is cur]
    if not ci:
        return {}
    init = repo.find_method(ci[0], '__init__')
    if init is None or init.mod.external:
        return {}
    a = init.node.args
    names = [x.arg for x in a.args]
    dflt = {}
    for i, d in enumerate(a.defaults):
        dflt[names[len(names) - len(a.defaults) + i]] = d
    for x, d in zip(a.kwonlyargs, a.kw_defaults):
        if d is not None:
            dflt[x.arg] = d
    out = {}
    stores = {}
    for s in stmts_of(init.node):
        if isinstance(s, ast.Assign):
            for t in s.targets:
                if isinstance(t, ast.Attribute) and isinstance(t.value, ast.Name) and t.value.id == names[0]:
                    stores.setdefault(t.attr, []).append(s.value)
    for attr, vals in stores.items():
        if len(vals) == 1 and isinstance(vals[0], ast.Name) and vals[0].id in dflt and _stored_once(init, vals[0].id):
            d = dflt[vals[0].id]
            if isinstance(d, ast.Constant):
                out['self.%s' % attr] = d.value
    return out


def _unsatisfiable(prem):
    """no truth assignment of the atoms satisfies all of [(test, polarity)]: True / False; None when there are too many atoms"""
    import itertools
    atoms = set()
    fs = []
    for t, p in prem:
        f = diffcon._formula(t, atoms)
        fs.append(f if p else ('not', f))
    names = sorted(atoms)
    if len(names) > diffcon.MAX_ATOMS:
        return None
    for vals in itertools.product((True, False), repeat=len(names)):
        env = dict(zip(names, vals))
        if all(diffcon._holds(f, env) for f in fs):
            return False
    return True


def defaults_used(fi, defaults):
    """{'self.x': node} for the configuration switches the function reads"""
    out = {}
    for x in walk_body(fi.node):
        if isinstance(x, ast.Attribute) and isinstance(x.ctx, ast.Load) and norm(x) in defaults:
            out.setdefault(norm(x), x)
    return out


def _entailed_on_every_way(cfg, loc, st, extra, goal, goal_pol, rewrite=None):
    """Does ``goal`` have truth value ``goal_pol`` whenever control reaches statement ``st``?  The condition of a node is the
    disjunction, over the normal edges into it, of the condition of the predecessor (and the outcome of the test, for a branch);
    it is cut (true) at the function entry, at the start of a loop iteration and at exception handlers, and a test that reads a
    name re-bound on the way is dropped.  ``extra``: further premises [(expression, polarity)]."""
    import itertools
    from ..astutil import names_stored
    targets = [n for n in cfg.nodes_of(st) if cfg.reachable(n)]
    if not targets:
        return False
    CUT = ('entry', 'iter', 'handler', 'pending-exc', 'dispatch', 'exhaust')
    region, todo = set(), list(targets)
    while todo:
        n = todo.pop()
        if n in region:
            continue
        region.add(n)
        if cfg.nodes[n].kind in CUT:
            continue
        todo.extend(p for p in cfg.pred[n] if (p, n) not in cfg.exc_edges)
    rebound = set()
    for n in region:
        nd = cfg.nodes[n]
        if nd.stmt is not None and nd.kind == 'stmt' and n not in targets:
            rebound |= names_stored(nd.stmt)
    atoms = set()
    memo, stack = {}, set()

    def cond(n):
        if n in memo:
            return memo[n]
        nd = cfg.nodes[n]
        if nd.kind in CUT or n in stack:
            return ('const', True)
        stack.add(n)
        ways = [cond(p) for p in cfg.pred[n] if (p, n) not in cfg.exc_edges]
        stack.discard(n)
        f = ('or', ways) if ways else ('const', nd.kind == 'entry')
        if nd.kind == 'branch':
            t = loc.resolve(nd.test, nd.stmt) if cfg.nodes_of(nd.stmt) else nd.test
            if rewrite is not None:
                t = rewrite(t)
            if not (set(x.id for x in ast.walk(t) if isinstance(x, ast.Name)) & rebound):
                own = diffcon._formula(t, atoms)
                f = ('and', [f, own if nd.pol else ('not', own)])
        memo[n] = f
        return f
    prem = [('or', [cond(n) for n in targets])]
    for e, pol in extra:
        fe = diffcon._formula(e, atoms)
        prem.append(fe if pol else ('not', fe))
    g = diffcon._formula(goal, atoms)
    if not goal_pol:
        g = ('not', g)
    names = sorted(atoms)
    if len(names) > diffcon.MAX_ATOMS:
        return False
    for vals in itertools.product((True, False), repeat=len(names)):
        env = dict(zip(names, vals))
        if all(diffcon._holds(f, env) for f in prem) and not diffcon._holds(g, env):
            return False
    return True


def _stored_once(init, name):
    return not any(isinstance(n, ast.Name) and n.id == name and isinstance(n.ctx, (ast.Store, ast.Del)) for n in ast.walk(init.node))


def check_render_context(rep, rule, fi):
    """A render hook (parameter ``context``) of a built-in middleware, in the default configuration, only fills keys the endpoint
    left unset: every store ``context[k] = v`` sits where the path condition -- together with what the constructor defaults say
    about the middleware's own switches -- entails ``k not in context``; nothing is removed from the context."""
    if 'context' not in fi.params():
        return
    mod, cfg = fi.mod, cfg_of(fi)
    loc = diffcon.Locals(fi.node, cfg)
    defaults = _config_defaults(rep.repo, fi)
    n_sites = 0
    for n in walk_body(fi.node):
        key = None
        if isinstance(n, ast.Subscript) and isinstance(n.ctx, (ast.Store, ast.Del)) and isinstance(n.value, ast.Name) and n.value.id == 'context':
            if isinstance(n.ctx, ast.Del):
                n_sites += 1
                rep.check(rule, fkey(fi, 'del context[%s]' % norm(n.slice)), False,
                          'a value the endpoint put into the render context is removed (%s): the rendered body changes' % short(stmt_of(mod, n)), mod, n)
                continue
            key = n.slice
        elif isinstance(n, ast.Call) and isinstance(n.func, ast.Attribute) and isinstance(n.func.value, ast.Name) and n.func.value.id == 'context':
            if n.func.attr in CONTEXT_DROPPERS:
                n_sites += 1
                rep.check(rule, fkey(fi, 'context.%s()' % n.func.attr), False,
                          'a value the endpoint put into the render context is removed (%s): the rendered body changes' % short(n), mod, n)
                continue
            if n.func.attr == 'update':
                # several keys at once: fine when the source is filtered to keys that are unset, or when the statement cannot run in
                # the default configuration (it sits under a switch of the middleware that is off by default)
                n_sites += 1
                st = stmt_of(mod, n)
                srcs = [loc.resolve(a, st) for a in n.args]
                filtered = bool(srcs) and not n.keywords and all(
                    isinstance(x, (ast.GeneratorExp, ast.ListComp, ast.DictComp)) and
                    any(isinstance(i, ast.Compare) and len(i.ops) == 1 and isinstance(i.ops[0], ast.NotIn) and norm(i.comparators[0]) == 'context'
                        for g in x.generators for i in g.ifs) for x in srcs)
                cs = expand_conds(loc.conds(conds(fi, n), mod))
                used = {}
                for t, _ in cs:
                    for x in ast.walk(t):
                        if isinstance(x, ast.Attribute) and norm(x) in defaults:
                            used[norm(x)] = x
                dead = _unsatisfiable(cs + [(x, bool(defaults[k])) for k, x in sorted(used.items())])
                if dead is None:
                    raise AnalysisError('%s: path condition of %s too large to decide' % (fi.key, short(st)))
                ok = filtered or dead
                rep.check(rule, fkey(fi, 'context.update()'), ok,
                          '%s writes only keys that are unset / cannot run in the default configuration' % short(n) if ok else
                          '%s writes its keys into the render context whether or not the endpoint set them (default configuration): values the '
                          'endpoint returned are replaced and the rendered body changes' % short(n), mod, n)
            continue
        else:
            continue
        n_sites += 1
        st = stmt_of(mod, n)
        # (a sentinel lookup ``context.get(k, _UNSET) is _UNSET`` is the presence test ``k not in context``)
        as_presence = lambda t: presence_tests(rep.repo, mod, t)
        cs = [(as_presence(t), p) for t, p in expand_conds(loc.conds(conds(fi, n), mod))]
        used = {}
        for t, _ in cs:
            for x in ast.walk(t):
                if isinstance(x, ast.Attribute) and norm(x) in defaults:
                    used[norm(x)] = x
        prem = cs + [(x, bool(defaults[k])) for k, x in sorted(used.items())]
        goal = ast.Compare(left=key, ops=[ast.In()], comparators=[ast.Name(id='context', ctx=ast.Load())])
        try:
            ok, model = diffcon.prop_entails(prem, goal, False)
        except ValueError as e:
            raise AnalysisError('%s: path condition of %s too large to decide (%s)' % (fi.key, short(st), e))
        if not ok:
            # the tests may not dominate the store (``if k in context: if not self.overwrite: continue``): decide over the
            # disjunction of the ways into the statement instead
            ok = _entailed_on_every_way(cfg, loc, st, [(x, bool(defaults[k])) for k, x in sorted(defaults_used(fi, defaults).items())], goal, False, rewrite=as_presence)
        rep.check(rule, fkey(fi, 'context[%s] = ..' % norm(key)), ok,
                  'context[%s] is filled only where it is known to be unset (default configuration: %s)'
                  % (norm(key), ', '.join('%s=%r' % (k, defaults[k]) for k in sorted(used)) or 'no switch involved') if ok else
                  "context[%s] is stored where, in the default configuration (%s), the path condition [%s] does not entail '%s not in context': a value the "
                  'endpoint returned is replaced and the rendered body changes'
                  % (norm(key), ', '.join('%s=%r' % (k, defaults[k]) for k in sorted(used)) or 'no switch of the middleware on the path',
                     '; '.join(cond_texts(cs)) or 'none', norm(key)), mod, n)
    if not n_sites:
        rep.ok(rule, fkey(fi, 'render context'), 'the render hook does not write the render context', mod, fi.node)


def cond_texts(cs):
    out = []
    for t, p in cs:
        txt = short(t, 70)
        out.append(txt if p else ('not (%s)' % txt if isinstance(t, (ast.BoolOp, ast.Compare, ast.UnaryOp, ast.IfExp)) else 'not ' + txt))
    return out


def _ancestors(mod, node, stop=None):
    cur = mod.parents.get(node)
    while cur is not None and cur is not stop:
        yield cur
        cur = mod.parents.get(cur)
