"""C15, rules R15.f / R15.g -- what a built-in middleware may do to a response it did not ask to change.

R15.f  body as a sequence.  Some werkzeug response operations need the whole body in memory: they go through
       ``BaseResponse._ensure_sequence`` (read from the pinned werkzeug source, together with everything that reaches it
       through ``self.<method>()`` / ``self.<property>`` outside a ``try`` catching RuntimeError: get_data, the ``data``
       property, add_etag, freeze, get_json ...).  ``_ensure_sequence`` raises RuntimeError for a ``direct_passthrough``
       response and buffers a generator body.  Such an operation on the value returned by ``next()`` is therefore allowed only
       where the path condition *entails* ``not <result>.is_streamed``.  Entailment is decided over the conditions as
       formulas (diffcon.prop_entails): ``not (a and s)`` is not ``not s``.
R15.g  exceptions of its own.  A pass-through middleware answers with an error of its own making (an explicit ``raise`` of a
       new exception, or a lookup documented to raise on request data: ``request.args[k]`` & co.) only where it was asked to
       act: the site is dominated by a *trigger* -- a branch whose test reads the request and whose other side is a pure
       pass-through (every path from there ends in a normal return; no body/status mutation, no own exception on the way).
       A validity test (``if sort_key not in KNOWN: raise``) is not a trigger: its other side goes on to change the response.
"""
import ast

from ..core import AnalysisError, norm, short
from ..loader import ClassInfo
from .. import diffcon
from ..cfg import expand_conds
from .common import cfg_of, fkey, conds, stmts_of, walk_body, call_name, stmt_of, names_loaded, protected_by, raise_type

SEQ_ROOT = '_ensure_sequence'
# werkzeug request containers whose ``[key]`` raises (BadRequest)KeyError for a key the client did not send
RAISING_LOOKUPS = {'args', 'form', 'values', 'files', 'cookies', 'headers', 'environ', 'view_args'}


# ---------------------------------------------------------------------------------------------------------------- R15.f facts
def body_sequence_attrs(repo, resp_cls):
    """{attribute of the werkzeug Response classes: how it reaches _ensure_sequence} -- methods / properties that need the
    body as a sequence, read off the pinned source."""
    classes = [c for c in repo.mro(resp_cls) if isinstance(c, ClassInfo)]
    root = None
    for c in classes:
        if SEQ_ROOT in c.methods:
            root = c.methods[SEQ_ROOT]
            break
    if root is None or not any(isinstance(n, ast.Raise) and raise_type(n) == 'RuntimeError' for n in ast.walk(root.node)):
        raise AnalysisError('werkzeug BaseResponse._ensure_sequence (raising RuntimeError in passthrough mode) not found')
    out = {SEQ_ROOT: 'raises RuntimeError for a direct_passthrough response'}
    changed = True
    while changed:
        changed = False
        for c in classes:
            for name, fi in c.methods.items():
                if name in out:
                    continue
                selfname = fi.node.args.args[0].arg if fi.node.args.args else None
                for n in ast.walk(fi.node):
                    if isinstance(n, ast.Attribute) and isinstance(n.value, ast.Name) and n.value.id == selfname and n.attr in out \
                            and isinstance(n.ctx, ast.Load) and not _catches_runtime_error(fi, n):
                        out[name] = '%s.%s -> %s' % (c.name, name, n.attr)
                        changed = True
                        break
            for name, v in c.class_attrs.items():
                if name not in out and isinstance(v, ast.Call) and call_name(v) == 'property' and v.args and isinstance(v.args[0], ast.Name) \
                        and v.args[0].id in out:
                    out[name] = '%s.%s = property(%s)' % (c.name, name, v.args[0].id)
                    changed = True
    if not {'get_data', 'data'} <= set(out):
        raise AnalysisError('werkzeug: get_data / data do not reach _ensure_sequence in the pinned source (%s)' % sorted(out))
    return out


def _catches_runtime_error(fi, node):
    h = protected_by(fi, node, 'RuntimeError')
    return h is not None


# ---------------------------------------------------------------------------------------------------------------- R15.f
def check_body_reads(rep, rule, fi, seq_attrs, nd):
    """Every body-as-sequence operation on the next() result sits where ``not <result>.is_streamed`` is entailed."""
    if not nd:
        return
    mod, cfg = fi.mod, cfg_of(fi)
    loc = diffcon.Locals(fi.node, cfg, keep=nd)
    n_sites = 0
    seen = {}
    for n in walk_body(fi.node):
        if not (isinstance(n, ast.Attribute) and isinstance(n.value, ast.Name) and n.value.id in nd and n.attr in seq_attrs
                and isinstance(n.ctx, ast.Load)):
            continue
        n_sites += 1
        var = n.value.id
        st = stmt_of(mod, n)
        cs = expand_conds(loc.conds(conds(fi, n), mod))
        cs += expand_conds([(loc.resolve(t, st), p) for t, p in diffcon.short_circuit_conds(mod, n)])
        goal = ast.Attribute(value=ast.Name(id=var, ctx=ast.Load()), attr='is_streamed', ctx=ast.Load())
        try:
            ok, model = diffcon.prop_entails(cs, goal, False)
        except ValueError as e:
            raise AnalysisError('%s: path condition of %s too large to decide (%s)' % (fi.key, short(n), e))
        par = mod.parents.get(n)
        what = '%s.%s%s' % (var, n.attr, '()' if isinstance(par, ast.Call) and par.func is n else '')
        seen[what] = seen.get(what, 0) + 1
        if seen[what] > 1:
            what += ' #%d' % seen[what]
        rep.check(rule, fkey(fi, what), ok,
                  '%s (needs the body as a sequence: %s) only where the response is known not to be streamed' % (what, seq_attrs[n.attr]) if ok else
                  "%s needs the whole body in memory (werkzeug: %s, down to BaseResponse._ensure_sequence), but its path condition [%s] does not "
                  "entail 'not %s.is_streamed' (it holds e.g. with %s): a streamed response is buffered, and a direct_passthrough response "
                  "(wrap_file) raises RuntimeError inside the middleware -- the client gets a 500 instead of the file"
                  % (what, seq_attrs[n.attr], '; '.join(cond_texts(cs)) or 'none', var,
                     ', '.join('%s=%s' % (k, v) for k, v in sorted((model or {}).items())) or 'no condition at all'), mod, n)
    if not n_sites:
        rep.ok(rule, fkey(fi, 'body reads'), 'no operation on the next() result needs its body as a sequence', mod, fi.node)


# ---------------------------------------------------------------------------------------------------------------- R15.g
def body_mutators(fi, nd, body_attrs, body_calls):
    """AST nodes that replace body / status of the next() result (stores to the attributes, calls of the setters)."""
    muts = []
    for n in walk_body(fi.node):
        if isinstance(n, ast.Attribute) and isinstance(n.ctx, ast.Store) and isinstance(n.value, ast.Name) \
                and n.value.id in nd and n.attr in body_attrs:
            muts.append(n)
        if isinstance(n, ast.Call) and isinstance(n.func, ast.Attribute) and n.func.attr in body_calls \
                and isinstance(n.func.value, ast.Name) and n.func.value.id in nd:
            muts.append(n)
    return muts


def _own_exception_sites(fi, loc):
    """[(node, statement, description, exception name)] where the function itself produces an exception."""
    mod = fi.mod
    out = []
    for s in stmts_of(fi.node):
        if not isinstance(s, ast.Raise) or s.exc is None:
            continue
        handlers = [p for p in _ancestors(mod, s, fi.node) if isinstance(p, ast.ExceptHandler)]
        if handlers and isinstance(s.exc, ast.Name) and s.exc.id == handlers[0].name:
            continue            # ``except E as e: ...; raise e`` -- the exception of the inner layers, passed on
        out.append((s, s, 'raise %s' % (raise_type(s) or short(s.exc)), (raise_type(s) or 'Exception').rpartition('.')[2]))
    for n in walk_body(fi.node):
        if isinstance(n, ast.Subscript) and isinstance(n.ctx, ast.Load) and not isinstance(n.slice, ast.Slice):
            st = stmt_of(mod, n)
            if st is None or not loc.cfg.nodes_of(st):
                continue
            recv = loc.resolve(n.value, st)
            if isinstance(recv, ast.Attribute) and isinstance(recv.value, ast.Name) and recv.value.id == 'request' and recv.attr in RAISING_LOOKUPS:
                out.append((n, st, '%s[%s]' % (norm(recv), norm(n.slice)), 'KeyError'))
    return out


def check_own_exceptions(rep, rule, fi, nd, body_attrs, body_calls):
    mod, cfg = fi.mod, cfg_of(fi)
    loc = diffcon.Locals(fi.node, cfg, keep=nd)
    sites = _own_exception_sites(fi, loc)
    if not sites:
        rep.ok(rule, fkey(fi, 'own exceptions'), 'raises no exception of its own and does no raising lookup on request data', mod, fi.node)
        return
    mut_stmts = [stmt_of(mod, m) for m in body_mutators(fi, nd, body_attrs, body_calls)]
    mut_nodes = set(cfg.nodes_of_all(mut_stmts))
    # where the middleware does change responses, its trigger is a test those changes sit under as well
    mut_tests = set((id(t), p) for m in mut_stmts for t, p in cfg.conds_at_stmt(m, expand=False))
    site_nodes = set(cfg.nodes_of_all([s for _, s, _, _ in sites]))
    for node, st, what, exc in sites:
        if protected_by(fi, node, exc) is not None:
            rep.ok(rule, fkey(fi, what), '%s is caught inside the middleware' % what, mod, node)
            continue
        at = [n for n in cfg.nodes_of(st) if cfg.reachable(n)]
        if not at:
            continue
        known = expand_conds(loc.conds(conds(fi, st), mod))
        if isinstance(node, ast.Subscript):
            # the key was tested first:  ``k in request.args``  on the way
            recv, key = norm(loc.resolve(node.value, st)), norm(loc.resolve(node.slice, st))
            if any(p is True and isinstance(t, ast.Compare) and len(t.ops) == 1 and isinstance(t.ops[0], ast.In)
                   and norm(t.left) == key and norm(t.comparators[0]) == recv for t, p in known):
                rep.ok(rule, fkey(fi, what), '%s only where the key is known to be present' % what, mod, node)
                continue
        triggers, rejected = [], []
        for t, p in cfg.conds_at_stmt(st, expand=False):
            der = loc.conds(cfg._expand_named(expand_conds([(t, p)]), at[0]), mod)
            if not any('request' in names_loaded(x) for x, _ in der):
                continue
            other = cfg.branch_nodes(t, not p)
            r = cfg.reach(other, normal_only=True)
            if cfg.exit in r and not (r & mut_nodes) and not (r & site_nodes) and (not mut_stmts or (id(t), p) in mut_tests):
                triggers.append((t, p))
            else:
                rejected.append((t, p))
        ok = bool(triggers)
        rep.check(rule, fkey(fi, what), ok,
                  '%s only when the middleware was asked to act (%s; otherwise the request passes through untouched)'
                  % (what, '; '.join(cond_texts(triggers))) if ok else
                  '%s is not dominated by the trigger of the middleware: no test on the request whose other side is a pure pass-through '
                  '(and under which the middleware makes its changes) comes before it%s -- a request that did not ask for this middleware can be answered with its exception (a 500 instead of the '
                  "application's response)" % (what, (' (%s is not that trigger: its other side goes on to change the response or raise, or the changes do not depend on it)'
                                                      % '; '.join(cond_texts(rejected))) if rejected else ''), mod, node)


def cond_texts(cs):
    out = []
    for t, p in cs:
        txt = short(t, 70)
        out.append(txt if p else ('not (%s)' % txt if isinstance(t, (ast.BoolOp, ast.Compare, ast.UnaryOp, ast.IfExp)) else 'not ' + txt))
    return out


def _ancestors(mod, node, stop=None):
    cur = mod.parents.get(node)
    while cur is not None and cur is not stop:
        yield cur
        cur = mod.parents.get(cur)
