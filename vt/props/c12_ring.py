"""C12, rule R12.e -- the rest of the tree that runs while a request is served writes no long-lived object.

R12.a judges the framework core (the call-graph closure of ``Application.__call__``) with a strict classification:
whatever is not known to be fresh or request-local counts as shared.  The property, however, is about *every* piece of
clastic that runs while a request is served: the built-in middlewares, the renderers, the applications clastic ships
(static files, meta, ...).  Their code is full of locals whose role the core's tables do not know, so the judgement
here is the dual one -- an effect is a violation when its receiver is **positively long-lived**:

  L1  ``self`` (or a local that only ever names ``self.<chain>`` without a call / copy) inside a class whose instances
      outlive a request: the Middleware / Application / Route / ErrorHandler families, everything under
      ``clastic.render``, duck-typed middlewares (a method whose first parameter is ``next``), and every class such an
      object instantiates while it is being constructed or that is instantiated at module level;
  L2  a class object: ``cls.x``, ``type(self).x``, ``self.__class__.x``, ``SomeClass.x`` -- one per process;
  L3  a class-level mutable attribute reached through an instance (``self.seen.append(..)`` where ``seen = []`` is
      written in the class body and no method ever assigns ``self.seen``);
  L4  a module-level object (``_CACHE[k] = v``, ``_SEEN.append(..)``, ``global X`` + assignment), also under a local
      that only ever names it;
  L5  the default object of a parameter (evaluated once, when the ``def`` is executed) updated in place;
  L6  a default expression that calls something (``started=time.time()``, ``ident=next(_COUNTER)``): evaluated once at
      definition, every request sees the first value.

Scope: every function of the analysed tree outside the core modules (those are R12.a's) and outside the development
server, except code that only runs while an object is constructed (``__init__`` / ``__new__`` and private methods only
they call) -- a long-lived object may of course be filled in by its own constructor.  L5 / L6 also run over the core's
request path.  The statistics classes aggregate across requests by design (table).
"""
import ast

from ..core import AnalysisError, norm, short
from ..loader import ClassInfo
from .. import effects
from ..astutil import assigned_value, stmts_of, walk_body
from .noninterf import CORE_MODS

# the WSGI *server* side shipped with clastic (development server, reloader): the caller of an Application, not a part of it
SERVER_MODS = ('clastic.server', 'clastic._werkzeug_serving')
LONG_LIVED_BASES = [('clastic.middleware.core', 'Middleware'), ('clastic.application', 'Application'), ('clastic.application', 'SubApplication'),
                    ('clastic.route', 'Route'), ('clastic.route', 'BoundRoute'), ('clastic.errors', 'ErrorHandler')]
# (module in whose namespace the class is known, name there): the entry denotes the *definition* that name resolves to -- the
# class statement itself, wherever in the package it is written (it may live in another module and be imported back)
SHARED_BY_DESIGN = {
    ('clastic.middleware.stats', 'Reservoir'): 'sampling reservoir of the statistics middleware: aggregates across requests by design',
    ('clastic.middleware.stats', 'StatsMiddleware'): 'route_hits counters: shared by design (the middleware exists to aggregate across requests)',
}
CTOR_NAMES = ('__init__', '__new__', '__init_subclass__', '__set_name__', '__post_init__', '__attrs_post_init__')
IMMUTABLE_CTORS = {'tuple', 'frozenset', 'object', 'int', 'float', 'str', 'bytes', 'bool', 'complex'}


def _class_of(repo, fi):
    if fi.cls is not None:
        return fi.cls
    parts = fi.qualname.split('.')
    for i in range(len(parts) - 1, 0, -1):
        q = '.'.join(parts[:i])
        if q in fi.mod.classes:
            return fi.mod.classes[q]
    return None


def _enclosing_funcs(fi):
    """FuncInfos of the functions the (nested) function ``fi`` is defined in, innermost first."""
    out = []
    parts = fi.qualname.split('.')
    for i in range(len(parts) - 1, 0, -1):
        q = '.'.join(parts[:i])
        if q in fi.mod.functions:
            out.append(fi.mod.functions[q])
    return out


def _local_names(fi):
    out = set(fi.params())
    a = fi.node.args
    for x in (a.vararg, a.kwarg):
        if x is not None:
            out.add(x.arg)
    if isinstance(fi.node, ast.Lambda):
        return out
    declared_global = set()
    for n in walk_body(fi.node):
        if isinstance(n, ast.Global):
            declared_global.update(n.names)
    for n in walk_body(fi.node):
        if isinstance(n, ast.Name) and isinstance(n.ctx, (ast.Store, ast.Del)):
            out.add(n.id)
        elif isinstance(n, (ast.FunctionDef, ast.AsyncFunctionDef, ast.ClassDef)) and n is not fi.node:
            out.add(n.name)
        elif isinstance(n, ast.ExceptHandler) and n.name:
            out.add(n.name)
        elif isinstance(n, (ast.Import, ast.ImportFrom)):
            for al in n.names:
                out.add((al.asname or al.name).split('.')[0])
    return out - declared_global


def mutable_default(d):
    """A default expression whose value is (or may be) a mutable object: a list / dict / set display or comprehension,
    a call of anything but an immutable constructor."""
    if isinstance(d, (ast.List, ast.Dict, ast.Set, ast.ListComp, ast.DictComp, ast.SetComp)):
        return True
    if isinstance(d, ast.Call):
        return not (isinstance(d.func, ast.Name) and d.func.id in IMMUTABLE_CTORS)
    return False


def defaults_of(fnode):
    a = fnode.args
    pos = a.posonlyargs + a.args
    out = dict(zip([x.arg for x in pos[len(pos) - len(a.defaults):]], a.defaults))
    out.update((x.arg, d) for x, d in zip(a.kwonlyargs, a.kw_defaults) if d is not None)
    return out


def computed_call(repo, fi, d):
    """The first call inside a default expression that is not the construction of an object (a container constructor, a
    class of the analysed tree, an immutable constructor): its *value* is computed once, when the ``def`` is executed --
    ``time.time()``, ``next(counter)``, ``os.getpid()`` -- else None."""
    todo = [d]
    while todo:
        n = todo.pop(0)
        if isinstance(n, ast.Lambda):
            continue                      # evaluated when called
        if isinstance(n, ast.Call):
            f = n.func
            ctor = False
            if isinstance(f, ast.Name):
                if f.id in IMMUTABLE_CTORS or f.id in effects.FRESH_CALLS:
                    ctor = True
                else:
                    try:
                        ctor = repo.resolve(fi.mod, f.id)[0] == 'class'
                    except Exception:
                        ctor = False
            if not ctor:
                return n
        todo.extend(ast.iter_child_nodes(n))
    return None


class Ring(object):
    def __init__(self, repo, rp):
        self.repo, self.rp = repo, rp
        self.mods = [m for m in repo.all_internal_modules() if not m.external]
        self.classes = [c for m in self.mods for c in m.classes.values()]
        self._mro = {}
        self._ctor_only = {}
        self._design = None
        self.long_lived = self._long_lived()

    def mro(self, ci):
        if ci not in self._mro:
            try:
                self._mro[ci] = self.repo.mro(ci)
            except RecursionError:
                self._mro[ci] = [ci]
        return self._mro[ci]

    # -- which classes outlive a request ---------------------------------------------------------------------------------
    def _per_request(self, ci):
        if self.rp.is_per_request_class(ci):
            return True
        import builtins
        for b in self.mro(ci):
            if not isinstance(b, ClassInfo):
                t = getattr(builtins, str(b).rpartition('.')[2], None)
                if isinstance(t, type) and issubclass(t, BaseException):
                    return True         # an exception class: instances are created where they are raised
        return False

    def _ctor_funcs(self, ci):
        """constructor code of the class: ``__init__`` / ``__new__`` ... and the private methods only they call"""
        out = [m for n, m in ci.methods.items() if n in CTOR_NAMES]
        for n in self.ctor_only(ci):
            out.append(ci.methods[n])
        return out

    def ctor_only(self, ci):
        if ci not in self._ctor_only:
            from .c12 import _construction_only_methods
            try:
                self._ctor_only[ci] = _construction_only_methods(self.repo, ci)
            except Exception:
                self._ctor_only[ci] = set()
        return self._ctor_only[ci]

    def _classes_named_in(self, mod, node, skip_defs=True):
        out = []
        todo = [node]
        while todo:
            n = todo.pop()
            if isinstance(n, ast.Name) and isinstance(n.ctx, ast.Load):
                kind, m_, obj = self.repo.resolve(mod, n.id)
                if kind == 'class' and isinstance(obj, ClassInfo) and not obj.mod.external:
                    out.append(obj)
            for c in ast.iter_child_nodes(n):
                if skip_defs and isinstance(c, (ast.FunctionDef, ast.AsyncFunctionDef, ast.ClassDef)):
                    continue
                todo.append(c)
        return out

    def _long_lived(self):
        repo = self.repo
        bases = []
        for mn, cn in LONG_LIVED_BASES:
            m = repo.try_mod(mn)
            if m is None:
                continue
            try:
                bases.append(m.cls(cn))         # the definition, wherever in the package it is written now
            except AnalysisError:
                continue
        ll = {}
        for c in self.classes:
            if self._per_request(c):
                continue
            fam = [b for b in bases if b is c or b in self.mro(c)]
            if fam:
                ll[c] = 'a %s' % fam[0].name
            elif c.mod.name == 'clastic.render' or c.mod.name.startswith('clastic.render.'):
                ll[c] = 'a renderer / render factory (held by the routes)'
            elif any([p for p in m.params() if p not in ('self', 'cls')][:1] == ['next'] for m in c.methods.values()):
                ll[c] = 'a middleware by shape (a method takes ``next`` first)'
        # instantiated at module level / in a class body / as a default: one object per process
        for m in self.mods:
            for st in m.tree.body:
                if isinstance(st, (ast.FunctionDef, ast.AsyncFunctionDef)):
                    hosts = list(st.args.defaults) + [d for d in st.args.kw_defaults if d is not None]
                elif isinstance(st, ast.ClassDef):
                    hosts = [s for s in st.body if not isinstance(s, (ast.FunctionDef, ast.AsyncFunctionDef, ast.ClassDef))]
                    for s in st.body:
                        if isinstance(s, (ast.FunctionDef, ast.AsyncFunctionDef)):
                            hosts += list(s.args.defaults) + [d for d in s.args.kw_defaults if d is not None]
                else:
                    hosts = [st]
                for h in hosts:
                    for call in [n for n in ast.walk(h) if isinstance(n, ast.Call) and isinstance(n.func, ast.Name)]:
                        if m.enclosing_function(call) is not None and not isinstance(st, (ast.FunctionDef, ast.AsyncFunctionDef, ast.ClassDef)):
                            continue
                        kind, m_, obj = repo.resolve(m, call.func.id)
                        if kind == 'class' and isinstance(obj, ClassInfo) and not obj.mod.external and obj not in ll and not self._per_request(obj):
                            ll[obj] = 'instantiated at module / class level in %s' % m.name
        # whatever a long-lived object creates while it is constructed lives as long as it does
        changed = True
        while changed:
            changed = False
            for c in list(ll):
                for f in self._ctor_funcs(c):
                    for k in self._classes_named_in(c.mod, f.node, skip_defs=False):
                        if k not in ll and not self._per_request(k):
                            ll[k] = 'created by the constructor of %s' % c.name
                            changed = True
                # ... and so does what any of its methods stores into the object (``self.hits = defaultdict(lambda: Reservoir())``)
                for f in c.methods.values():
                    for st in stmts_of(f.node):
                        if isinstance(st, (ast.Assign, ast.AugAssign, ast.AnnAssign)) and getattr(st, 'value', None) is not None:
                            tg = st.targets if isinstance(st, ast.Assign) else [st.target]
                            if any((effects.chain_of(t) or [None])[0] == 'self' for t0 in tg for t in effects._targets(t0) if isinstance(t, (ast.Attribute, ast.Subscript))):
                                for k in self._classes_named_in(c.mod, st.value, skip_defs=False):
                                    if k not in ll and not self._per_request(k):
                                        ll[k] = 'stored into a %s by %s' % (c.name, f.name)
                                        changed = True
            # subclasses and (for the methods they contribute) bases of a long-lived class
            for c in self.classes:
                if c not in ll and not self._per_request(c) and any(isinstance(b, ClassInfo) and b in ll for b in self.mro(c)[1:]):
                    ll[c] = 'derives from a long-lived class'
                    changed = True
            for c in list(ll):
                for b in self.mro(c)[1:]:
                    if isinstance(b, ClassInfo) and not b.mod.external and b not in ll and not self._per_request(b):
                        ll[b] = 'base of the long-lived class %s' % c.name
                        changed = True
        return ll

    def design_classes(self):
        """{ClassInfo: reason} -- the definitions the table of classes that are shared by design names: each entry is
        resolved in the namespace of the module it mentions (``repo.resolve`` follows an import to the class statement)."""
        if self._design is None:
            self._design = {}
            for (mn, cn), why in SHARED_BY_DESIGN.items():
                m = self.repo.try_mod(mn)
                if m is None or m.external:
                    continue
                try:
                    kind, m_, obj = self.repo.resolve(m, cn)
                except Exception:
                    continue
                if kind == 'class' and isinstance(obj, ClassInfo) and not obj.mod.external:
                    self._design[obj] = why
        return self._design

    def by_design(self, ci):
        table = self.design_classes()
        for b in self.mro(ci):
            if isinstance(b, ClassInfo) and b in table:
                return table[b]
        return None

    # -- which functions ---------------------------------------------------------------------------------------------------
    def functions(self):
        """[(FuncInfo, enclosing class or None)] -- every function outside the core / the server modules that is not
        construction code."""
        out = []
        for m in self.mods:
            if m in self.rp.mods or m.name in SERVER_MODS:
                continue
            for fi in m.functions.values():
                if isinstance(fi.node, ast.Lambda):
                    continue
                ci = _class_of(self.repo, fi)
                if self.is_construction(fi, ci):
                    continue
                out.append((fi, ci))
        return out

    def is_construction(self, fi, ci):
        parts = fi.qualname.split('.')
        if ci is None:
            return False
        # the method itself -- not a function nested in it: a closure the constructor builds (and stores / hands on) runs later,
        # while requests are served
        cq = ci.qualname.split('.')
        if len(parts) != len(cq) + 1:
            return False
        meth = parts[len(cq)]
        return meth in CTOR_NAMES or meth in self.ctor_only(ci)

    # -- receivers -----------------------------------------------------------------------------------------------------------
    def self_aliases(self, fi, ci):
        """{local: text}: locals every assignment of which is a call-free attribute / item chain rooted at ``self`` /
        ``cls`` / another such local (mutating the local mutates what the instance holds)."""
        out = {}
        if isinstance(fi.node, ast.Lambda):
            return out
        names = set(n.id for n in walk_body(fi.node) if isinstance(n, ast.Name) and isinstance(n.ctx, ast.Store))
        params = set(fi.params())
        changed = True
        while changed:
            changed = False
            for name in sorted(names - set(out) - params):
                vals = [x for x in assigned_value(fi.node, name) if not isinstance(x[1], ast.AugAssign)]
                if not vals:
                    continue
                srcs = []
                for st, v, idx in vals:
                    ch = effects.chain_of(v) if idx is None and isinstance(v, (ast.Attribute, ast.Subscript, ast.Name)) else None
                    if not ch or '()' in ch:
                        srcs = None
                        break
                    if ch[0] in ('self', 'cls') and len(ch) >= 2 and ci is not None:
                        srcs.append(ch)
                    elif ch[0] in out:
                        srcs.append(out[ch[0]] + ch[1:])
                    else:
                        srcs = None
                        break
                if srcs:
                    out[name] = srcs[0]
                    changed = True
        return out

    def module_aliases(self, fi, locals_):
        """{local: module-level name} for locals that only ever name a module-level object (``cache = _CACHE``)."""
        out = {}
        if isinstance(fi.node, ast.Lambda):
            return out
        for name in sorted(locals_ - set(fi.params())):
            vals = [x for x in assigned_value(fi.node, name) if not isinstance(x[1], ast.AugAssign)]
            srcs = set()
            for st, v, idx in vals:
                if idx is None and isinstance(v, ast.Name) and v.id not in locals_ and self.module_object(fi, v.id, locals_) is not None:
                    srcs.add(v.id)
                else:
                    srcs.add(None)
            if len(srcs) == 1 and None not in srcs:
                out[name] = srcs.pop()
        return out

    def module_object(self, fi, name, locals_):
        """(module, value exprs) when ``name`` read in fi denotes a module-level *object* of the analysed tree (not a
        function / class / module, not a local of this or an enclosing function) -- else None."""
        if name in locals_:
            return None
        for outer in _enclosing_funcs(fi):
            if name in _local_names(outer):
                return None
        kind, m, obj = self.repo.resolve(fi.mod, name)
        if kind == 'value' and m is not None and not m.external:
            return m, obj
        return None

    def class_level_field(self, ci, field):
        """(defining class, value) when ``field`` is written in the class body (of ci or a base of the tree) with a value
        that may be mutable, and no method of the family ever assigns ``self.<field>`` -- else None."""
        owner, val = None, None
        for b in self.mro(ci):
            if isinstance(b, ClassInfo) and field in b.class_attrs:
                owner, val = b, b.class_attrs[field]
                break
        if owner is None or val is None:
            return None
        if isinstance(val, (ast.FunctionDef, ast.AsyncFunctionDef, ast.Lambda)):
            return None
        if not (isinstance(val, (ast.List, ast.Dict, ast.Set, ast.ListComp, ast.DictComp, ast.SetComp)) or
                (isinstance(val, ast.Call) and not (isinstance(val.func, ast.Name) and val.func.id in IMMUTABLE_CTORS | {'property', 'staticmethod', 'classmethod'})
                 and not (isinstance(val.func, ast.Attribute) and val.func.attr in ('ib', 'attrib', 'field', 'compile')))):
            return None
        family = [c for c in self.classes if c is ci or ci in self.mro(c) or c in self.mro(ci)]
        for c in family:
            for m in c.methods.values():
                for n in ast.walk(m.node):
                    if isinstance(n, ast.Attribute) and n.attr == field and isinstance(n.ctx, ast.Store) and isinstance(n.value, ast.Name) and n.value.id == 'self':
                        return None
                    if isinstance(n, ast.Call) and isinstance(n.func, ast.Name) and n.func.id == 'setattr' and len(n.args) >= 2 and \
                            isinstance(n.args[1], ast.Constant) and n.args[1].value == field:
                        return None
        return owner, val

    def judge(self, fi, ci, e, locals_, sal, mal):
        """-> (kind 'L1'..'L5', text) when effect ``e`` of function fi writes a positively long-lived object, else None."""
        ch = e.chain
        if not ch:
            return None
        # ``vars(x)`` is ``x.__dict__``
        if ch[:2] == ['vars', '()'] and 'vars' not in locals_:
            t = e.target
            while isinstance(t, (ast.Attribute, ast.Subscript)):
                t = t.value
            if isinstance(t, ast.Call) and len(t.args) == 1 and not t.keywords and effects.chain_of(t.args[0]):
                ch = effects.chain_of(t.args[0]) + ['__dict__'] + ch[2:]
        root = ch[0]
        in_place = e.kind == 'mutcall' or (e.kind in ('store', 'delete') and (len(ch) >= 2 or e.method in ('setattr', 'delattr'))) or e.kind == 'augname'
        if e.kind == 'augname' and (effects.aug_rebinds(e.node) or effects.known_immutable(fi, e.target)):
            return None
        if not in_place:
            return None
        # a call of a method of the own class is a call, not a container update (``self.add(route)``, ``super().add(x)``)
        if e.kind == 'mutcall' and ch in (['self'], ['cls']) and ci is not None and self.repo.find_method(ci, e.method) is not None:
            return None
        if root == 'super':
            return None
        # L2: the class object
        cls_text = None
        if root == 'cls' and 'cls' in fi.params()[:1] and ci is not None:
            cls_text = 'cls'
        elif len(ch) >= 2 and ch[1] == '__class__' and root not in ('cls',):
            cls_text = '%s.__class__' % root
            ch = [cls_text] + ch[2:]
        elif root == 'type' and len(ch) >= 2 and ch[1] == '()' and 'type' not in locals_:
            cls_text = 'type(..)'
            ch = [cls_text] + ch[2:]
        elif root not in locals_ and not any(root in _local_names(o) for o in _enclosing_funcs(fi)):
            kind, m_, obj = self.repo.resolve(fi.mod, root)
            if kind == 'class' and isinstance(obj, ClassInfo) and not obj.mod.external and (len(ch) < 2 or ch[1] != '()'):
                cls_text = root
        if cls_text is not None:
            if len(ch) >= 2 and (e.kind != 'mutcall' or len(ch) >= 2):
                return 'L2', 'the class object %s (one per process)' % cls_text
            return None
        # L1 / L3: an instance
        chain = None
        if root in ('self',) and ci is not None and 'self' in fi.params()[:1] + [p for o in _enclosing_funcs(fi) for p in o.params()[:1]]:
            chain = ch
        elif root in sal:
            chain = sal[root] + ch[1:]
        if chain is not None:
            if chain[0] == 'cls':
                return 'L2', 'the class object (through %s)' % root
            if ci in self.long_lived:
                why = self.by_design(ci)
                if why:
                    return 'design', why
                via = '' if root == 'self' else ' (local %s names %s)' % (root, '.'.join(x for x in sal[root]))
                return 'L1', 'self of %s, %s%s' % (ci.name, self.long_lived[ci], via)
            if len(chain) >= 2 and chain[1] not in ('[]', '()') and (len(chain) >= 3 or e.kind in ('mutcall', 'augname')):
                clf = self.class_level_field(ci, chain[1])
                if clf is not None:
                    return 'L3', 'the class-level object %s.%s = %s (written in the class body, never assigned per instance)' % (clf[0].name, chain[1], short(clf[1]))
            return None
        # L4: module-level object, also as an attribute of a module of the analysed tree (``mod._CACHE[k] = v`` / ``mod.FLAG = v``)
        if root not in locals_ and len(ch) >= 2 and not any(root in _local_names(o) for o in _enclosing_funcs(fi)):
            try:
                kind, m_, obj = self.repo.resolve(fi.mod, root)
            except Exception:
                kind, m_ = None, None
            if kind == 'module' and m_ is not None and not m_.external and ch[1] not in ('()', '[]'):
                return 'L4', 'the module-level name %s.%s' % (root, ch[1])
        target = mal.get(root, root)
        if (root in mal or root not in locals_) and self.module_object(fi, target, locals_ if root not in mal else set()) is not None:
            if e.kind == 'augname' and root not in mal:
                return None        # ``X op= v`` on a module name without ``global`` is a local (UnboundLocalError), with it see below
            return 'L4', 'the module-level object %s%s' % (target, '' if root not in mal else ' (local %s names it)' % root)
        # L5: default object of a parameter
        if root in fi.params():
            d = defaults_of(fi.node).get(root)
            if d is not None and mutable_default(d) and not any(True for st, v, idx in assigned_value(fi.node, root) if not isinstance(v, ast.AugAssign)):
                return 'L5', 'the default object of parameter %s (%s is evaluated once, when the function is defined)' % (root, short(d))
        return None

    def global_rebinds(self, fi):
        """[(name, statement)] -- ``global X`` ... ``X = v`` / ``X op= v`` in a function."""
        out = []
        if isinstance(fi.node, ast.Lambda):
            return out
        names = set()
        for n in walk_body(fi.node):
            if isinstance(n, ast.Global):
                names.update(n.names)
        if names:
            for st in stmts_of(fi.node):
                for n in ast.walk(st) if isinstance(st, (ast.Assign, ast.AugAssign, ast.AnnAssign, ast.For, ast.With, ast.Delete)) else []:
                    if isinstance(n, ast.Name) and n.id in names and isinstance(n.ctx, (ast.Store, ast.Del)):
                        out.append((n.id, st))
        return out


_CONTROL = '''
_MEMO = {}

class Mw(object):
    def request(self, next, request, opts={}):
        self.last = request
        memo = self._memo
        memo[request] = 1
        type(self).count = 1
        _MEMO[request] = 1
        opts['x'] = 1
        kwargs = {}
        kwargs['x'] = 1
        return next()

class Jar(object):
    seen = []

    def put(self, x):
        self.seen.append(x)
        self.own = x
'''
_CONTROL_WANT = ['L1', 'L1', 'L2', 'L4', 'L5', None, 'L3', None]


def positive_control(ring):
    """The receiver classification finds one of each kind in a text that contains them (and leaves a fresh local and a
    short-lived instance alone)."""
    from ..loader import FuncInfo
    tree = ast.parse(_CONTROL)

    class _M(object):
        name, external = '<control>', False
        functions, classes, imports = {}, {}, {}
        assigns = {'_MEMO': [tree.body[0].value]}
    cis = []
    for cnode in tree.body[1:]:
        ci = ClassInfo(_M, cnode, cnode.name)
        for st in cnode.body:
            if isinstance(st, ast.FunctionDef):
                ci.methods[st.name] = FuncInfo(_M, st, '%s.%s' % (cnode.name, st.name), ci)
            elif isinstance(st, ast.Assign):
                ci.class_attrs[st.targets[0].id] = st.value
        _M.classes[cnode.name] = ci
        cis.append(ci)
    saved = ring.classes, ring.long_lived, ring._mro
    ring.classes, ring.long_lived, ring._mro = cis, {cis[0]: 'control'}, {}
    got = []
    try:
        for ci in cis:
            for fi in ci.methods.values():
                locals_ = _local_names(fi)
                sal, mal = ring.self_aliases(fi, ci), ring.module_aliases(fi, locals_)
                for e in effects.effects_in(fi.node, aug_names=True):
                    v = ring.judge(fi, ci, e, locals_, sal, mal)
                    got.append(v[0] if v else None)
    finally:
        ring.classes, ring.long_lived, ring._mro = saved
    if got != _CONTROL_WANT:
        raise AnalysisError('positive control for the long-lived receiver classification failed: %s' % got)


def ring_of(repo, rp):
    r = getattr(rp, '_ring', None)
    if r is None:
        r = rp._ring = Ring(repo, rp)
    return r


# ---- R12.f: what a request is handed is not one long-lived mutable object ------------------------------------------------------
MUTABLE_CTORS = {'list', 'dict', 'set', 'bytearray', 'defaultdict', 'OrderedDict', 'deque', 'Counter', 'ChainMap'}


def positively_mutable(v):
    """The expression builds a mutable container: a list / dict / set display or comprehension, a call of a mutable container
    constructor (the dual of ``mutable_default``: only what is positively mutable)."""
    if isinstance(v, (ast.List, ast.Dict, ast.Set, ast.ListComp, ast.DictComp, ast.SetComp)):
        return True
    if isinstance(v, ast.Call):
        f = v.func
        name = f.id if isinstance(f, ast.Name) else (f.attr if isinstance(f, ast.Attribute) and isinstance(f.value, ast.Name) and
                                                     f.value.id in ('collections', 'copy') else None)
        return name in MUTABLE_CTORS
    if isinstance(v, ast.IfExp):
        return positively_mutable(v.body) or positively_mutable(v.orelse)
    if isinstance(v, ast.BoolOp):
        return any(positively_mutable(x) for x in v.values)
    return False


def handed_out(fi):
    """[(statement, expression)] -- the values function fi hands to its caller: ``return e`` / ``yield e``, the alternatives of
    a conditional expression / ``a or b`` taken apart, a local of fi that is only ever a plain copy of a name looked through."""
    out = []

    def alts(e, depth=0):
        if isinstance(e, ast.IfExp) and depth < 4:
            return alts(e.body, depth + 1) + alts(e.orelse, depth + 1)
        if isinstance(e, ast.BoolOp) and depth < 4:
            return [a for x in e.values for a in alts(x, depth + 1)]
        if isinstance(e, ast.Name) and depth < 4 and e.id not in fi.params():
            vals = [x for x in assigned_value(fi.node, e.id)]
            if vals and all(idx is None and isinstance(v, ast.Name) and not isinstance(v, ast.AugAssign) for st, v, idx in vals):
                return [a for st, v, idx in vals for a in alts(v, depth + 1)]
        return [e]
    for n in walk_body(fi.node):
        e = None
        if isinstance(n, ast.Return):
            e = n.value
        elif isinstance(n, ast.Yield):
            e = n.value
        if e is not None:
            st = n
            while st is not None and not isinstance(st, ast.stmt):
                st = fi.mod.parents.get(st)
            out.extend((st if st is not None else n, a) for a in alts(e))
    return out


_CONTROL_F = '''
_EMPTY = []

def build(multi):
    missing = [] if multi else None
    frozen = ()
    def conv(value, acc=[]):
        if value is None:
            return missing
        if value == '':
            return _EMPTY
        if value == '-':
            return acc
        if value == '+':
            return frozen
        return [value]
    return conv
'''
_CONTROL_F_WANT = ['closure', 'module', 'default', None, None]


def check_handed_out(rep, rule, rp):
    """A value a request gets from clastic -- what a function that runs while a request is served returns or yields -- is
    not one *long-lived mutable object*: (closure) a container the enclosing construction-time function built once and the
    closure, which lives as long as the route / middleware it was made for, hands to every caller; (module) a module-level
    mutable container; (default) the default object of a parameter; (class) a class-level mutable attribute no instance
    ever re-binds.  Whoever receives it owns it by the convention of the property (URL parameters, injectables, contexts
    "stay with that request"): updating it would be an update of state every other request sees."""
    repo = rep.repo
    ring = ring_of(repo, rp)

    def construction_time(f):
        """the function runs while the long-lived objects are built, not while a request is served"""
        if isinstance(f.node, ast.Lambda):
            return False
        if f.mod in rp.mods:
            return f not in rp.reach and not any(o in rp.reach for o in _enclosing_funcs(f))
        return ring.is_construction(f, _class_of(repo, f))

    def judge(fi, ci, e, locals_):
        if not isinstance(e, (ast.Name, ast.Attribute)):
            return None
        if isinstance(e, ast.Attribute):
            # self.<field> where the field is a class-level mutable object
            if isinstance(e.value, ast.Name) and e.value.id == 'self' and ci is not None and 'self' in fi.params()[:1]:
                clf = ring.class_level_field(ci, e.attr)
                if clf is not None and positively_mutable(clf[1]):
                    return 'class', 'the class-level object %s.%s = %s (written in the class body, never assigned per instance)' % (clf[0].name, e.attr, short(clf[1]))
            return None
        name = e.id
        if name in fi.params():
            d = defaults_of(fi.node).get(name)
            if d is not None and positively_mutable(d) and not any(True for st, v, idx in assigned_value(fi.node, name) if not isinstance(v, ast.AugAssign)):
                return 'default', 'the default object of parameter %s (%s is evaluated once, when the function is defined)' % (name, short(d))
            return None
        if name in locals_:
            return None
        for outer in _enclosing_funcs(fi):
            if isinstance(outer.node, ast.Lambda):
                if name in outer.params():
                    return None
                continue
            if name in _local_names(outer):
                if name in outer.params() or not construction_time(outer):
                    return None
                vals = [v for st, v, idx in assigned_value(outer.node, name) if idx is None and not isinstance(v, ast.AugAssign)]
                hit = [v for v in vals if positively_mutable(v)]
                if hit:
                    return 'closure', 'the object %s = %s its enclosing function %s built once (the closure outlives the call that made it: every ' \
                                      'call gets the same object)' % (name, short(hit[0]), outer.qualname)
                return None
        mo = ring.module_object(fi, name, locals_)
        if mo is not None and any(v is not None and isinstance(v, ast.AST) and positively_mutable(v) for v in mo[1]):
            return 'module', 'the module-level object %s = %s' % (name, short([v for v in mo[1] if isinstance(v, ast.AST) and positively_mutable(v)][0]))
        return None

    # positive control: one of each kind in a text that contains them, an immutable / a fresh value left alone
    from ..loader import FuncInfo
    tree = ast.parse(_CONTROL_F)

    class _M(object):
        name, external = '<control>', False
        functions, classes, imports, parents = {}, {}, {}, {}
        assigns = {'_EMPTY': [tree.body[0].value]}
    for par in ast.walk(tree):
        for ch in ast.iter_child_nodes(par):
            _M.parents[ch] = par
    b = FuncInfo(_M, tree.body[1], 'build')
    c = FuncInfo(_M, [x for x in tree.body[1].body if isinstance(x, ast.FunctionDef)][0], 'build.conv')
    _M.functions = {'build': b, 'build.conv': c}
    saved = rp.mods, rp.reach, ring.repo
    got = []

    class _R(object):
        @staticmethod
        def resolve(mod, name):
            return ('value', _M, _M.assigns[name]) if name in _M.assigns else ('unknown', mod, name)
    try:
        rp.mods, rp.reach, ring.repo = list(rp.mods) + [_M], dict(rp.reach), _R
        for st, e in handed_out(c):
            v = judge(c, None, e, _local_names(c))
            got.append(v[0] if v else None)
    finally:
        rp.mods, rp.reach, ring.repo = saved
    if got != _CONTROL_F_WANT:
        raise AnalysisError('positive control for the handed-out-object classification failed: %s' % got)

    funcs = [(fi, ci) for fi, ci in ring.functions()]
    seen = set(fi for fi, _ in funcs)
    for m in rp.mods:
        for fi in m.functions.values():
            if isinstance(fi.node, ast.Lambda) or fi in seen:
                continue
            # the core: what runs on the request path, and every closure (it runs when whoever holds it calls it)
            if fi in rp.reach or _enclosing_funcs(fi):
                funcs.append((fi, _class_of(repo, fi)))
                seen.add(fi)
    n = n_vals = 0
    for fi, ci in sorted(funcs, key=lambda x: x[0].key):
        if construction_time(fi) and not _enclosing_funcs(fi):
            continue
        n += 1
        locals_ = _local_names(fi)
        for st, e in handed_out(fi):
            n_vals += 1
            v = judge(fi, ci, e, locals_)
            if v is None:
                continue
            rep.fail(rule, '%s::%s' % (fi.key, norm(st)[:90]),
                     '%s hands out %s: every request that gets it holds the same mutable object -- what one request does to its '
                     'value is seen by all others (a per-request value must be allocated per call, or be immutable)' % (fi.qualname, v[1]), fi.mod, st)
    rep.ok(rule, 'clastic::values handed out', '%d functions that run while a request is served (%d returned / yielded values): none is a '
           'long-lived mutable object (closure-captured container, module-level container, default object, class-level container; '
           'control matched)' % (n, n_vals))
    if n < 60:
        raise AnalysisError('rule %s: only %d functions found: the tree was not understood' % (rule, n))


def check_ring(rep, rule, rp):
    repo = rep.repo
    ring = ring_of(repo, rp)
    positive_control(ring)
    n_funcs = n_effects = 0
    table_hits = {}
    for fi, ci in sorted(ring.functions(), key=lambda x: x[0].key):
        n_funcs += 1
        locals_ = _local_names(fi)
        sal = ring.self_aliases(fi, ci)
        mal = ring.module_aliases(fi, locals_)
        # a closure sees the enclosing function's locals: what names a field of the instance / a module-level object there, does here
        for outer in _enclosing_funcs(fi):
            if isinstance(outer.node, ast.Lambda):
                continue
            o_locals = _local_names(outer)
            for k, v in ring.self_aliases(outer, ci).items():
                if k not in locals_ and k not in sal and len(assigned_value(outer.node, k)) == 1:
                    sal[k] = v
            for k, v in ring.module_aliases(outer, o_locals).items():
                if k not in locals_ and k not in mal and len(assigned_value(outer.node, k)) == 1:
                    mal[k] = v
        for e in effects.effects_in(fi.node, aug_names=True):
            n_effects += 1
            v = ring.judge(fi, ci, e, locals_, sal, mal)
            if v is None:
                continue
            kind, why = v
            if kind == 'design':
                table_hits.setdefault((ci.key, why), []).append(e)
                continue
            rep.fail(rule, '%s::%s' % (fi.key, norm(e.node)[:90]),
                     '%s updates %s while a request is served: what one request leaves there is seen by every other request '
                     '(state that outlives the request)' % (fi.qualname, why), fi.mod, e.node)
        for name, st in ring.global_rebinds(fi):
            rep.fail(rule, '%s::%s' % (fi.key, norm(st)[:90]),
                     '%s re-binds the module-level name %s (global) while a request is served' % (fi.qualname, name), fi.mod, st)
    for (ckey, why), es in sorted(table_hits.items()):
        rep.ok(rule, '%s::shared by design' % ckey, 'table entry (%d writes): %s' % (len(es), why))
    # L6 (and L5 for the core's request path, where the role tables would otherwise speak first)
    judged = [fi for fi, _ in ring.functions()] + [fi for fi in rp.reach if not fi.mod.external and not isinstance(fi.node, ast.Lambda)]
    seen = set()
    n_defaults = 0
    for fi in judged:
        if fi in seen:
            continue
        seen.add(fi)
        for p, d in sorted(defaults_of(fi.node).items()):
            n_defaults += 1
            c = computed_call(repo, fi, d)
            if c is not None:
                rep.fail(rule, '%s::default %s=%s' % (fi.key, p, norm(d)[:60]),
                         'the default of parameter %s of %s calls %s: evaluated once, when the function is defined -- every request '
                         'that relies on the default gets the value computed for the first' % (p, fi.qualname, short(c)), fi.mod, d)
            elif mutable_default(d):
                # a mutable default object: harmless while nobody updates it in place (judged as L5 where that happens); in the
                # core the update may hide behind a role name, so look for it here as well
                muts = [e for e in effects.effects_in(fi.node, aug_names=True) if e.root == p and
                        (e.kind == 'mutcall' or (e.kind in ('store', 'delete') and len(e.chain) >= 2) or
                         (e.kind == 'augname' and not effects.aug_rebinds(e.node)))]
                rebound = any(True for st, v, idx in assigned_value(fi.node, p) if not isinstance(v, ast.AugAssign))
                if muts and not rebound and fi in rp.reach and fi.mod in rp.mods:
                    rep.fail(rule, '%s::%s' % (fi.key, norm(muts[0].node)[:90]),
                             '%s updates the default object of parameter %s in place (%s is evaluated once, when the function is defined): '
                             'state that outlives the request' % (fi.qualname, p, short(d)), fi.mod, muts[0].node)
    rep.ok(rule, 'clastic::outside the core', '%d functions outside the core modules analysed (%d heap effects, %d parameter defaults incl. the '
           'core\'s request path); no update of a long-lived instance / class object / module-level object / default object; long-lived '
           'classes: %d' % (n_funcs, n_effects, n_defaults, len(ring.long_lived)))
    if n_funcs < 40 or len(ring.long_lived) < 15:
        raise AnalysisError('rule %s: only %d functions / %d long-lived classes found outside the core: the tree was not understood' % (rule, n_funcs, len(ring.long_lived)))
