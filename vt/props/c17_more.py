"""C17 -- further clauses (helper of c17.py; nothing here runs or evaluates clastic code).

  R17.g  kinds of value in the JSON encoder.  The object handed to ``default()`` is an instance, a plain class (its
         type is ``type``) or a class with a metaclass.  A conversion method fetched from the object and called
         (``obj.to_dict()``, ``getattr(obj, name)()``, a local bound to such a fetch and called later) is a plain,
         unbound function when the object is a class: the call raises TypeError instead of degrading the class to its
         repr.  The type tests on every path to the fetch and to the call are evaluated over the three kinds (finite
         abstract domain; ``isinstance(obj, type)`` / ``inspect.isclass`` exclude both kinds of class, ``type(obj) is
         type`` / ``obj.__class__ == type`` only the plain one); a call that stays reachable for a kind of class is a
         violation.
  R17.h  render objects are shared by all requests (render_basic / render_json are module-level singletons, a route
         keeps one renderer): nothing on the render path -- the renderers' __call__ / render_response /
         _serialize_to_resp / context_to_response, the encoder's default() and every clastic function they reach --
         stores what it learns from one request (a value or a decision derived from the context, the request, the route;
         or an accumulation) in the renderer, its class, a module-level object or a mutable default *and reads it back
         on the render path*.  A request-independent, idempotent write (a cache of configuration) is fine; so is a
         write nothing on the render path reads.
  R17.i  200 status / a response on every path / raises only for an explicitly requested unknown format.
  R17.k  provenance and precedence of the negotiated mime (format parameter, Accept header, default).
  R17.l  JSON bodies: the renderer's own encoder applied to the endpoint result (a method of the tree the serialization is
         delegated to is followed through its returns; a padded body bound on several branches is judged per branch);
         JSONP padding; stream re-chunkers.  (Kinds of the chunks -- list / tuple / lazy iterator -- and R17.n: c17_total.py.)
  R17.m  optional FunctionBuilder attributes (pinned boltons) are used as text only behind a presence test.
(each described at its check_* function)
"""
import ast

from ..core import AnalysisError, norm, short
from ..astutil import stmt_of
from .common import fkey, conds, returns_of, stmts_of, walk_body, call_tail, cond_texts

SIMPLE = 'clastic.render.simple'
TABULAR = 'clastic.render.tabular'

# ---------------------------------------------------------------------------------------------- R17.g: kinds
INST, PLAIN, META = 'an instance', 'a plain class', 'a class with a metaclass'
KINDS = (INST, PLAIN, META)
_NOT_METHODS = ('__class__', '__dict__', '__name__', '__qualname__', '__doc__', '__module__', '__mro__')
_PREDICATES = ('callable', 'hasattr', 'isinstance', 'issubclass', 'type', 'repr', 'str', 'id', 'bool', 'ismethod', 'isfunction')


def _is_obj(e, obj):
    return isinstance(e, ast.Name) and e.id == obj


def _type_of_obj(e, obj):
    """``type(obj)`` / ``obj.__class__``"""
    if isinstance(e, ast.Call) and isinstance(e.func, ast.Name) and e.func.id == 'type' and len(e.args) == 1 and \
            not e.keywords and _is_obj(e.args[0], obj):
        return True
    return isinstance(e, ast.Attribute) and e.attr == '__class__' and _is_obj(e.value, obj)


def _kind_isa(kind, cname):
    """isinstance(<object of that kind>, <class called cname>): True / False / None (depends on the object)."""
    if cname == 'object':
        return True
    if cname == 'type':
        return kind != INST
    if kind == PLAIN:
        # a plain class object is an instance of ``type`` and ``object`` only (and of the two ABCs ``type`` satisfies)
        return cname in ('Hashable', 'Callable')
    return None


def kind_truth(names_of, test, obj, kind):
    """Truth value of a test for an encoded object of the given kind; None when the test does not depend on the kind
    alone.  ``names_of(expr)`` -> class names of an isinstance class spec (aliases resolved) or None."""
    if isinstance(test, ast.UnaryOp) and isinstance(test.op, ast.Not):
        r = kind_truth(names_of, test.operand, obj, kind)
        return None if r is None else not r
    if isinstance(test, ast.BoolOp):
        rs = [kind_truth(names_of, v, obj, kind) for v in test.values]
        if isinstance(test.op, ast.And):
            return False if any(r is False for r in rs) else (True if all(r is True for r in rs) else None)
        return True if any(r is True for r in rs) else (False if all(r is False for r in rs) else None)
    if isinstance(test, ast.Call) and not test.keywords:
        f, a = test.func, test.args
        if isinstance(f, ast.Name) and f.id == 'isinstance' and len(a) == 2 and _is_obj(a[0], obj):
            names = names_of(a[1])
            if not names:
                return None
            rs = [_kind_isa(kind, n) for n in names]
            return True if any(r is True for r in rs) else (False if all(r is False for r in rs) else None)
        if call_tail(test) == 'isclass' and len(a) == 1 and _is_obj(a[0], obj):
            return kind != INST
        if isinstance(f, ast.Name) and f.id == 'issubclass' and len(a) == 2 and _type_of_obj(a[0], obj) and names_of(a[1]) == ['type']:
            return kind != INST
        return None
    if isinstance(test, ast.Compare) and len(test.ops) == 1:
        l, op, r = test.left, test.ops[0], test.comparators[0]
        if isinstance(op, (ast.Is, ast.IsNot, ast.Eq, ast.NotEq)):
            for x, y in ((l, r), (r, l)):
                if _type_of_obj(x, obj) and names_of(y) == ['type']:
                    v = kind == PLAIN           # only a class without a metaclass has the type ``type``
                    return v if isinstance(op, (ast.Is, ast.Eq)) else not v
        if isinstance(op, (ast.In, ast.NotIn)) and _type_of_obj(l, obj) and isinstance(r, (ast.Tuple, ast.List, ast.Set)):
            elts = [names_of(e) for e in r.elts]
            if any(not e or len(e) != 1 for e in elts):
                return None
            only_type = all(e == ['type'] for e in elts)
            has_type = any(e == ['type'] for e in elts)
            v = None
            if kind == PLAIN:
                v = True if has_type else (False if only_type else None)
            elif only_type:
                v = False
            if v is None:
                return None
            return v if isinstance(op, ast.In) else not v
    return None


def _bound_method_test(t, carrier):
    """``inspect.ismethod(c)`` / ``isinstance(c, MethodType)`` on the fetched callable: true only for a *bound* method."""
    if not isinstance(t, ast.Call) or t.keywords:
        return False
    if call_tail(t) == 'ismethod' and len(t.args) == 1 and norm(t.args[0]) == carrier:
        return True
    if isinstance(t.func, ast.Name) and t.func.id == 'isinstance' and len(t.args) == 2 and norm(t.args[0]) == carrier:
        return norm(t.args[1]).rpartition('.')[2] == 'MethodType'
    return False


def _fetches(expr, obj):
    """Attribute fetches from the encoded object inside an expression (``obj.attr`` loads, ``getattr(obj, ...)``); the
    arguments of predicates (callable(), hasattr(), ...) only look at the attribute and are skipped."""
    out = []

    def rec(n):
        if isinstance(n, ast.Lambda):
            return
        if isinstance(n, ast.Call) and isinstance(n.func, ast.Name):
            if n.func.id in _PREDICATES:
                return
            if n.func.id == 'getattr' and n.args and _is_obj(n.args[0], obj):
                out.append(n)
        if isinstance(n, ast.Attribute) and _is_obj(n.value, obj) and isinstance(n.ctx, ast.Load) and n.attr not in _NOT_METHODS:
            out.append(n)
        for c in ast.iter_child_nodes(n):
            rec(c)
    rec(expr)
    return out


def _inline_guards(mod, node):
    """Tests of the enclosing expression that are known when ``node`` is evaluated (``a and b and <node>``, the arm of a
    conditional expression)."""
    out, cur = [], node
    while cur is not None and not isinstance(cur, ast.stmt):
        par = mod.parents.get(cur)
        if isinstance(par, ast.BoolOp) and cur in par.values:
            out.extend((v, isinstance(par.op, ast.And)) for v in par.values[:par.values.index(cur)])
        elif isinstance(par, ast.IfExp) and cur is not par.test:
            out.append((par.test, cur is par.body))
        cur = par
    from ..cfg import expand_conds
    return expand_conds(out)


def check_kinds(rep, repo, base):
    """R17.g over ClasticJSONEncoder.default and the clastic functions it hands the object to."""
    from ..effects import Flow
    simple = repo.mod(SIMPLE)
    rep.rule('R17.g', 'a conversion method fetched from the encoded object is called only when the object cannot be a class '
                      '(instance / plain class / class with a metaclass, through the type tests on the path)')
    de = simple.func('ClasticJSONEncoder.default')
    ps = [p for p in de.params() if p not in ('self', 'cls')]
    if not ps:
        raise AnalysisError('ClasticJSONEncoder.default takes no object')
    found = []

    def scan(f, obj, kinds_in, depth, via):
        mod = f.mod
        names_of = lambda e: base._class_names(mod, e)
        if any(isinstance(n, ast.Name) and n.id == obj and isinstance(n.ctx, (ast.Store, ast.Del)) for n in walk_body(f.node)):
            raise AnalysisError('%s re-binds %s: the kind of the encoded object cannot be followed' % (f.qualname, obj))
        fl = Flow(f)
        res = base.follow_resolver(repo, f)

        def feasible(cs, carrier=None):
            if carrier is not None and any(p is True and _bound_method_test(t, carrier) for t, p in cs):
                return [k for k in kinds_in if k == INST]
            return [k for k in kinds_in if all(kind_truth(names_of, t, obj, k) in (None, p) for t, p in cs)]

        for c in walk_body(f.node):
            if not isinstance(c, ast.Call):
                continue
            at = stmt_of(mod, c)
            here = list(conds(f, c)) + _inline_guards(mod, c)
            fn = c.func
            sinks = []          # (conditions, carrier text)
            if isinstance(fn, ast.Attribute) and _is_obj(fn.value, obj) and fn.attr not in _NOT_METHODS:
                sinks.append((here, None))
            elif isinstance(fn, ast.Call) and isinstance(fn.func, ast.Name) and fn.func.id == 'getattr' and fn.args and _is_obj(fn.args[0], obj):
                sinks.append((here, None))
            elif isinstance(fn, ast.Name) and fn.id in fl.defs:
                for d in fl.reaching(fn.id, at):
                    if d.kind not in ('assign', 'iter') or d.value is None or not _fetches(d.value, obj):
                        continue
                    cs = list(here) + [x for x in fl.conds(d.stmt) if x not in here]
                    cs += [x for x in fl.flow_conds(d, at) if x not in cs]
                    sinks.append((cs, fn.id))
            for cs, carrier in sinks:
                bad = [k for k in feasible(cs, carrier) if k != INST]
                found.append(c)
                rep.check('R17.g', fkey(f, 'conversion call %s' % norm(c)), not bad,
                          '%s is reached for instances only (%s)' % (short(c, 50), '; '.join(cond_texts(cs)) or 'no class reaches this function')
                          if not bad else
                          '%s%s calls a method fetched from the encoded object although the object can be %s: a class has the methods of '
                          'its instances as plain functions, the call raises TypeError (missing self) and the class is not degraded to '
                          'its repr in dev mode (conditions on the way: %s)'
                          % (f.qualname, via, ' or '.join(bad), '; '.join(cond_texts(cs)) or 'none'), mod, c)
            # the object handed on to another clastic function: the kinds that can arrive there
            callee = res(c) if depth < 2 else None
            if callee is not None and callee is not f:
                cps = [p for p in callee.params() if p not in ('self', 'cls')]
                idx = [i for i, a in enumerate(c.args) if _is_obj(a, obj)]
                kws = [k.arg for k in c.keywords if _is_obj(k.value, obj) and k.arg in cps]
                pname = cps[idx[0]] if idx and idx[0] < len(cps) else (kws[0] if kws else None)
                if pname is not None:
                    scan(callee, pname, feasible(here), depth + 1, ' (called from %s)' % f.qualname)

    scan(de, ps[0], list(KINDS), 0, '')
    if not found:
        raise AnalysisError('ClasticJSONEncoder.default: no call of a conversion method fetched from the encoded object was found')


# ---------------------------------------------------------------------------------------------- R17.h: shared renderers
FRESH, ELEMS, SHARED = 0, 1, 2          # the object is new / new, but holds shared objects / outlives the call
ELEMENT_OF = ('get', 'setdefault', 'pop', 'popitem', '__getitem__')
VIEW_OF = ('values', 'items', 'keys', 'copy', '__iter__')
IDEMPOTENT_CALLS = ('update', 'setdefault', 'add', 'discard', 'clear')
SHALLOW_COPIES = ('copy.copy', 'copy', 'dict', 'list', 'set', 'tuple', 'frozenset', 'sorted', 'reversed', 'iter', 'enumerate',
                  'OrderedDict')
_MUTABLE_DEFAULT = (ast.Dict, ast.List, ast.Set, ast.Call, ast.ListComp, ast.DictComp, ast.SetComp)


class Activation(object):
    """One function of the render path: which of its expressions denote objects that outlive the call (the renderer, its
    class, module-level objects, mutable defaults and what is reached through them) and which values depend on the
    request being rendered (every parameter that is not such an object: the context, the request, the route)."""

    def __init__(self, repo, fi, shared_params=None, stack=()):
        from ..effects import Flow
        self.repo, self.fi, self.fl = repo, fi, Flow(fi)
        a = fi.node.args
        self.params = set(fi.params())
        for x in (a.vararg, a.kwarg):
            if x is not None:
                self.params.add(x.arg)
        if shared_params is None:
            shared_params = set()
            if fi.cls is not None and fi.name not in ('__init__', '__new__'):
                shared_params = {'self', 'cls'} & self.params
        self.shared_params = set(shared_params)
        self.default_params = set()
        pos = a.posonlyargs + a.args
        for p_, d_ in list(zip(pos[len(pos) - len(a.defaults):], a.defaults)) + \
                [(p_, d_) for p_, d_ in zip(a.kwonlyargs, a.kw_defaults) if d_ is not None]:
            if isinstance(d_, _MUTABLE_DEFAULT):
                self.shared_params.add(p_.arg)      # a mutable default is one object for all calls
                self.default_params.add(p_.arg)
        self.stack = stack + (fi.key,)
        self.globals_written = set()
        for st in stmts_of(fi.node):
            if isinstance(st, (ast.Global, ast.Nonlocal)):
                self.globals_written.update(st.names)

    def level(self, e, at, depth=0):
        if depth > 14 or e is None:
            return FRESH
        rec = lambda x, at_=at: self.level(x, at_, depth + 1)
        if isinstance(e, ast.Name):
            if e.id in self.shared_params or e.id in self.globals_written:
                return SHARED
            ds = self.fl.reaching(e.id, at) if e.id in self.fl.defs else []
            if e.id in self.params and not [d for d in ds if d.kind != 'entry']:
                return FRESH            # an argument of this request
            if e.id not in self.fl.defs:
                kind = self.repo.resolve(self.fi.mod, e.id)[0] if e.id not in self.params else 'param'
                return SHARED if kind in ('value', 'class') else FRESH
            lv = FRESH
            for d in ds:
                if d.kind == 'assign':
                    v, vat = self.fl.unpacked(d)
                    if v is not None:
                        lv = max(lv, self.level(v, vat, depth + 1))
                elif d.kind == 'iter':
                    lv = max(lv, SHARED if self.level(d.value, d.stmt, depth + 1) >= ELEMS else FRESH)
                elif d.kind == 'with':
                    lv = max(lv, self.level(d.value, d.stmt, depth + 1))
            return lv
        if isinstance(e, (ast.Attribute, ast.Subscript)):
            return SHARED if rec(e.value) >= ELEMS else FRESH
        if isinstance(e, (ast.Starred, ast.NamedExpr)):
            return rec(e.value)
        if isinstance(e, ast.BoolOp):
            return max(rec(v) for v in e.values)
        if isinstance(e, ast.IfExp):
            return max(rec(e.body), rec(e.orelse))
        if isinstance(e, (ast.List, ast.Tuple, ast.Set)):
            return ELEMS if any(rec(x) == SHARED for x in e.elts) else FRESH
        if isinstance(e, ast.Dict):
            return ELEMS if any((rec(v) == SHARED) if k is not None else (rec(v) >= ELEMS) for k, v in zip(e.keys, e.values)) else FRESH
        if isinstance(e, ast.Call):
            f = e.func
            fn = norm(f)
            if fn in ('copy.deepcopy', 'deepcopy'):
                return FRESH
            if fn == 'type' and len(e.args) == 1:
                return SHARED if rec(e.args[0]) == SHARED else FRESH
            if fn in ('getattr', 'next', 'vars') and e.args:
                return SHARED if rec(e.args[0]) >= ELEMS else FRESH
            if fn in SHALLOW_COPIES:
                held = any(rec(x) >= ELEMS for x in e.args) or any((rec(k.value) == SHARED) if k.arg is not None else (rec(k.value) >= ELEMS)
                                                                   for k in e.keywords)
                return ELEMS if held else FRESH
            if isinstance(f, ast.Attribute) and f.attr in ELEMENT_OF:
                return SHARED if rec(f.value) >= ELEMS else FRESH
            if isinstance(f, ast.Attribute) and f.attr in VIEW_OF:
                return ELEMS if rec(f.value) >= ELEMS else FRESH
            callee = self._callee(e)
            if callee is not None and callee.key not in self.stack and len(self.stack) < 3:
                from ..effects import returns_fresh
                if returns_fresh(self.repo, callee):
                    return FRESH
                sub = Activation(self.repo, callee, self._shared_args(callee, e, at), self.stack)
                return max([sub.level(r.value, r) for r in returns_of(callee) if r.value is not None] or [FRESH])
            return FRESH
        return FRESH

    def _callee(self, call):
        from ..effects import callee_of
        c = callee_of(self.repo, self.fi, call)
        return c if c is not None and isinstance(c.node, ast.FunctionDef) else None

    def _shared_args(self, callee, call, at):
        """Parameters of ``callee`` that receive an object outliving this activation."""
        ps = [p for p in callee.params() if p not in ('self', 'cls')]
        out = set()
        f = call.func
        if callee.cls is not None and isinstance(f, ast.Attribute) and self.level(f.value, at) == SHARED:
            out.update({'self', 'cls'} & set(callee.params()))
        for i, a in enumerate(call.args):
            if not isinstance(a, ast.Starred) and i < len(ps) and self.level(a, at) == SHARED:
                out.add(ps[i])
        for k in call.keywords:
            if k.arg in ps and self.level(k.value, at) == SHARED:
                out.add(k.arg)
        return out

    def per_request(self, e, at, seen=None):
        """Does the value depend on what is being rendered (a parameter that is not a long-lived object)?"""
        seen = set() if seen is None else seen
        if e is None:
            return False
        for n in ast.walk(e):
            if not (isinstance(n, ast.Name) and isinstance(n.ctx, ast.Load)):
                continue
            if n.id in self.params:
                if n.id not in self.shared_params:
                    return True
                continue
            for d in (self.fl.reaching(n.id, at) if n.id in self.fl.defs else []):
                if d.stmt is None or (n.id, id(d.stmt)) in seen:
                    continue
                seen.add((n.id, id(d.stmt)))
                src = d.value if d.value is not None else getattr(d.stmt, 'value', None)
                if self.per_request(src, d.stmt, seen) or any(self.per_request(t, d.stmt, seen) for t, _ in self.fl.conds(d.stmt)):
                    return True
        return False

    def shared_writes(self):
        """[(node, object written, why it is history | None, activation, value used?, expression naming the slot)]"""
        from ..effects import effects_in
        mod, out = self.fi.mod, []
        for ef in effects_in(self.fi.node, aug_names=True):
            at = ef.node if isinstance(ef.node, ast.stmt) else stmt_of(mod, ef.node)
            if ef.kind == 'augname':
                from ..effects import aug_rebinds, known_immutable, aug_in_place
                if aug_rebinds(ef.node) or not aug_in_place(ef.node) or ef.target.id in self.globals_written:
                    continue            # (a global is reported below)
                obj = ast.copy_location(ast.Name(id=ef.target.id, ctx=ast.Load()), ef.target)
            elif ef.kind == 'mutcall' or ef.method in ('setattr', 'delattr'):
                obj = ef.target
            else:
                obj = ef.target.value
            if self.level(obj, at) != SHARED:
                continue
            used, slot_expr = False, obj
            if ef.kind == 'mutcall':
                operands = list(ef.node.args) + [k.value for k in ef.node.keywords]
                idem = ef.method in IDEMPOTENT_CALLS
                used = not isinstance(mod.parents.get(ef.node), ast.Expr)
            elif ef.method in ('setattr', 'delattr'):
                operands, idem = list(ef.node.args[1:]), ef.method == 'setattr'
                if len(ef.node.args) > 1 and isinstance(ef.node.args[1], ast.Constant) and isinstance(ef.node.args[1].value, str):
                    slot_expr = ast.Attribute(value=obj, attr=ef.node.args[1].value, ctx=ast.Load())
                else:
                    slot_expr = None
            elif ef.kind == 'augname':
                operands, idem = [ef.node.value], False
            else:
                operands = [getattr(ef.node, 'value', None) if not isinstance(ef.node, (ast.For, ast.AsyncFor)) else ef.node.iter]
                if isinstance(ef.target, ast.Subscript):
                    operands.append(ef.target.slice)
                idem = isinstance(ef.node, (ast.Assign, ast.AnnAssign))
                slot_expr = ef.target
            out.append((ef.node, obj, self._leak(operands, at, idem), self, used, slot_expr))
        for st in stmts_of(self.fi.node):
            tg = st.targets if isinstance(st, ast.Assign) else [st.target] if isinstance(st, (ast.AugAssign, ast.AnnAssign)) else []
            for t in tg:
                if isinstance(t, ast.Name) and t.id in self.globals_written:
                    out.append((st, t, self._leak([st.value], st, isinstance(st, ast.Assign)), self, False, t))
        # a clastic function handed a long-lived object writes for this activation
        for c in walk_body(self.fi.node):
            callee = self._callee(c) if isinstance(c, ast.Call) else None
            if callee is None or callee.key in self.stack or len(self.stack) >= 3:
                continue
            sa = self._shared_args(callee, c, stmt_of(mod, c)) - {'self', 'cls'}
            if sa:
                base_ = {'self', 'cls'} & set(callee.params()) if callee.cls is not None and callee.name not in ('__init__', '__new__') else set()
                out.extend(Activation(self.repo, callee, base_ | sa, self.stack).shared_writes())
        return out

    def _leak(self, operands, at, idempotent):
        if any(self.per_request(o, at) for o in operands if o is not None):
            return 'what is stored derives from the result / request being rendered'
        if any(self.per_request(t, at) for t, _ in self.fl.conds(at)):
            return 'whether it happens depends on the result / request being rendered'
        if not idempotent:
            return 'it accumulates over the requests rendered'
        return None

    def slot_of(self, obj, at):
        """Name under which the long-lived object written is reached: the attribute of the renderer / class
        ('attr', name), a module-level name ('global', name), a mutable default ('default', name); None when the
        object cannot be named."""
        out = set()
        if obj is None:
            return None
        for lf in self.fl.leaves(obj, at) if isinstance(obj, ast.Name) and isinstance(obj.ctx, ast.Load) else [None]:
            e = obj if lf is None else lf.value
            while isinstance(e, ast.Call) and isinstance(e.func, ast.Attribute) and e.func.attr in ELEMENT_OF + VIEW_OF:
                e = e.func.value
            chain = []
            while isinstance(e, (ast.Attribute, ast.Subscript)):
                chain.append(e.attr if isinstance(e, ast.Attribute) else '[]')
                e = e.value
            if isinstance(e, ast.Call) and norm(e.func) == 'type' and len(e.args) == 1:
                e = e.args[0]
            if not isinstance(e, ast.Name):
                return None
            chain.reverse()
            if chain and chain[0] == '__class__':
                chain = chain[1:]
            root = e.id
            if root in self.default_params:
                out.add(('default', root))
            elif root in self.shared_params or self.repo.resolve(self.fi.mod, root)[0] == 'class':
                attrs = [c for c in chain if c != '[]']
                if not attrs:
                    return None
                out.add(('attr', attrs[0]))
            elif root in self.globals_written or (root not in self.fl.defs and root not in self.params):
                out.add(('global', root))
            else:
                return None
        return out.pop() if len(out) == 1 else None


def _lazy_fill(act, node, slot_expr, readers):
    """``if <slot> is None: <slot> = <request-independent value>`` -- and every read of the slot on the render path is in the
    same function, behind that statement (it never sees the unfilled slot): whichever request happens to fill the cache,
    all of them read the same value."""
    from .common import implies_absent, cfg_of
    f, mod = act.fi, act.fi.mod
    if not isinstance(node, (ast.Assign, ast.AnnAssign)) or slot_expr is None:
        return False
    text = norm(slot_expr)
    if not implies_absent(act.fl.conds(node), text):
        return False
    fill, cur = None, node
    while cur is not None and cur is not f.node:
        par = mod.parents.get(cur)
        if isinstance(par, ast.If) and any(norm(n) == text for n in ast.walk(par.test)):
            fill = par
        cur = par
    if fill is None:
        return False
    in_test = set(id(n) for n in ast.walk(fill.test))
    cfg = cfg_of(f)
    through = cfg.nodes_of(fill)
    if not through:
        return False
    for g, n in readers:
        if id(n) in in_test:
            continue
        if g is not f:
            return False
        st = n if isinstance(n, ast.stmt) else stmt_of(mod, n)
        if st is None or not cfg.must_pass(through, dst=cfg.nodes_of(st)):
            return False
    return True


def render_scope(repo, roots):
    from ..callgraph import CallGraph
    cache = getattr(repo, '_c17_render_scope', None)
    key = tuple(f.key for f in roots)
    if cache is not None and cache[0] == key:
        return list(cache[1])
    out = _render_scope(repo, roots, CallGraph(repo))
    repo._c17_render_scope = (key, out)
    return list(out)


def _render_scope(repo, roots, cg):
    reach = cg.reachable(roots, kinds=('call', 'self', 'super', 'new', 'role', 'prop', 'classattr', 'instance-call'))
    out, seen = [], set()
    for f in list(roots) + sorted((f for f in reach if not f.mod.external), key=lambda f: f.key):
        if id(f) not in seen and isinstance(f.node, (ast.FunctionDef, ast.AsyncFunctionDef)):
            seen.add(id(f))
            out.append(f)
    return out


def check_shared(rep, repo, base, roots):
    rep.rule('R17.h', 'renderers are shared by all requests: nothing on the render path stores what it learns from one request '
                      'in the renderer / its class / module-level state and reads it back')
    scope = render_scope(repo, roots)
    if len(scope) < 8:
        raise AnalysisError('render paths: only %d function(s) found to scan for writes to shared objects' % len(scope))
    writes = []
    for f in scope:
        act = Activation(repo, f)
        for w in act.shared_writes():
            writes.append(w)
    # what the render path reads
    written_nodes = set()
    for node, obj, leak, act, used, slot_expr in writes:
        written_nodes.update(id(n) for n in ast.walk(slot_expr if slot_expr is not None else obj))
    attr_reads, name_reads = {}, {}
    for f in scope:
        for n in walk_body(f.node):
            if id(n) in written_nodes:
                continue
            if isinstance(n, ast.Attribute) and isinstance(n.ctx, ast.Load):
                attr_reads.setdefault(n.attr, []).append((f, n))
            elif isinstance(n, ast.Name) and isinstance(n.ctx, ast.Load):
                name_reads.setdefault((f.mod.name, n.id), []).append((f, n))
            elif isinstance(n, ast.Call) and isinstance(n.func, ast.Name) and n.func.id == 'getattr' and len(n.args) >= 2 and \
                    isinstance(n.args[1], ast.Constant) and isinstance(n.args[1].value, str):
                attr_reads.setdefault(n.args[1].value, []).append((f, n))
    n_leaks, seen = 0, set()
    for node, obj, leak, act, used, slot_expr in writes:
        f = act.fi
        key = fkey(f, 'shared write: %s' % norm(node))
        if key in seen:
            continue
        seen.add(key)
        at = node if isinstance(node, ast.stmt) else stmt_of(f.mod, node)
        slot = act.slot_of(slot_expr, at)
        if leak is None:
            rep.ok('R17.h', key, 'write to %s does not depend on what is rendered (a cache of configuration)' % norm(obj), f.mod, node)
            continue
        readers = []
        if slot is None:
            readers = [(f, node)]
        elif slot[0] == 'attr':
            readers = attr_reads.get(slot[1], [])
        elif slot[0] == 'global':
            readers = name_reads.get((f.mod.name, slot[1]), [])
        else:
            readers = [(g, n) for (g, n) in name_reads.get((f.mod.name, slot[1]), []) if g is f]
        if used and not readers:
            readers = [(f, node)]
        if readers and leak.startswith('whether') and _lazy_fill(act, node, slot_expr, readers):
            rep.ok('R17.h', key, 'write to %s fills a cache of configuration once (the value does not depend on what is rendered); every '
                                 'read on the render path comes after the fill' % norm(obj), f.mod, node)
            continue
        if readers:
            n_leaks += 1
        g, rn = readers[0] if readers else (None, None)
        rep.check('R17.h', key, not readers,
                  'write to %s is never read on the render path (it cannot influence a response)' % norm(obj) if not readers else
                  '%s in %s writes to %s, an object all requests rendered by this renderer share, and %s; the render path reads it back '
                  '(%s in %s): the representation / content of a response depends on the requests served before it'
                  % (short(node, 70), f.qualname, norm(obj) if slot is None else '%s (%s)' % (norm(obj), slot[1]), leak,
                     short(rn, 50) if rn is not node else 'the value of the call', g.qualname), f.mod, node)
    rep.ok('R17.h', '%s::render paths: per-request state' % SIMPLE,
           '%d function(s) on the render paths, %d write(s) to objects that outlive the call, %d of them history' % (len(scope), len(writes), n_leaks),
           repo.mod(SIMPLE), None)


# ---------------------------------------------------------------------------------------------- shared recognisers
def _module_scope(repo, roots):
    """The functions of the two render modules that lie on the render paths."""
    return [f for f in render_scope(repo, roots) if f.mod.name in (SIMPLE, TABULAR)]


def _request_params(f):
    return [p for p in f.params() if p not in ('self', 'cls')]


def _query_param_read(fl, f, expr, at, depth=0):
    """Every value that can flow into ``expr`` is ``<parameter>.args.get(self.qp_name[, None])`` -- the query parameter of the
    request being rendered that this renderer was configured to read (format / callback)."""
    if expr is None or depth > 4:
        return False
    lvs = fl.leaves(expr, at)
    if not lvs:
        return False
    for lf in lvs:
        if lf.opaque:
            return False
        v = fl.resolve(lf.value, lf.stmt)
        if not (isinstance(v, ast.Call) and isinstance(v.func, ast.Attribute) and v.func.attr == 'get' and 1 <= len(v.args) <= 2
                and not v.keywords):
            return False
        recv = v.func.value
        if not (isinstance(recv, ast.Attribute) and recv.attr == 'args' and isinstance(recv.value, ast.Name) and
                recv.value.id in _request_params(f)):
            return False
        if norm(v.args[0]) != 'self.qp_name':
            return False
        if len(v.args) == 2 and not (isinstance(v.args[1], ast.Constant) and v.args[1].value is None):
            return False
    return True


def _absent_tested(t, p):
    """The expression a path condition says is absent (None / falsy): ``not x`` / ``x is None`` true / ``x is not None`` false."""
    if isinstance(t, ast.Compare) and len(t.ops) == 1 and isinstance(t.comparators[0], ast.Constant) and t.comparators[0].value is None:
        if (isinstance(t.ops[0], (ast.Is, ast.Eq)) and p is True) or (isinstance(t.ops[0], (ast.IsNot, ast.NotEq)) and p is False):
            return t.left
        return None
    if p is False and isinstance(t, (ast.Name, ast.Attribute, ast.Subscript, ast.Call)):
        return t
    return None


def _present_tested(t, p):
    if isinstance(t, ast.Compare) and len(t.ops) == 1 and isinstance(t.comparators[0], ast.Constant) and t.comparators[0].value is None:
        if (isinstance(t.ops[0], (ast.Is, ast.Eq)) and p is False) or (isinstance(t.ops[0], (ast.IsNot, ast.NotEq)) and p is True):
            return t.left
        return None
    if p is True and isinstance(t, (ast.Name, ast.Attribute, ast.Subscript, ast.Call)):
        return t
    return None


# ---------------------------------------------------------------------------------------------- R17.i: status / raises
def check_total(rep, repo, base, roots):
    """R17.i: every Response built on the render paths keeps the default status (200); the only ``raise`` on the render paths
    outside the encoder is the rejection of an explicitly requested, unknown format."""
    from ..effects import Flow
    from .common import raises_of, raise_type
    from ..astutil import argn
    rep.rule('R17.i', 'render paths answer 200: no Response is built with / given another status, and the only raise outside the '
                      'encoder rejects a format parameter that is present and not in the format table')
    scope = _module_scope(repo, roots)
    n_resp = 0
    for f in scope:
        for c in walk_body(f.node):
            if isinstance(c, ast.Call) and base._is_response(f.mod, c):
                n_resp += 1
                st = argn(c, 'status', 1)
                v = base._fold_const(repo, f, st) if st is not None else None
                ok = st is None or v == 200 or (isinstance(v, str) and v.split(' ')[0] == '200')
                rep.check('R17.i', fkey(f, 'status of %s' % short(c, 60)), ok,
                          'built with the default status (200)' if ok else
                          '%s builds its response with status %s: the renderers answer every endpoint result with a 200'
                          % (f.qualname, short(st, 40)), f.mod, c)
        for s in stmts_of(f.node):
            tg = s.targets if isinstance(s, ast.Assign) else [s.target] if isinstance(s, (ast.AugAssign, ast.AnnAssign)) else []
            for t in tg:
                if isinstance(t, ast.Attribute) and t.attr in ('status', 'status_code'):
                    v = base._fold_const(repo, f, getattr(s, 'value', None))
                    ok = isinstance(s, ast.Assign) and (v == 200 or (isinstance(v, str) and v.split(' ')[0] == '200'))
                    rep.check('R17.i', fkey(f, 'status store %s' % norm(s)[:60]), ok, 'status set to 200' if ok else
                              '%s sets the status of a rendered response (%s): the renderers answer every endpoint result with a 200'
                              % (f.qualname, short(s, 60)), f.mod, s)
    if n_resp < 3:
        raise AnalysisError('render paths: only %d Response construction(s) found' % n_resp)
    # every path of a renderer entry point hands back a response: no falling off the end, no bare / None return
    from .common import cfg_of
    for f in roots:
        if f.cls is not None and f.cls.name == 'ClasticJSONEncoder':
            continue
        rets = returns_of(f)
        cfg = cfg_of(f)
        falls = cfg.exit in cfg.reach([cfg.entry], avoid=set(cfg.nodes_of_all(rets)), normal_only=True)
        empty = [r for r in rets if r.value is None or (isinstance(r.value, ast.Constant) and r.value.value is None)]
        ok = not falls and not empty and bool(rets)
        rep.check('R17.i', fkey(f, 'returns a response'), ok,
                  'every path ends in a return of a response (%d) or the documented raise' % len(rets) if ok else
                  '%s %s: the application gets None instead of a response (a 500)'
                  % (f.qualname, 'can fall off the end' if falls or not rets else 'returns None (%s; conditions: %s)'
                     % (short(empty[0], 30), '; '.join(cond_texts(conds(f, empty[0]))) or 'none')), f.mod, empty[0] if empty else f.node)
    simple = repo.mod(SIMPLE)
    br = simple.cls('BasicRender')
    n_reject = 0
    for f in scope:
        if f.cls is not None and f.cls.name == 'ClasticJSONEncoder':
            continue            # R17.d decides the encoder's TypeError
        fl = None
        for r in raises_of(f):
            if r.exc is None:
                continue        # re-raise inside a handler: nothing new is raised
            fl = fl or Flow(f)
            cs = fl.conds(r)
            asked = [x for x in (_present_tested(t, p) for t, p in cs) if x is not None and _query_param_read(fl, f, x, r)]
            unknown = []
            for t, p in cs:
                if isinstance(t, ast.Compare) and len(t.ops) == 1 and ((isinstance(t.ops[0], ast.NotIn) and p is True) or
                                                                       (isinstance(t.ops[0], ast.In) and p is False)):
                    if _query_param_read(fl, f, t.left, r) and _is_format_table(repo, f, fl, t.comparators[0], r, br):
                        unknown.append(t)
            if unknown:
                n_reject += 1
                ok = bool(asked)
                rep.check('R17.i', fkey(f, 'raise %s' % (raise_type(r) or '')), ok,
                          'the rejection is reached only for a format parameter that is present and not in the format table' if ok else
                          '%s rejects (%s) every request whose format parameter is not in the table -- including the requests that carry '
                          'no format parameter at all: the test is not guarded by the presence of the parameter (conditions: %s)'
                          % (f.qualname, raise_type(r), '; '.join(cond_texts(cs))), f.mod, r)
            else:
                rep.fail('R17.i', fkey(f, 'raise %s' % short(r.exc, 50)),
                         '%s raises %s on the render path (conditions: %s): an endpoint result / request that takes this path gets a '
                         '500 instead of a rendered response; the only documented escape is an explicitly requested unknown format'
                         % (f.qualname, short(r.exc, 50), '; '.join(cond_texts(cs)) or 'none'), f.mod, r)
    if not n_reject:
        rep.ok('R17.i', '%s::render paths: raises' % SIMPLE, 'no raise on the render paths outside the encoder', simple, None)


def _is_format_table(repo, f, fl, expr, at, br, depth=0):
    """The expression denotes the keys of the class's format table: self._format_mime_map (a local alias, .keys(), the
    ``formats`` property)."""
    e = fl.resolve(expr, at)
    while isinstance(e, ast.Call) and isinstance(e.func, ast.Name) and e.func.id in ('list', 'tuple', 'set', 'frozenset', 'sorted') and \
            len(e.args) == 1 and not e.keywords:
        e = e.args[0]
    if isinstance(e, ast.Call) and isinstance(e.func, ast.Attribute) and e.func.attr == 'keys' and not e.args:
        e = e.func.value
    if isinstance(e, ast.Attribute) and isinstance(e.value, ast.Name) and e.value.id in ('self', 'cls', br.name):
        if e.attr == '_format_mime_map':
            return True
        m = repo.find_method(br, e.attr)
        if m is not None and depth < 2 and any(norm(d) == 'property' for d in m.node.decorator_list):
            rets = returns_of(m)
            from ..effects import Flow
            return len(rets) == 1 and rets[0].value is not None and _is_format_table(repo, m, Flow(m), rets[0].value, rets[0], br, depth + 1)
    return False


# ---------------------------------------------------------------------------------------------- R17.k: negotiation provenance
_WRAPPERS = ('list', 'tuple', 'set', 'frozenset', 'sorted')


def _strip_wrappers(e):
    while isinstance(e, ast.Call) and isinstance(e.func, ast.Name) and e.func.id in _WRAPPERS and len(e.args) == 1 and not e.keywords:
        e = e.args[0]
    return e


def _table_attr(e, br):
    return isinstance(e, ast.Attribute) and e.attr == '_format_mime_map' and isinstance(e.value, ast.Name) and \
        e.value.id in ('self', 'cls', br.name)


def _served_mimes(repo, base, f, fl, expr, at, br, served, depth=0):
    """The expression denotes the collection of mimes the format table serves: table.values(), the ``mimetypes`` property, the
    inverse table (a property whose keys are the table's values), or a constant collection equal to it."""
    e = _strip_wrappers(fl.resolve(expr, at))
    if isinstance(e, ast.Call) and isinstance(e.func, ast.Attribute) and e.func.attr == 'keys' and not e.args:
        inner = _strip_wrappers(e.func.value)
        return _inverse_table(repo, base, f, fl, inner, at, br, depth)
    if isinstance(e, ast.Call) and isinstance(e.func, ast.Attribute) and e.func.attr == 'values' and not e.args:
        return _table_attr(fl.resolve(e.func.value, at), br)
    if isinstance(e, (ast.ListComp, ast.SetComp, ast.GeneratorExp)) and len(e.generators) == 1 and not e.generators[0].ifs:
        g = e.generators[0]
        it = fl.resolve(g.iter, at)
        if isinstance(it, ast.Call) and isinstance(it.func, ast.Attribute) and it.func.attr == 'values' and _table_attr(it.func.value, br):
            return isinstance(g.target, ast.Name) and norm(e.elt) == g.target.id
    if isinstance(e, ast.Attribute) and isinstance(e.value, ast.Name) and e.value.id in ('self', 'cls', br.name) and depth < 3:
        m = repo.find_method(br, e.attr)
        if m is not None and any(norm(d) in ('property', 'cached_property', 'functools.cached_property') for d in m.node.decorator_list):
            from ..effects import Flow
            rets = returns_of(m)
            if len(rets) == 1 and rets[0].value is not None:
                mfl = Flow(m)
                return _served_mimes(repo, base, m, mfl, rets[0].value, rets[0], br, served, depth + 1) or \
                    _inverse_table(repo, base, m, mfl, rets[0].value, rets[0], br, depth + 1)
            return False
        dc, v = repo.class_attr(br, e.attr)
        default_none = dc is None or (isinstance(v, ast.Constant) and v.value is None)
        if dc is not None and isinstance(v, ast.expr) and not default_none:
            try:
                val = repo.try_fold(v, dc.mod)
            except Exception:
                val = None
            if isinstance(val, (list, tuple, set, frozenset)):
                return set(val) == set(served)
            if isinstance(val, dict):
                return set(val) == set(served)
            return False
        # an attribute the renderer fills itself (a cache of configuration): every store to it, in any method of the
        # class, stores the served mimes (or None), and the value read here is not the unfilled None
        from ..effects import Flow
        from .common import implies_present
        stores = []
        for m in br.methods.values():
            if not isinstance(m.node, ast.FunctionDef):
                continue
            for st in stmts_of(m.node):
                if isinstance(st, (ast.AugAssign, ast.Delete)) and any(
                        isinstance(n, ast.Attribute) and n.attr == e.attr and isinstance(n.ctx, (ast.Store, ast.Del)) for n in ast.walk(st)):
                    return False
                if isinstance(st, ast.Assign):
                    for t in st.targets:
                        if isinstance(t, ast.Attribute) and t.attr == e.attr:
                            stores.append((m, st))
                        elif any(isinstance(n, ast.Attribute) and n.attr == e.attr and isinstance(n.ctx, ast.Store) for n in ast.walk(t)):
                            return False
        if not stores or depth >= 3:
            return False
        for m, st in stores:
            if isinstance(st.value, ast.Constant) and st.value.value is None:
                continue
            mfl = fl if m is f else Flow(m)
            if not _served_mimes(repo, base, m, mfl, st.value, st, br, served, depth + 1):
                return False
        text = norm(e)
        for lf in fl.leaves(e, at):
            if norm(lf.value) == text:          # the value on entry: filled by an earlier call, unless it is still None
                if default_none and not implies_present(lf.conds, text):
                    return False
            elif isinstance(lf.value, ast.Constant) and lf.value.value is None:
                return False
        return True
    if _inverse_table(repo, base, f, fl, e, at, br, depth):
        return True
    try:
        val = base._fold_const(repo, f, e)
    except Exception:
        val = None
    if isinstance(val, (list, tuple, set, frozenset)) and val:
        return set(val) == set(served)
    return False


def _inverse_table(repo, base, f, fl, e, at, br, depth=0):
    """A mapping whose keys are the mimes of the format table: {mime: fmt for fmt, mime in table.items()},
    dict([(v, k) for k, v in table.items()]), dict((v, k) for ...), dict(zip(table.values(), table.keys())), or a
    property / attribute of the class holding one."""
    e = fl.resolve(e, at) if at is not None else e
    if isinstance(e, ast.Attribute) and isinstance(e.value, ast.Name) and e.value.id in ('self', 'cls', br.name) and depth < 3:
        m = repo.find_method(br, e.attr)
        if m is not None and any(norm(d) in ('property', 'cached_property', 'functools.cached_property') for d in m.node.decorator_list):
            from ..effects import Flow
            rets = returns_of(m)
            return len(rets) == 1 and rets[0].value is not None and _inverse_table(repo, base, m, Flow(m), rets[0].value, rets[0], br, depth + 1)
        return False
    comp = None
    if isinstance(e, ast.DictComp):
        comp, key = e, e.key
    elif isinstance(e, ast.Call) and isinstance(e.func, ast.Name) and e.func.id == 'dict' and len(e.args) == 1 and not e.keywords:
        a = e.args[0]
        if isinstance(a, (ast.ListComp, ast.GeneratorExp)) and isinstance(a.elt, ast.Tuple) and len(a.elt.elts) == 2:
            comp, key = a, a.elt.elts[0]
        elif isinstance(a, ast.Call) and isinstance(a.func, ast.Name) and a.func.id == 'zip' and len(a.args) == 2:
            k, v = a.args
            return isinstance(k, ast.Call) and isinstance(k.func, ast.Attribute) and k.func.attr == 'values' and \
                _table_attr(fl.resolve(k.func.value, at), br)
    if comp is None or len(comp.generators) != 1 or comp.generators[0].ifs:
        return False
    g = comp.generators[0]
    it = fl.resolve(g.iter, at)
    if not (isinstance(it, ast.Call) and isinstance(it.func, ast.Attribute) and it.func.attr == 'items' and _table_attr(it.func.value, br)):
        return False
    return isinstance(g.target, ast.Tuple) and len(g.target.elts) == 2 and isinstance(g.target.elts[1], ast.Name) and \
        norm(key) == g.target.elts[1].id


def check_negotiation(rep, repo, base):
    """R17.k: the mime that decides how a mapping / sequence is serialized derives from this request's format parameter
    (looked up in the format table), else from this request's Accept header matched against the served mimes, else it is
    the default -- nothing else flows into it, and in that order of precedence."""
    from ..effects import Flow
    simple = repo.mod(SIMPLE)
    rep.rule('R17.k', 'provenance of the negotiated mime: format table lookup of this request\'s format parameter, else best_match of '
                      'this request\'s Accept header over the served mimes, else the default mime -- nothing else, in that precedence')
    sr = simple.func('BasicRender._serialize_to_resp')
    br = simple.cls('BasicRender')
    try:
        fmm = repo.fold(repo.class_attr(br, '_format_mime_map')[1], simple)
        dm = repo.fold(repo.class_attr(br, '_default_mime')[1], simple)
    except Exception as e:
        try:
            fmm = dict(repo.fold(repo.class_attr(br, '_format_mime_map')[1].args[0], simple)) if repo.class_attr(br, '_format_mime_map')[1].args else {}
            fmm.update((k.arg, repo.fold(k.value, simple)) for k in repo.class_attr(br, '_format_mime_map')[1].keywords)
            dm = repo.fold(repo.class_attr(br, '_default_mime')[1], simple)
        except Exception:
            raise AnalysisError('cannot fold BasicRender format tables: %s' % e)
    if not isinstance(fmm, dict) or not isinstance(dm, str):
        raise AnalysisError('cannot fold BasicRender format tables')
    served = set(fmm.values())
    fl = Flow(sr)
    mod = sr.mod
    # the value the dispatch looks at: whatever is compared with a served mime
    cands = []
    for n in walk_body(sr.node):
        if isinstance(n, ast.Compare) and len(n.ops) == 1 and isinstance(n.ops[0], (ast.Eq, ast.NotEq, ast.In, ast.NotIn)):
            l, r = n.left, n.comparators[0]
            for a, b in ((l, r), (r, l)):
                if isinstance(n.ops[0], (ast.In, ast.NotIn)) and a is r:
                    continue
                try:
                    v = base._fold_const(repo, sr, b)
                except Exception:
                    v = None
                if isinstance(n.ops[0], (ast.In, ast.NotIn)):
                    hit = isinstance(v, (tuple, list, set, frozenset)) and len(v) == 1 and set(v) <= served
                else:
                    hit = isinstance(v, str) and v in served
                if hit and base._fold_const(repo, sr, a) is None:
                    cands.append((a, stmt_of(mod, n)))
    if not cands:
        raise AnalysisError('_serialize_to_resp: no test of the negotiated mime against a served mime was found')

    def classify(v, at):
        """'F' / 'A' / 'D' / 'none' / ('other', why)"""
        e = fl.resolve(v, at)
        if isinstance(e, ast.Constant) and e.value is None:
            return 'none'
        if isinstance(e, ast.Call) and isinstance(e.func, ast.Attribute) and e.func.attr == 'get' and _table_attr(fl.resolve(e.func.value, at), br):
            if 1 <= len(e.args) <= 2 and not e.keywords and _query_param_read(fl, sr, v.args[0] if isinstance(v, ast.Call) and v.args else e.args[0], at):
                if len(e.args) == 1 or (isinstance(e.args[1], ast.Constant) and e.args[1].value is None):
                    return 'F'
            return ('other', 'the format table is not looked up with this request\'s format parameter')
        if isinstance(e, ast.Subscript) and _table_attr(fl.resolve(e.value, at), br):
            if _query_param_read(fl, sr, v.slice if isinstance(v, ast.Subscript) else e.slice, at):
                return 'F'
            return ('other', 'the format table is not looked up with this request\'s format parameter')
        if isinstance(e, ast.Call) and isinstance(e.func, ast.Attribute) and e.func.attr == 'best_match':
            recv = e.func.value
            if not (isinstance(recv, ast.Attribute) and recv.attr == 'accept_mimetypes' and isinstance(recv.value, ast.Name) and
                    recv.value.id in _request_params(sr)):
                return ('other', 'best_match is not applied to the Accept header of the request being rendered')
            if len(e.args) != 1 or e.keywords:
                return ('other', 'best_match is given more than the offered mimes')
            offered = v.args[0] if isinstance(v, ast.Call) and len(v.args) == 1 else e.args[0]
            if not _served_mimes(repo, base, sr, fl, offered, at, br, served):
                return ('other', 'the mimes offered to the Accept negotiation (%s) are not the mimes the format table serves %s'
                        % (short(offered, 40), sorted(served)))
            return 'A'
        if isinstance(e, ast.Attribute) and e.attr == '_default_mime' and isinstance(e.value, ast.Name) and e.value.id in ('self', 'cls', br.name):
            return 'D'
        try:
            c = base._fold_const(repo, sr, e)
        except Exception:
            c = None
        if isinstance(c, str):
            return 'D' if c == dm else ('other', 'the constant %r is not the default mime %r' % (c, dm))
        return ('other', 'it is neither this request\'s format parameter, its Accept header nor the default mime')

    def split(lf):
        """Leaves of a leaf whose value is ``a or b`` / ``a and b``: [(value, stmt, conds)]"""
        v = lf.value
        if isinstance(v, ast.BoolOp):
            out = []
            if isinstance(v.op, ast.Or):
                for i, x in enumerate(v.values):
                    out.extend(split(type(lf)(x, lf.stmt, list(lf.conds) + [(y, False) for y in v.values[:i]], lf.opaque)))
            else:
                out.extend(split(type(lf)(v.values[-1], lf.stmt, list(lf.conds) + [(y, True) for y in v.values[:-1]], lf.opaque)))
            return out
        return [lf]

    def kinds_of(expr, at):
        out = []
        for lf0 in fl.leaves(expr, at):
            for lf in split(lf0):
                if lf.opaque:
                    raise AnalysisError('_serialize_to_resp: a value flowing into the negotiated mime cannot be named (%s)' % short(lf.value, 50))
                out.append((classify(lf.value, lf.stmt), lf))
        return out

    seen = set()
    for m_expr, at in cands:
        key = norm(m_expr)
        if key in seen:
            continue
        seen.add(key)
        ks = kinds_of(m_expr, at)
        others = [(k, lf) for k, lf in ks if isinstance(k, tuple)]
        for k, lf in others:
            rep.fail('R17.k', fkey(sr, 'source %s' % short(lf.value, 60)),
                     'the mime that decides between JSON and the HTML table can be %s: %s -- the representation must follow from this '
                     'request\'s format parameter, else its Accept header, else the default' % (short(lf.value, 60), k[1]), mod, lf.stmt)
        have = set(k for k, lf in ks if not isinstance(k, tuple))
        for want, what in (('F', 'the format table lookup of the request\'s format parameter'),
                           ('A', 'the Accept negotiation (best_match over the served mimes)'), ('D', 'the default mime')):
            rep.check('R17.k', fkey(sr, 'source %s of %s' % (want, key)), want in have or bool(others),
                      '%s flows into the negotiated mime' % what if want in have else
                      ('(not judged: another source was found)' if others else
                       '%s never flows into the mime the dispatch tests (%s): that way of asking for a representation is ignored' % (what, key)),
                      mod, at)
        # precedence
        for k, lf in ks:
            if k == 'A':
                ok = False
                for t, p in lf.conds:
                    x = _absent_tested(t, p)
                    if x is None:
                        continue
                    sub = [kk for kk, _ in kinds_of(x, lf.stmt)] if not _query_param_read(fl, sr, x, lf.stmt) else ['F']
                    if sub and all(kk in ('F', 'none') for kk in sub) and 'F' in sub:
                        ok = True
                rep.check('R17.k', fkey(sr, 'precedence: Accept after format'), ok,
                          'the Accept header is consulted only when the format parameter chose nothing' if ok else
                          'the Accept negotiation is not subordinate to the explicit format parameter (conditions of %s: %s): a request '
                          'with ?format= can be answered in the representation its Accept header prefers'
                          % (short(lf.value, 50), '; '.join(cond_texts(lf.conds)) or 'none'), mod, lf.stmt)
            if k == 'D':
                ok = False
                for t, p in lf.conds:
                    x = _absent_tested(t, p)
                    if x is None and isinstance(t, ast.Compare) and len(t.ops) == 1 and \
                            ((isinstance(t.ops[0], ast.NotIn) and p is True) or (isinstance(t.ops[0], ast.In) and p is False)) and \
                            _served_mimes(repo, base, sr, fl, t.comparators[0], lf.stmt, br, served):
                        x = t.left
                    if x is None:
                        continue
                    sub = [kk for kk, _ in kinds_of(x, lf.stmt)]
                    if sub and all(kk in ('F', 'A', 'none') for kk in sub):
                        ok = True
                rep.check('R17.k', fkey(sr, 'precedence: default last'), ok,
                          'the default mime replaces only a negotiation result that is absent / not served' if ok else
                          'the default mime is not the last resort (conditions of %s: %s): it can replace what the format parameter or '
                          'the Accept header asked for' % (short(lf.value, 50), '; '.join(cond_texts(lf.conds)) or 'none'), mod, lf.stmt)


# ---------------------------------------------------------------------------------------------- stream re-chunkers
class _Rechunk(object):
    """A generator of the analysed tree through which a body stream is passed, read as a *re-chunker*: it consumes the
    stream in one ``for`` loop, holds tokens back in a list, and emits either the token itself or the joined buffer.
    Abstract state (finite): the buffer is E(mpty) / N (holds tokens not yet emitted) / F (its content was emitted, it
    was not cleared yet); the token of the current iteration was consumed 0 / 1 times.  Emitting a token while the
    buffer is N lets it overtake the buffered ones; clearing an N buffer, or ending with one, drops tokens; emitting
    an F buffer again, or consuming a token twice, duplicates.  Tests on the buffer's truth / length refine the state;
    every other test is free (both outcomes).  Nothing is run: the paths of the loop body are enumerated per state
    until the set of states at the loop head is stable."""

    def __init__(self, g):
        self.g = g
        a = g.node.args
        ps = [p.arg for p in a.posonlyargs + a.args]
        if not ps:
            raise AnalysisError('%s takes no stream' % g.qualname)
        self.stream = ps[0]
        self.problems = []          # (node, text)
        self._seen = set()
        self.bufs = set()
        self.var = None

    def fail(self, node, text):
        k = (getattr(node, 'lineno', 0), text)
        if k not in self._seen:
            self._seen.add(k)
            self.problems.append((node, text))

    def unknown(self, node, what):
        raise AnalysisError('%s: %s (%s) is outside the shapes of a stream re-chunker the analysis reads'
                            % (self.g.qualname, what, short(node, 50)))

    # -- recognisers
    @staticmethod
    def _empty_list(v):
        return (isinstance(v, ast.List) and not v.elts) or \
            (isinstance(v, ast.Call) and isinstance(v.func, ast.Name) and v.func.id == 'list' and not v.args and not v.keywords)

    def _is_flush(self, v):
        """''.join(buf) -> buf"""
        if isinstance(v, ast.Call) and isinstance(v.func, ast.Attribute) and v.func.attr == 'join' and len(v.args) == 1 and \
                not v.keywords and isinstance(v.func.value, ast.Constant) and v.func.value.value in ('', b'') and \
                isinstance(v.args[0], ast.Name) and v.args[0].id in self.bufs:
            return v.args[0].id
        return None

    def _mentions(self, node, names):
        return any(isinstance(n, ast.Name) and n.id in names for n in ast.walk(node))

    def _has_yield(self, node):
        return any(isinstance(n, (ast.Yield, ast.YieldFrom)) for n in ast.walk(node))

    # -- refinement by tests on the buffer
    def feasible(self, test, pol, st):
        if isinstance(test, ast.UnaryOp) and isinstance(test.op, ast.Not):
            return self.feasible(test.operand, not pol, st)
        if isinstance(test, ast.BoolOp):
            conj = isinstance(test.op, ast.And)
            if conj is pol:
                return all(self.feasible(v, pol, st) for v in test.values)
            return any(self.feasible(v, pol, st) for v in test.values)
        b = None
        if isinstance(test, ast.Name) and test.id in self.bufs:
            b = test.id
        elif isinstance(test, ast.Call) and isinstance(test.func, ast.Name) and test.func.id in ('len', 'bool') and len(test.args) == 1 and \
                isinstance(test.args[0], ast.Name) and test.args[0].id in self.bufs:
            b = test.args[0].id
        elif isinstance(test, ast.Compare) and len(test.ops) == 1 and isinstance(test.left, ast.Call) and \
                isinstance(test.left.func, ast.Name) and test.left.func.id == 'len' and len(test.left.args) == 1 and \
                isinstance(test.left.args[0], ast.Name) and test.left.args[0].id in self.bufs and \
                isinstance(test.comparators[0], ast.Constant) and test.comparators[0].value == 0:
            op = test.ops[0]
            if isinstance(op, (ast.Gt, ast.NotEq)):
                b = test.left.args[0].id
            elif isinstance(op, ast.Eq):
                return self.feasible(test.left.args[0], not pol, st)
        if b is None:
            return True
        empty = dict(st[0])[b] == 'E'
        return (not empty) if pol else empty

    # -- events
    def ev_direct(self, st, node):
        bufs, tok = dict(st[0]), st[1]
        held = [b for b, x in bufs.items() if x == 'N'] if tok != -1 else []
        if held:
            self.fail(node, 'the token is emitted (%s) while earlier tokens are still held back in %s: it overtakes them, the body is '
                            'not the text the encoder produced' % (short(node, 30), held[0]))
        if tok is None:
            self.unknown(node, 'a token emitted outside the loop')
        if tok >= 1:
            self.fail(node, 'the token is emitted a second time (%s)' % short(node, 30))
        return (st[0], 1 if tok >= 0 else -1)

    def ev_append(self, st, b, node):
        bufs, tok = dict(st[0]), st[1]
        if tok is None:
            self.unknown(node, 'a token buffered outside the loop')
        if tok >= 1:
            self.fail(node, 'the token is consumed a second time (%s)' % short(node, 30))
        if bufs[b] == 'F':
            self.fail(node, 'a token is added to %s, whose content was already emitted and not cleared: the next flush repeats it' % b)
        bufs[b] = 'N'
        return (tuple(sorted(bufs.items())), 1 if tok >= 0 else -1)

    def ev_flush(self, st, b, node):
        bufs = dict(st[0])
        if bufs[b] == 'F':
            self.fail(node, 'the content of %s is emitted a second time (it was not cleared after the previous flush)' % b)
        if bufs[b] == 'N':
            bufs[b] = 'F'
        return (tuple(sorted(bufs.items())), st[1])

    def ev_reset(self, st, b, node):
        bufs = dict(st[0])
        if bufs.get(b) == 'N':
            self.fail(node, '%s is cleared (%s) while it holds tokens that were not emitted: they are dropped from the body' % (b, short(node, 30)))
        bufs[b] = 'E'
        return (tuple(sorted(bufs.items())), st[1])

    # -- statements
    def stmt(self, s, st):
        """[(state, 'fall' | 'continue')]"""
        if isinstance(s, ast.Pass):
            return [(st, 'fall')]
        if isinstance(s, ast.Continue):
            return [(st, 'continue')]
        if isinstance(s, ast.Expr):
            v = s.value
            if isinstance(v, ast.Constant):
                return [(st, 'fall')]
            if isinstance(v, ast.Yield):
                y = v.value
                if isinstance(y, ast.Name) and y.id == self.var and st[1] is not None:
                    return [(self.ev_direct(st, s), 'fall')]
                b = self._is_flush(y) if y is not None else None
                if b is not None:
                    return [(self.ev_flush(st, b, s), 'fall')]
                self.unknown(s, 'what is yielded')
            if isinstance(v, ast.Call) and isinstance(v.func, ast.Attribute) and isinstance(v.func.value, ast.Name) and v.func.value.id in self.bufs:
                b = v.func.value.id
                if v.func.attr == 'append' and len(v.args) == 1 and isinstance(v.args[0], ast.Name) and v.args[0].id == self.var:
                    return [(self.ev_append(st, b, s), 'fall')]
                if v.func.attr == 'clear' and not v.args:
                    return [(self.ev_reset(st, b, s), 'fall')]
                self.unknown(s, 'an operation on the buffer')
            if self._has_yield(v) or self._mentions(v, self.bufs | {self.stream}):
                self.unknown(s, 'a statement using the stream / the buffer')
            return [(st, 'fall')]
        if isinstance(s, (ast.Assign, ast.AnnAssign)):
            value = s.value
            if value is None:
                return [(st, 'fall')]
            if self._has_yield(value):
                self.unknown(s, 'a yield expression')
            pairs = []
            for t in (s.targets if isinstance(s, ast.Assign) else [s.target]):
                if isinstance(t, (ast.Tuple, ast.List)) and isinstance(value, (ast.Tuple, ast.List)) and len(t.elts) == len(value.elts):
                    pairs.extend(zip(t.elts, value.elts))
                else:
                    pairs.append((t, value))
            for t, v in pairs:
                if isinstance(t, ast.Subscript) and isinstance(t.value, ast.Name) and t.value.id in self.bufs and isinstance(t.slice, ast.Slice) \
                        and t.slice.lower is None and t.slice.upper is None and self._empty_list(v):
                    st = self.ev_reset(st, t.value.id, s)
                elif isinstance(t, ast.Name) and (t.id in self.bufs or self._empty_list(v)):
                    if not self._empty_list(v):
                        self.unknown(s, 'the buffer re-bound to something else')
                    if t.id not in self.bufs:
                        self.bufs.add(t.id)
                        st = (tuple(sorted(dict(st[0], **{t.id: 'E'}).items())), st[1])
                    else:
                        st = self.ev_reset(st, t.id, s)
                elif self._mentions(t, self.bufs | {self.stream, self.var} - {None}) and not isinstance(t, ast.Name):
                    self.unknown(s, 'a store into the stream / buffer / token')
                elif isinstance(t, ast.Name) and t.id in (self.var, self.stream):
                    self.unknown(s, 'the token / stream re-bound')
                elif self._mentions(v, self.bufs) and not (isinstance(v, ast.Call) and isinstance(v.func, ast.Name) and v.func.id == 'len'):
                    self.unknown(s, 'the buffer used in a value')
            return [(st, 'fall')]
        if isinstance(s, ast.AugAssign):
            if isinstance(s.target, ast.Name) and s.target.id in self.bufs:
                v = s.value
                if isinstance(s.op, ast.Add) and isinstance(v, (ast.List, ast.Tuple)) and len(v.elts) == 1 and isinstance(v.elts[0], ast.Name) \
                        and v.elts[0].id == self.var:
                    return [(self.ev_append(st, s.target.id, s), 'fall')]
                self.unknown(s, 'an operation on the buffer')
            if self._has_yield(s.value):
                self.unknown(s, 'a yield expression')
            return [(st, 'fall')]
        if isinstance(s, ast.Delete):
            for t in s.targets:
                if isinstance(t, ast.Subscript) and isinstance(t.value, ast.Name) and t.value.id in self.bufs and isinstance(t.slice, ast.Slice) \
                        and t.slice.lower is None and t.slice.upper is None:
                    st = self.ev_reset(st, t.value.id, s)
                elif self._mentions(t, self.bufs):
                    self.unknown(s, 'a deletion in the buffer')
            return [(st, 'fall')]
        if isinstance(s, ast.If):
            out = []
            for pol, body in ((True, s.body), (False, s.orelse)):
                if self.feasible(s.test, pol, st):
                    st2 = st
                    if st[1] == 0 and self._token_empty(s.test, pol):
                        st2 = (st[0], -1)       # the empty token: nothing to emit, whatever is done with it
                    out.extend(self.block(body, st2))
            return out
        self.unknown(s, 'a %s statement' % type(s).__name__)

    def _token_empty(self, test, pol):
        if isinstance(test, ast.UnaryOp) and isinstance(test.op, ast.Not):
            return self._token_empty(test.operand, not pol)
        if isinstance(test, ast.Name) and test.id == self.var:
            return pol is False
        if isinstance(test, ast.Compare) and len(test.ops) == 1 and isinstance(test.left, ast.Name) and test.left.id == self.var and \
                isinstance(test.comparators[0], ast.Constant) and test.comparators[0].value in ('', b''):
            return (isinstance(test.ops[0], ast.Eq) and pol is True) or (isinstance(test.ops[0], ast.NotEq) and pol is False)
        return False

    def block(self, stmts, st):
        cur, done = [st], []
        for s in stmts:
            nxt = []
            for x in cur:
                for y, ctrl in self.stmt(s, x):
                    (nxt if ctrl == 'fall' else done).append((y, ctrl))
            cur = [y for y, _ in nxt]
            if len(cur) + len(done) > 512:
                raise AnalysisError('%s: too many paths' % self.g.qualname)
        return [(y, 'fall') for y in cur] + done

    def run(self):
        body = list(self.g.node.body)
        loops = [i for i, s in enumerate(body) if isinstance(s, ast.For) and isinstance(s.iter, ast.Name) and s.iter.id == self.stream]
        if len(loops) != 1:
            raise AnalysisError('%s does not consume its stream in exactly one top-level for loop' % self.g.qualname)
        i = loops[0]
        loop = body[i]
        if not isinstance(loop.target, ast.Name):
            self.unknown(loop, 'the loop target')
        for s in body[:i] + body[i + 1:]:
            if self._mentions(s, {self.stream}):
                self.unknown(s, 'another use of the stream')
        st = ((), None)
        for y, ctrl in self.block(body[:i], st):
            st = y
        if len(self.block(body[:i], ((), None))) != 1:
            self.unknown(body[0], 'branching before the loop')
        self.var = loop.target.id
        head, todo = set(), [st[0]]
        while todo:
            b = todo.pop()
            if b in head:
                continue
            head.add(b)
            for y, ctrl in self.block(loop.body, (b, 0)):
                if y[1] == 0:
                    self.fail(loop, 'on some path through the loop a token is neither emitted nor kept: it is dropped from the body')
                todo.append(y[0])
        self.var = None
        for b in sorted(head):
            for y, ctrl in self.block(list(loop.orelse) + body[i + 1:], (b, None)):
                held = [n for n, x in y[0] if x == 'N']
                if held:
                    self.fail(loop, 'tokens still held in %s when the stream ends are never emitted: the tail of the body is lost' % held[0])
        return self.problems


def _tree_generator(repo, f, call):
    """(generator function of the analysed tree, the stream it is given) for ``g(stream, ...)``; None for anything else."""
    if not (isinstance(call, ast.Call) and isinstance(call.func, ast.Name) and call.args and not isinstance(call.args[0], ast.Starred)):
        return None
    try:
        kind, m, obj = repo.resolve(f.mod, call.func.id)
    except Exception:
        return None
    if kind != 'func' or m is None or m.external or not isinstance(obj.node, ast.FunctionDef):
        return None
    if not any(isinstance(n, (ast.Yield, ast.YieldFrom)) for n in walk_body(obj.node)):
        return None
    return obj, call.args[0]


# ---------------------------------------------------------------------------------------------- R17.l: JSON bodies
def check_json_bodies(rep, repo, base):
    """R17.l: the streaming and the non-streaming JSON body, and the JSON inside a JSONP body, are all produced by the one
    encoder the renderer built for itself (``self.json_encoder``: its options and its dev-mode fallback are what R17.d
    checks), applied to the endpoint result itself; a JSONP body is ``<callback>(`` + that JSON + ``)``, the callback being
    this request's callback parameter, and is only built when there is one."""
    from ..effects import Flow
    from ..astutil import argn
    simple = repo.mod(SIMPLE)
    rep.rule('R17.l', 'every JSON body (streaming, non-streaming, inside JSONP) is self.json_encoder applied to the endpoint result; '
                      'a JSONP body is callback + "(" + JSON + ")" and is built only when the request names a callback')
    n = 0
    judged = set()

    def parts_of(f, ctx, q, level=0):
        """(Flow, json_part, flatten) of one function whose endpoint result is the parameter ``ctx``: the renderer's
        __call__, or a method of the tree it delegates the serialization to (followed through its returns)."""
        fl = Flow(f)

        def delegated(v, at):
            """(method / function of the tree, its parameter that receives the endpoint result) for ``self.m(.., ctx, ..)``."""
            if level >= 2 or not isinstance(v, ast.Call) or any(isinstance(a, ast.Starred) for a in v.args) or fl.defs.get(ctx):
                return None
            try:
                callee = base.follow_resolver(repo, f)(v)
            except Exception:
                callee = None
            if callee is None:
                return None
            cps = list(callee.params())
            static = any(isinstance(d, ast.Name) and d.id == 'staticmethod' for d in callee.node.decorator_list)
            if callee.cls is not None and not static and cps:
                cps = cps[1:]
            bound = [cps[i] for i, a in enumerate(v.args) if i < len(cps) and norm(fl.resolve(a, at)) == ctx] + \
                [k.arg for k in v.keywords if k.arg in cps and norm(fl.resolve(k.value, at)) == ctx]
            return (callee, bound[0]) if len(bound) == 1 else None

        def json_part(expr, at, depth=0, lenient=False):
            """'stream' / 'whole' when every value flowing into expr is the renderer's encoder applied to the context;
            else (None, offending leaf)."""
            kinds = set()
            for lf in fl.leaves(expr, at):
                v = lf.value
                if lf.opaque:
                    return None, v
                if isinstance(v, (ast.List, ast.Tuple)) and len(v.elts) == 1 and not isinstance(v.elts[0], ast.Starred):
                    v = v.elts[0]
                    whole = True
                else:
                    whole = False
                while not whole and isinstance(v, ast.Call) and isinstance(v.func, ast.Name) and v.func.id in ('iter', 'list', 'tuple') and \
                        len(v.args) == 1 and not v.keywords and not isinstance(v.args[0], ast.Starred) and depth < 3:
                    inner = v.args[0]
                    if isinstance(inner, ast.Name):
                        k2, bad2 = json_part(inner, lf.stmt, depth + 1, lenient)
                        if not k2:
                            return None, bad2 if bad2 is not None else lf.value
                        kinds.update(k2)
                        v = None
                        break
                    v = inner
                if v is None:
                    continue
                w = _tree_generator(repo, f, v) if not whole else None
                if w is not None and depth < 3:
                    k2, bad2 = json_part(w[1], lf.stmt, depth + 1, lenient)
                    if not k2:
                        return None, bad2 if bad2 is not None else lf.value
                    rechunked(w[0], v)
                    kinds.add('stream')
                    continue
                d = delegated(v, lf.stmt) if not whole else None
                if d is not None:
                    # the serialization is delegated to a method of the tree: each of its returns is judged in its place
                    from .common import cfg_of
                    rets = returns_of(d[0])
                    cfg = cfg_of(d[0])
                    if not rets or cfg.exit in cfg.reach([cfg.entry], avoid=set(cfg.nodes_of_all(rets)), normal_only=True):
                        return None, lf.value
                    fl2, part2, _fl = parts_of(d[0], d[1], '%s (for %s)' % (d[0].qualname, q), level + 1)
                    for r in rets:
                        k2, bad2 = part2(r.value, r, 0, lenient) if r.value is not None else (None, r)
                        if not k2:
                            return None, bad2 if bad2 is not None else lf.value
                        kinds.update(k2)
                    continue
                if not (isinstance(v, ast.Call) and isinstance(v.func, ast.Attribute) and v.func.attr in ('encode', 'iterencode')
                        and len(v.args) == 1 and not v.keywords):
                    if depth < 3 and not lenient and carries_json(v, lf.stmt, depth):
                        raise AnalysisError('%s: the JSON stream is passed through %s, a transformation the analysis cannot follow'
                                            % (q, short(v, 60)))
                    return None, lf.value
                if whole and v.func.attr != 'encode':
                    return None, lf.value
                if norm(fl.resolve(v.func.value, lf.stmt)) != 'self.json_encoder':
                    return None, lf.value
                if norm(fl.resolve(v.args[0], lf.stmt)) != ctx or fl.defs.get(ctx):
                    return None, lf.value
                kinds.add('whole' if v.func.attr == 'encode' else 'stream')
            return (kinds or None), None

        def carries_json(v, at, depth):
            """Some part of the expression is the renderer's encoder applied to the context."""
            for sub in ast.walk(v):
                if sub is v:
                    continue
                if isinstance(sub, ast.Call) and isinstance(sub.func, ast.Attribute) and sub.func.attr in ('encode', 'iterencode') and \
                        norm(fl.resolve(sub.func.value, at)) == 'self.json_encoder':
                    return True
                if isinstance(sub, ast.Name) and isinstance(sub.ctx, ast.Load) and sub.id in fl.defs and sub.id != ctx:
                    try:
                        if json_part(sub, at, depth + 1)[0]:
                            return True
                    except AnalysisError:
                        return True
            return False

        def rechunked(g, node):
            """The body passes through a generator of the tree: it must hand on the text it is given."""
            if g.key in judged:
                return
            judged.add(g.key)
            problems = _Rechunk(g).run()
            for pn, text in problems:
                rep.fail('R17.l', fkey(g, 're-chunking: %s' % text[:60]),
                         '%s re-chunks a JSON body (%s in %s) but does not hand on the text it is given: %s'
                         % (g.qualname, short(node, 40), q, text), g.mod, pn)
            if not problems:
                rep.ok('R17.l', fkey(g, 're-chunking'), '%s hands the tokens of the body on in order, each exactly once (%s in %s)'
                       % (g.qualname, short(node, 40), q), g.mod, g.node)

        def flatten(e, at):
            """Items of the iterable a JSONP body is chained from: ('const', str) / ('expr', node) / ('json', kinds) /
            ('bad', node)."""
            if isinstance(e, ast.Call) and norm(e.func) in ('itertools.chain', 'chain') and not e.keywords:
                out = []
                for a in e.args:
                    out.extend(flatten(a, at))
                return out
            if isinstance(e, ast.BinOp) and isinstance(e.op, ast.Add):
                return flatten(e.left, at) + flatten(e.right, at)
            if isinstance(e, (ast.List, ast.Tuple)) and not any(isinstance(x, ast.Starred) for x in e.elts):
                k, _ = json_part(e, at, 0, True) if len(e.elts) == 1 else (None, None)
                if k:
                    return [('json', k)]
                out = []
                for x in e.elts:
                    out.extend(pieces(x, at))
                return out
            if isinstance(e, ast.Call) and isinstance(e.func, ast.Name) and e.func.id in ('list', 'tuple', 'iter') and len(e.args) == 1 \
                    and not e.keywords:
                return flatten(e.args[0], at)
            w = _tree_generator(repo, f, e)
            if w is not None:
                inner = flatten(w[1], at)
                if any(kind == 'json' for kind, x in inner):
                    rechunked(w[0], e)
                    return inner
            k, bad = json_part(e, at, 0, True)
            if k:
                return [('json', k)]
            if isinstance(e, ast.Name):
                lvs = fl.leaves(e, at)
                if len(lvs) == 1 and not lvs[0].opaque and lvs[0].value is not e:
                    return flatten(lvs[0].value, lvs[0].stmt)
            if carries_json(e, at, 0):
                raise AnalysisError('%s: the JSON stream is passed through %s, a transformation the analysis cannot follow' % (q, short(e, 60)))
            return [('bad', bad if bad is not None else e)]

        def pieces(x, at):
            """One element of a chained list: text constants and the expressions concatenated with them."""
            if isinstance(x, ast.BinOp) and isinstance(x.op, ast.Add):
                return pieces(x.left, at) + pieces(x.right, at)
            try:
                c = base._fold_const(repo, f, x)
            except Exception:
                c = None
            if isinstance(c, str):
                return [('const', c)]
            return [('expr', x)]
        return fl, json_part, flatten

    for q in ('JSONRender.__call__', 'JSONPRender.__call__'):
        f = simple.func(q)
        ps = _request_params(f)
        if not ps:
            raise AnalysisError('%s takes no endpoint result' % q)
        ctx = 'context' if 'context' in ps else ps[-1]
        fl, json_part, flatten = parts_of(f, ctx, q)

        def jsonp_verdict(body, b_at, at):
            """(ok, why not) for one way the padded body is built; ``at``: the statement that builds the Response."""
            items = flatten(body, b_at)
            bad = [x for kind, x in items if kind == 'bad']
            js = [i for i, (kind, x) in enumerate(items) if kind == 'json']
            ok, why = True, ''
            if bad:
                ok, why = False, 'part of the body (%s) is neither text nor the renderer\'s encoder applied to %s' % (short(bad[0], 50), ctx)
            elif len(js) != 1:
                ok, why = False, 'the body holds %d JSON part(s), expected exactly one' % len(js)
            else:
                pre, post = items[:js[0]], items[js[0] + 1:]
                exprs = [x for kind, x in pre if kind == 'expr']
                if len(exprs) != 1 or not _query_param_read(fl, f, exprs[0], b_at):
                    ok, why = False, 'the text before the JSON does not consist of this request\'s callback parameter and "("'
                else:
                    idx = [i for i, (kind, x) in enumerate(pre) if kind == 'expr'][0]
                    before = ''.join(x for kind, x in pre[:idx])
                    after = ''.join(x for kind, x in pre[idx + 1:])
                    tail = ''.join(x for kind, x in post) if all(kind == 'const' for kind, x in post) else None
                    if before.strip() not in ('', '/**/') or after.strip() != '(':
                        ok, why = False, 'the padding before the JSON is %r <callback> %r, expected <callback> "("' % (before, after)
                    elif tail is None or tail.strip() not in (')', ');'):
                        ok, why = False, 'the padding after the JSON is %s, expected ")"' % ('%r' % tail if tail is not None else 'not constant')
                    else:
                        cs = list(fl.conds(at))
                        present = any(_present_tested(t, p) is not None and _query_param_read(fl, f, _present_tested(t, p), at) for t, p in cs)
                        if not present:
                            ok, why = False, 'the padded body is built although the request may carry no callback (conditions: %s)' \
                                % ('; '.join(cond_texts(cs)) or 'none')
            return ok, why

        for c in walk_body(f.node):
            if not (isinstance(c, ast.Call) and base._is_response(simple, c)):
                continue
            at = stmt_of(simple, c)
            mt = base._fold_const(repo, f, argn(c, 'mimetype', 3))
            body = argn(c, 'response', 0)
            if body is None:
                continue
            n += 1
            if mt == 'application/json':
                k, bad = json_part(body, at)
                rep.check('R17.l', fkey(f, 'json body of %s' % short(c, 50)), bool(k),
                          'the body is self.json_encoder applied to %s (%s)' % (ctx, ', '.join(sorted(k or []))) if k else
                          '%s: the application/json body can be %s, which is not the renderer\'s own encoder (self.json_encoder.encode / '
                          '.iterencode) applied to the endpoint result %s: that path bypasses the encoder\'s conversions, options and '
                          'dev-mode fallback' % (q, short(bad, 60), ctx), simple, c)
            elif mt == 'application/javascript':
                # a body bound on several branches (chained when streaming, concatenated when buffering): every
                # alternative is judged as a padded body of its own
                alts = [(body, at)]
                if isinstance(body, ast.Name):
                    lvs = fl.leaves(body, at)
                    if len(lvs) > 1 and all(not lf.opaque and lf.value is not body for lf in lvs):
                        alts = [(lf.value, lf.stmt) for lf in lvs]
                verdicts = [jsonp_verdict(b, b_at, at) for b, b_at in alts]
                ok, why = all(v[0] for v in verdicts), next((v[1] for v in verdicts if not v[0]), '')
                rep.check('R17.l', fkey(f, 'jsonp body of %s' % short(c, 50)), ok,
                          'the body is <callback>( + self.json_encoder applied to %s + ), built only when the request names a callback' % ctx
                          if ok else '%s: %s' % (q, why), simple, c)

        # the plain-JSON continuation of the JSONP renderer gets the endpoint result itself
        for r in returns_of(f):
            v = r.value
            if isinstance(v, ast.Call) and isinstance(v.func, ast.Attribute) and v.func.attr == '__call__' and \
                    isinstance(v.func.value, ast.Call) and norm(v.func.value.func) == 'super':
                ok = len(v.args) == 1 and not v.keywords and norm(fl.resolve(v.args[0], r)) == ctx and not fl.defs.get(ctx)
                rep.check('R17.l', fkey(f, 'plain JSON without a callback'), ok,
                          'without a callback the endpoint result is rendered as plain JSON' if ok else
                          '%s hands %s to the plain JSON renderer, not the endpoint result %s' % (q, short(v, 50), ctx), simple, r)
    if n < 2:
        raise AnalysisError('JSON renderers: the Responses carrying the JSON / JSONP bodies were not found')
    # the dispatch of the basic renderer hands the endpoint result itself to the renderer it picked
    sr = simple.func('BasicRender._serialize_to_resp')
    fl = Flow(sr)
    ps = _request_params(sr)
    ctx = 'context' if 'context' in ps else (ps[0] if ps else None)
    n_d = 0
    for c in walk_body(sr.node):
        if not (isinstance(c, ast.Call) and isinstance(c.func, (ast.Attribute, ast.Name))):
            continue
        at = stmt_of(simple, c)
        callee = norm(fl.resolve(c.func, at))
        if callee not in ('self.json_render', 'self.tabular_render'):
            continue
        n_d += 1
        a0 = c.args[0] if c.args and not isinstance(c.args[0], ast.Starred) else next((k.value for k in c.keywords if k.arg == 'context'), None)
        ok = a0 is not None and norm(fl.resolve(a0, at)) == ctx and not fl.defs.get(ctx)
        rep.check('R17.l', fkey(sr, 'argument of %s' % callee), ok,
                  '%s renders the endpoint result itself' % callee if ok else
                  '%s is handed %s, not the endpoint result %s as the endpoint returned it%s'
                  % (callee, short(a0, 40) if a0 is not None else 'nothing', ctx, ' (%s is re-bound in _serialize_to_resp)' % ctx if fl.defs.get(ctx) else ''),
                  simple, c)
    if not n_d:
        raise AnalysisError('_serialize_to_resp: the calls of json_render / tabular_render were not found')


# ---------------------------------------------------------------------------------------------- R17.m: optional builder attributes
def nullable_builder_attrs(repo):
    """Attributes of boltons' FunctionBuilder that are None unless the function supplies a value -- read from the pinned
    source: the entries of ``_defaults`` / ``_argspec_defaults`` whose default factory is ``lambda: None`` (``__init__``
    replaces a missing / None keyword by the factory's result; ``from_func`` fills ``module`` with
    ``getattr(func, '__module__', None)``)."""
    m = repo.try_mod('boltons.funcutils')
    if m is None or 'FunctionBuilder' not in m.classes:
        raise AnalysisError('boltons.funcutils.FunctionBuilder not found')
    out = set()

    def scan(body):
        for st in body:
            if isinstance(st, ast.If):
                scan(st.body)
                scan(st.orelse)
            elif isinstance(st, ast.Assign) and isinstance(st.value, ast.Dict) and \
                    any(isinstance(t, ast.Name) and t.id in ('_defaults', '_argspec_defaults') for t in st.targets):
                for k, v in zip(st.value.keys, st.value.values):
                    if isinstance(k, ast.Constant) and isinstance(k.value, str) and isinstance(v, ast.Lambda) and \
                            isinstance(v.body, ast.Constant) and v.body.value is None:
                        out.add(k.value)
    scan(m.classes['FunctionBuilder'].node.body)
    if 'module' not in out:
        raise AnalysisError('boltons FunctionBuilder: the optional attributes (default factory "lambda: None") were not found')
    return out


def _returns_builder(repo, f, call, depth=0):
    """The call yields a FunctionBuilder: FunctionBuilder(...) / FunctionBuilder.from_func(...) or a clastic function one of
    whose returns is such a call."""
    fn = call.func
    if isinstance(fn, ast.Attribute) and fn.attr == 'from_func' and norm(fn.value).rpartition('.')[2] == 'FunctionBuilder':
        return True
    if isinstance(fn, ast.Name) and fn.id == 'FunctionBuilder':
        return True
    if depth >= 2 or not isinstance(fn, ast.Name):
        return False
    try:
        kind, m, obj = repo.resolve(f.mod, fn.id)
    except Exception:
        return False
    if kind != 'func' or m is None or m.external or not isinstance(obj.node, ast.FunctionDef):
        return False
    from ..effects import Flow
    gfl = Flow(obj)
    for r in returns_of(obj):
        if r.value is None:
            continue
        for lf in gfl.leaves(r.value, r):
            if isinstance(lf.value, ast.Call) and _returns_builder(repo, obj, lf.value, depth + 1):
                return True
    return False


def check_optional_labels(rep, repo, base, roots):
    """R17.m: an optional attribute of a FunctionBuilder (None for callables that do not supply it: ``module`` of a function
    compiled without ``__name__`` in its globals, ``varargs`` / ``varkw`` / ``defaults`` of most functions) is used as text
    on the render paths -- joined, concatenated, dereferenced -- only behind a test that it is there."""
    from ..effects import Flow
    from .common import implies_present
    rep.rule('R17.m', 'optional FunctionBuilder attributes (pinned boltons: default factory "lambda: None") are joined / concatenated / '
                      'dereferenced on the render paths only behind a presence test')
    nullable = nullable_builder_attrs(repo)
    scope = [f for f in render_scope(repo, roots) if not f.mod.external]
    n_uses = 0
    for f in scope:
        mod = f.mod
        fl = None
        joined = None
        for n in walk_body(f.node):
            if not (isinstance(n, ast.Attribute) and n.attr in nullable and isinstance(n.ctx, ast.Load) and isinstance(n.value, ast.Name)):
                continue
            fl = fl or Flow(f)
            at = stmt_of(mod, n)
            ds = fl.reaching(n.value.id, at)
            if not ds or not all(d.kind == 'assign' and d.idx is None and isinstance(d.value, ast.Call) and
                                 _returns_builder(repo, f, d.value) for d in ds):
                continue
            if joined is None:
                joined = set()          # locals that end up as the operand of a str.join
                for c in walk_body(f.node):
                    if isinstance(c, ast.Call) and isinstance(c.func, ast.Attribute) and c.func.attr == 'join' and len(c.args) == 1:
                        joined.update(x.id for x in ast.walk(c.args[0]) if isinstance(x, ast.Name))
            text = norm(n)
            # the value itself, or a local that is exactly this attribute
            carriers = [(n, text)]
            par = mod.parents.get(n)
            if isinstance(par, ast.Assign) and par.value is n and len(par.targets) == 1 and isinstance(par.targets[0], ast.Name):
                alias = par.targets[0].id
                if len(fl.defs.get(alias, [])) == 1:
                    carriers = [(x, alias) for x in walk_body(f.node) if isinstance(x, ast.Name) and x.id == alias and isinstance(x.ctx, ast.Load)]
            for node, name in carriers:
                use = _text_use(mod, node, joined)
                if use is None:
                    continue
                n_uses += 1
                cs = list(conds(f, node)) + _inline_guards(mod, node)
                ok = implies_present(cs, name) or implies_present(cs, text)
                rep.check('R17.m', fkey(f, '%s: %s' % (text, use)), ok,
                          '%s is used as text (%s) behind a presence test' % (text, use) if ok else
                          '%s in %s: %s is %s without a test that it is there -- a FunctionBuilder has %s = None when the callable does '
                          'not supply it (boltons: default factory "lambda: None"; e.g. the module of a function built by exec() into a '
                          'bare namespace): TypeError / AttributeError while the heading of the HTML table is built, a 500 instead of the '
                          'table (conditions: %s)' % (short(stmt_of(mod, node), 50), f.qualname, text, use, n.attr,
                                                      '; '.join(cond_texts(cs)) or 'none'), mod, node)
    rep.ok('R17.m', '%s::render paths: optional builder attributes' % SIMPLE,
           '%d function(s) scanned, optional attributes %s, %d use(s) as text' % (len(scope), sorted(nullable), n_uses), repo.mod(SIMPLE), None)


def _text_use(mod, node, joined):
    """How an expression is used as text / dereferenced by its parent; None for uses that tolerate None (tests, defaults,
    arguments of unknown calls, %-formatting, being returned)."""
    par = mod.parents.get(node)
    if isinstance(par, ast.BoolOp) and isinstance(par.op, ast.Or) and par.values[-1] is not node:
        return None                 # x or '<default>'
    if isinstance(par, ast.Attribute) and par.value is node:
        gp = mod.parents.get(par)
        return 'dereferenced (.%s%s)' % (par.attr, '()' if isinstance(gp, ast.Call) and gp.func is par else '')
    if isinstance(par, ast.Subscript) and par.value is node:
        return 'subscripted'
    if isinstance(par, ast.BinOp) and isinstance(par.op, ast.Add):
        return 'concatenated (+)'
    if isinstance(par, ast.AugAssign) and par.value is node and isinstance(par.op, ast.Add):
        return 'concatenated (+=)'
    if isinstance(par, (ast.For, ast.comprehension)) and par.iter is node:
        return 'iterated'
    if isinstance(par, ast.Call) and node in par.args:
        fn = par.func
        if isinstance(fn, ast.Name) and fn.id in ('len', 'iter', 'sorted', 'list', 'tuple', 'set'):
            return 'passed to %s()' % fn.id
        if isinstance(fn, ast.Attribute) and fn.attr == 'join':
            return 'joined'
        if isinstance(fn, ast.Attribute) and fn.attr in ('append', 'insert', 'add') and isinstance(fn.value, ast.Name) and fn.value.id in joined:
            return 'put into %s, which is joined' % fn.value.id
        return None
    if isinstance(par, (ast.List, ast.Tuple, ast.Set)):
        gp = mod.parents.get(par)
        while isinstance(gp, ast.BinOp) and isinstance(gp.op, ast.Add):
            par, gp = gp, mod.parents.get(gp)
        if isinstance(gp, ast.Call) and isinstance(gp.func, ast.Attribute) and gp.func.attr == 'join' and par in gp.args:
            return 'joined'
        if isinstance(gp, ast.Call) and isinstance(gp.func, ast.Attribute) and gp.func.attr == 'extend' and \
                isinstance(gp.func.value, ast.Name) and gp.func.value.id in joined:
            return 'put into %s, which is joined' % gp.func.value.id
        if isinstance(gp, (ast.Assign, ast.AugAssign)):
            tg = gp.targets if isinstance(gp, ast.Assign) else [gp.target]
            if any(isinstance(t, ast.Name) and t.id in joined for t in tg):
                return 'put into %s, which is joined' % [t.id for t in tg if isinstance(t, ast.Name)][0]
        return None
    if isinstance(par, ast.Compare) and any(c is node for c in par.comparators) and any(isinstance(op, (ast.In, ast.NotIn)) for op in par.ops):
        return 'searched (in)'
    return None
