"""C16 -- Signed cookies: only intact, unexpired, server-signed data is ever presented.

Decided:
  R16.a  a malformed cookie cannot fail the request.  *Callee facts are derived from the pinned
         secure_cookie/cookie.py*: decoding primitives applied to client bytes in SecureCookie.unserialize
         (b64decode, bytes.decode, url_unquote_plus, tuple-unpacking of split()) are listed with the
         handlers enclosing them; if any is not under a ValueError-catching handler, then on the call path
         SignedCookieMiddleware.request -> load_cookie -> JSONCookie.unserialize -> super().unserialize some
         clastic frame must catch Exception/ValueError, must not re-raise, and must yield an empty cookie;
  R16.b  JSONCookie.unquote is total: every call in it is under ``except Exception`` raising UnquoteError
         (the exception the dependency's MAC-then-unquote loop expects);
  R16.c  MAC before use (dependency): cls.unquote and the _expires comparison are dominated by the
         safe_str_cmp(client_hash, mac.digest()) test; JSONCookie overrides neither hash_method nor
         serialize, and its unserialize delegates to super with the same secret_key;
  R16.d  key plumbing: load_cookie gets self.secret_key / self.cookie_name; secret_key is the constructor
         argument or os.urandom; the cookie is provided under arg_name (= provides); save_cookie runs on the
         next() result on every normal path; _expires is stamped only when absent and expiry is numeric.
Declined: cryptographic strength, JSON round-trip fidelity, clock behaviour around the expiry instant.
"""
import ast

from ..core import AnalysisError, norm, short
from .common import (cfg_of, fkey, conds, has_cond, cond_texts, stmts_of, walk_body, call_tail, call_name,
                     returns_of, raises_of, raise_type, protected_by, stmt_of, kwarg, handler_reraises_always)
from .c15 import next_derived, is_next_call

COOKIE = 'clastic.middleware.cookie'
DECODERS = {'b64decode', 'decode', 'loads', 'url_unquote_plus', 'url_unquote', 'unhexlify', 'fromhex', 'int', 'float',
            'urlsafe_b64decode', 'b32decode', 'b16decode'}


def run(rep):
    repo = rep.repo
    ck = repo.mod(COOKIE)
    dep = repo.mod('secure_cookie.cookie')
    rep.decide('R16.a malformed cookies cannot raise out of the load; R16.b unquote total; R16.c MAC dominates use; '
               'R16.d key plumbing, provide-under-name, save on every path')
    rep.decline('cryptographic strength; JSON round-trip fidelity; clock behaviour at the expiry instant')
    rep.assume('binascii.Error and UnicodeDecodeError are ValueError subclasses (CPython)')
    rep.assume('secure-cookie 0.1.0 as parsed from site-packages/secure_cookie/cookie.py')

    # ---- R16.a -----------------------------------------------------------
    rep.rule('R16.a', 'uncovered decoding primitives of the dependency are under a clastic handler that yields an empty cookie')
    un = dep.func('SecureCookie.unserialize')
    prims = []
    for n in walk_body(un.node):
        if isinstance(n, ast.Call) and call_tail(n) in DECODERS:
            prims.append(n)
        if isinstance(n, ast.Assign) and isinstance(n.targets[0], ast.Tuple) and isinstance(n.value, ast.Call) \
                and call_tail(n.value) == 'split':
            prims.append(n.value)
    if len(prims) < 3:
        raise AnalysisError('secure_cookie unserialize: decoding primitives not found (model out of date)')
    uncovered = []
    for p in prims:
        h = protected_by(un, p, 'ValueError')
        if h is None:
            uncovered.append(p)
    rep.extra['dependency_primitives'] = [norm(p) for p in prims]
    rep.extra['dependency_uncovered'] = [norm(p) for p in uncovered]
    ju = ck.func('JSONCookie.unserialize')
    rq = ck.func('SignedCookieMiddleware.request')
    sup_calls = [c for c in walk_body(ju.node) if isinstance(c, ast.Call) and call_tail(c) == 'unserialize'
                 and isinstance(c.func.value, ast.Call) and call_name(c.func.value) == 'super']
    load_calls = [c for c in walk_body(rq.node) if isinstance(c, ast.Call) and call_tail(c) == 'load_cookie']
    if len(sup_calls) != 1 or len(load_calls) != 1:
        raise AnalysisError('cookie call path changed: super().unserialize x%d, load_cookie x%d' % (len(sup_calls), len(load_calls)))
    # the dependency's load_cookie reaches cls.unserialize unprotected?
    lc = dep.func('SecureCookie.load_cookie')
    lc_un = [c for c in walk_body(lc.node) if isinstance(c, ast.Call) and call_tail(c) == 'unserialize']
    dep_guard = bool(lc_un) and all(protected_by(lc, c, 'ValueError') is not None for c in lc_un)
    frames = [(ju, sup_calls[0]), (rq, load_calls[0])]
    guard = None
    if uncovered and not dep_guard:
        for fi, c in frames:
            h = protected_by(fi, c, 'ValueError')
            if h is not None:
                guard = (fi, c, h)
                break
        if guard is None:
            for p in uncovered:
                rep.fail('R16.a', '%s::%s' % (un.key, norm(p)),
                         'decoding primitive %s in the dependency is not under a ValueError handler (enclosing handlers: %s) and '
                         'no clastic frame on request -> load_cookie -> JSONCookie.unserialize catches it: a malformed cookie '
                         '(e.g. clastic_cookie="a?b") makes the request fail with 500'
                         % (short(p), _handlers_text(dep, un, p) or 'none'), ck, sup_calls[0])
        else:
            fi, c, h = guard
            for p in uncovered:
                rep.ok('R16.a', '%s::%s' % (un.key, norm(p)),
                       'uncovered in the dependency, caught by "except %s" in %s' % (norm(h.type) or 'bare', fi.qualname), ck, h)
            # the handler yields an empty cookie and does not re-raise
            no_raise = not any(isinstance(s, ast.Raise) for s in ast.walk(h))
            rep.check('R16.a', fkey(fi, 'handler does not re-raise'), no_raise, 'handler swallows the decoding error' if no_raise else
                      'the handler re-raises: the malformed cookie still fails the request', ck, h)
            if fi is ju:
                rets = [s for s in ast.walk(h) if isinstance(s, ast.Return)]
                ok = bool(rets) and all(isinstance(r.value, ast.Call) and norm(r.value.func) in ('cls', 'JSONCookie')
                                        and (not r.value.args or _is_empty(r.value.args[0])) for r in rets)
                ok = ok and isinstance(h.body[-1], ast.Return)
                rep.check('R16.a', fkey(fi, 'handler yields empty cookie'), ok,
                          'handler returns a cookie object constructed with no data' if ok else
                          'handler does not return an empty cookie (attacker-chosen or missing value)', ck, h)
                if ok:
                    r = rets[0]
                    key_ok = len(r.value.args) >= 2 and norm(r.value.args[1]) == ju.params()[-1]
                    rep.check('R16.a', fkey(fi, 'empty cookie keeps the key'), key_ok,
                              'the fallback cookie is built with the same secret key (so it can be saved)' if key_ok else
                              'fallback cookie is not given the secret key', ck, r)
            else:
                # handler in the middleware: must (re)bind the cookie variable to an empty cookie
                asg = [s for s in h.body if isinstance(s, ast.Assign)]
                ok = bool(asg) and all(isinstance(s.value, ast.Call) for s in asg)
                rep.check('R16.a', fkey(fi, 'handler yields empty cookie'), ok, 'handler binds a fresh cookie' if ok else
                          'handler does not bind a fresh empty cookie', ck, h)
    else:
        for p in prims:
            rep.ok('R16.a', '%s::%s' % (un.key, norm(p)), 'covered inside the dependency', dep, p)
    for p in prims:
        if p not in uncovered:
            rep.ok('R16.a', '%s::%s' % (un.key, norm(p)), 'covered by a ValueError handler inside the dependency', dep, p)
    rep.floor('R16.a', 3)

    # ---- R16.b -----------------------------------------------------------
    rep.rule('R16.b', 'every call in JSONCookie.unquote is under except Exception -> UnquoteError')
    uq = ck.func('JSONCookie.unquote')
    calls = [c for c in walk_body(uq.node) if isinstance(c, ast.Call) and not (isinstance(stmt_of(ck, c), ast.Raise))]
    n = 0
    for c in calls:
        if any(c is x for h in _all_handlers(uq) for x in ast.walk(h)):
            continue
        n += 1
        h = protected_by(uq, c, 'Exception')
        ok = h is not None and all(raise_type(r) == 'UnquoteError' for r in ast.walk(h) if isinstance(r, ast.Raise)) \
            and isinstance(h.body[-1], ast.Raise)
        rep.check('R16.b', fkey(uq, c), ok, 'failure of %s becomes UnquoteError' % short(c, 40) if ok else
                  '%s can raise something other than UnquoteError out of unquote (the dependency only expects UnquoteError)'
                  % short(c, 60), ck, c)
    if n < 2:
        raise AnalysisError('JSONCookie.unquote: decoding calls not found')
    # writer / reader agreement: the payload encoder of quote() and the decoder of unquote() are the two halves of one codec
    PAIRS = {'b64encode': 'b64decode', 'urlsafe_b64encode': 'urlsafe_b64decode', 'standard_b64encode': 'standard_b64decode',
             'b32encode': 'b32decode', 'b16encode': 'b16decode', 'hexlify': 'unhexlify', 'encodebytes': 'decodebytes'}
    qf = ck.func('JSONCookie.quote')
    encs = [call_tail(c) for c in walk_body(qf.node) if isinstance(c, ast.Call) and call_tail(c) in PAIRS]
    decs = [call_tail(c) for c in walk_body(uq.node) if isinstance(c, ast.Call) and call_tail(c) in PAIRS.values()]
    ok = len(encs) == 1 and len(decs) == 1 and PAIRS[encs[0]] == decs[0]
    rep.check('R16.b', '%s::JSONCookie quote/unquote codec' % COOKIE, ok, 'quote() and unquote() use matching halves of one codec (%s / %s)' % (encs, decs) if ok else
              'quote() encodes with %s but unquote() decodes with %s: values whose encoding differs between the two alphabets are silently '
              'dropped (the whole cookie is discarded as unquotable)' % (encs, decs), ck, qf.node)
    sers = [norm(c.func) for c in walk_body(qf.node) if isinstance(c, ast.Call) and call_tail(c) == 'dumps'] + \
        [norm(c.func) for c in walk_body(uq.node) if isinstance(c, ast.Call) and call_tail(c) == 'loads']
    ok = len(sers) == 2 and sers[0].rsplit('.', 1)[0] == sers[1].rsplit('.', 1)[0]
    rep.check('R16.b', '%s::JSONCookie quote/unquote serializer' % COOKIE, ok, 'dumps / loads come from the same serialization module' if ok else
              'quote() and unquote() use different serializers: %s' % sers, ck, qf.node)
    tx = [norm(c) for c in walk_body(qf.node) if isinstance(c, ast.Call) and call_tail(c) == 'encode' and c.args] + \
        [norm(c) for c in walk_body(uq.node) if isinstance(c, ast.Call) and call_tail(c) == 'decode' and c.args]
    charsets = set(repo.try_fold(c.args[0], ck) for f_ in (qf, uq) for c in walk_body(f_.node)
                   if isinstance(c, ast.Call) and call_tail(c) in ('encode', 'decode') and c.args)
    rep.check('R16.b', '%s::JSONCookie quote/unquote charset' % COOKIE, len(charsets) == 1, 'text is encoded and decoded with the same charset %s' % sorted(charsets) if len(charsets) == 1 else
              'quote()/unquote() use different charsets: %s' % sorted(map(str, charsets)), ck, qf.node)
    k, m, ue = repo.resolve(ck, 'UnquoteError')
    rep.check('R16.b', '%s::UnquoteError' % COOKIE, k == 'class' and m is dep, 'UnquoteError is the dependency\'s own class' if k == 'class' and m is dep else
              'UnquoteError is not the class secure_cookie catches', ck)

    # ---- R16.c -----------------------------------------------------------
    rep.rule('R16.c', 'in SecureCookie.unserialize the MAC comparison dominates unquote and expiry; clastic keeps the MAC')
    is_mac = lambda t: isinstance(t, ast.Call) and call_tail(t) in ('safe_str_cmp', 'compare_digest') and 'digest' in norm(t)
    uses = [c for c in walk_body(un.node) if isinstance(c, ast.Call) and call_tail(c) == 'unquote']
    exp = [c for c in walk_body(un.node) if isinstance(c, ast.Compare) and '_expires' in norm(c) and
           any(isinstance(o, (ast.Gt, ast.Lt, ast.GtE, ast.LtE)) for o in c.ops)]
    if not uses or not exp:
        raise AnalysisError('dependency unserialize: unquote / expiry use not found')
    for u in uses + exp:
        cs = conds(un, u)
        ok = has_cond(cs, is_mac, True)
        rep.check('R16.c', '%s::%s' % (un.key, norm(u)), ok, 'dominated by the MAC comparison' if ok else
                  '%s is reachable without a successful MAC comparison' % short(u), dep, u)
    # the mac covers every item
    upd = [c for c in walk_body(un.node) if isinstance(c, ast.Call) and norm(c.func).endswith('mac.update')]
    rep.check('R16.c', '%s::mac.update' % un.key, bool(upd), 'MAC is computed over the received items' if upd else
              'no mac.update over the received items', dep, un.node)
    jc = ck.cls('JSONCookie')
    for nm in ('hash_method', 'serialize', 'load_cookie', 'save_cookie'):
        ok = nm not in jc.methods and nm not in jc.class_attrs
        rep.check('R16.c', '%s::JSONCookie.%s' % (COOKIE, nm), ok, 'JSONCookie inherits %s from SecureCookie' % nm if ok else
                  'JSONCookie overrides %s (the MAC / cookie plumbing is no longer the dependency\'s)' % nm, ck, jc.node)
    sc = sup_calls[0]
    ps = [p for p in ju.params() if p != 'cls']
    ok = len(sc.args) == 2 and norm(sc.args[1]) == ps[1] and ps[0] in [x.id for x in ast.walk(sc.args[0]) if isinstance(x, ast.Name)]
    # the string handed on derives only from the received string through strip()
    sasg = [s for s in stmts_of(ju.node) if isinstance(s, ast.Assign) and norm(s.targets[0]) == ps[0]]
    ok = ok and all(isinstance(s.value, ast.Call) and call_tail(s.value) in ('strip', 'lstrip', 'rstrip') and
                    norm(s.value.func.value) == ps[0] for s in sasg)
    rep.check('R16.c', fkey(ju, 'delegates'), ok, 'unserialize hands (stripped string, same secret_key) to SecureCookie.unserialize' if ok else
              'JSONCookie.unserialize does not delegate (string, secret_key) unchanged to the dependency', ck, sc)
    rets = returns_of(ju)
    ok = any(r.value is sc for r in rets)
    rep.check('R16.c', fkey(ju, 'returns verified cookie'), ok, 'the verified cookie object is what is returned' if ok else
              'the result of the dependency\'s verification is not what is returned', ck, ju.node)
    rep.floor('R16.c', 8)

    # ---- R16.d -----------------------------------------------------------
    rep.rule('R16.d', 'key/name plumbing, provide-under-name, save on every normal path, expiry stamping')
    lcall = load_calls[0]
    ok = norm(kwarg(lcall, 'secret_key')) == 'self.secret_key' and norm(kwarg(lcall, 'key')) == 'self.cookie_name' and \
        lcall.args and norm(lcall.args[0]) == 'request' and norm(lcall.func.value) in ('self._cookie_type', 'JSONCookie')
    rep.check('R16.d', fkey(rq, 'load_cookie args'), ok, 'load_cookie(request, key=self.cookie_name, secret_key=self.secret_key)' if ok else
              'load_cookie is not given the middleware\'s own key/name: %s' % short(lcall), ck, lcall)
    ct = ck.cls('SignedCookieMiddleware').class_attrs.get('_cookie_type')
    rep.check('R16.d', '%s::SignedCookieMiddleware._cookie_type' % COOKIE, norm(ct) == 'JSONCookie', '_cookie_type is JSONCookie' if norm(ct) == 'JSONCookie' else
              '_cookie_type is %s' % norm(ct), ck)
    init = ck.func('SignedCookieMiddleware.__init__')
    sk = [s for s in stmts_of(init.node) if isinstance(s, ast.Assign) and norm(s.targets[0]) == 'self.secret_key']
    ok = len(sk) == 1 and norm(sk[0].value) in ('secret_key or self._get_random()', 'secret_key if secret_key else self._get_random()',
                                                 'secret_key if secret_key is not None else self._get_random()')
    rep.check('R16.d', fkey(init, 'self.secret_key'), ok, 'secret key is the constructor argument, else random' if ok else
              'self.secret_key is not "secret_key or self._get_random()": %s' % (short(sk[0].value) if sk else 'missing'), ck, init.node)
    gr = ck.func('SignedCookieMiddleware._get_random')
    rv = returns_of(gr)
    ok = len(rv) == 1 and isinstance(rv[0].value, ast.Call) and norm(rv[0].value.func) in ('os.urandom', 'secrets.token_bytes') and \
        isinstance(rv[0].value.args[0], ast.Constant) and rv[0].value.args[0].value >= 16
    rep.check('R16.d', fkey(gr), ok, 'random key is >= 16 bytes of os.urandom' if ok else 'random key is not os.urandom(>=16)', ck, gr.node)
    pv = [s for s in stmts_of(init.node) if isinstance(s, ast.Assign) and norm(s.targets[0]) == 'self.provides']
    ok = len(pv) == 1 and norm(pv[0].value) in ('(arg_name,)', '(self.arg_name,)', '[arg_name]')
    rep.check('R16.d', fkey(init, 'self.provides'), ok, 'provides is exactly (arg_name,)' if ok else 'provides is not (arg_name,)', ck, init.node)
    cvar = norm(stmt_of(ck, lcall).targets[0]) if isinstance(stmt_of(ck, lcall), ast.Assign) else None
    ncalls = [c for c in walk_body(rq.node) if isinstance(c, ast.Call) and isinstance(c.func, ast.Name) and c.func.id == 'next']
    ok = len(ncalls) == 1 and len(ncalls[0].keywords) == 1 and ncalls[0].keywords[0].arg is None and \
        norm(ncalls[0].keywords[0].value) == '{self.arg_name: %s}' % cvar
    rep.check('R16.d', fkey(rq, 'next(**{arg_name: cookie})'), ok, 'the loaded cookie is provided under self.arg_name' if ok else
              'next() is not called with {self.arg_name: <loaded cookie>}', ck, ncalls[0] if ncalls else rq.node)
    cfg = cfg_of(rq)
    nd = next_derived(rq)
    saves = [c for c in walk_body(rq.node) if isinstance(c, ast.Call) and call_tail(c) == 'save_cookie']
    nst = stmt_of(ck, ncalls[0]) if ncalls else None
    ok = bool(saves) and nst is not None and all(norm(c.func.value) == cvar and c.args and norm(c.args[0]) in nd for c in saves) and \
        cfg.must_pass(cfg.nodes_of_all([stmt_of(ck, c) for c in saves]), cfg.nodes_of(nst), cfg.exit, normal_only=True)
    rep.check('R16.d', fkey(rq, 'save_cookie'), ok, 'cookie.save_cookie(<next() result>) runs on every normal path' if ok else
              'save_cookie on the next() result can be skipped', ck, saves[0] if saves else rq.node)
    ok = all(isinstance(r.value, ast.Name) and r.value.id in nd for r in returns_of(rq)) and returns_of(rq)
    rep.check('R16.d', fkey(rq, 'return'), bool(ok), 'returns the next() result' if ok else 'does not return the next() result', ck, rq.node)
    kw = [s for s in stmts_of(rq.node) if isinstance(s, ast.Assign) and isinstance(s.value, ast.Call) and call_name(s.value) == 'dict'
          and kwarg(s.value, 'key') is not None]
    ok = bool(kw) and norm(kwarg(kw[0].value, 'key')) == 'self.cookie_name'
    rep.check('R16.d', fkey(rq, 'save key'), ok, 'cookie is saved under self.cookie_name' if ok else 'cookie is not saved under self.cookie_name', ck, rq.node)
    stamps = [s for s in stmts_of(rq.node) if isinstance(s, ast.Assign) and norm(s.targets[0]) == "%s['_expires']" % cvar]
    for s in stamps:
        cs = conds(rq, s)
        ok = has_cond(cs, lambda t: norm(t) == "'_expires' not in %s" % cvar, True) and \
            has_cond(cs, lambda t: norm(t) == 'self.expiry != NEVER', True) and has_cond(cs, lambda t: norm(t) == 'self.expiry != SESSION', True)
        rep.check('R16.d', fkey(rq, '_expires stamp'), ok, 'expiry is stamped only when absent and expiry is numeric' if ok else
                  '_expires is stamped unconditionally / for non-numeric expiry: %s' % '; '.join(cond_texts(cs)), ck, s)
    rep.floor('R16.d', 9)


def _is_empty(e):
    if isinstance(e, (ast.Tuple, ast.List, ast.Dict)) and not (e.elts if not isinstance(e, ast.Dict) else e.keys):
        return True
    if isinstance(e, ast.Constant) and e.value is None:
        return True
    if isinstance(e, ast.Call) and isinstance(e.func, ast.Name) and e.func.id in ('dict', 'tuple', 'list') and not e.args and not e.keywords:
        return True
    return False


def _all_handlers(fi):
    return [h for t in stmts_of(fi.node) if isinstance(t, ast.Try) for h in t.handlers]


def _handlers_text(mod, fi, node):
    from ..cfg import enclosing_tries
    out = []
    for tr, part in enclosing_tries(mod, node, fi.node):
        if part == 'body':
            out.append(' / '.join('except ' + (norm(h.type) or '<bare>') for h in tr.handlers))
    return '; '.join(out)
